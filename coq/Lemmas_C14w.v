(* Lemmas_C14w.v — property C14, the multi-call theorems.
   PART I   (arbitrary oracles, any operation list) the hold WINDOW: from a held command machine with no
            release request recorded, as long as the trace shows no release event the command machine's
            record, its buffer and the ghost counters are unchanged, no read is attempted, no byte of the
            command machine is written, no command-side handler runs, cat_service answers BUSY and
            cat_is_hold answers HOLD.  Events of the event machine are unconstrained.
   PART II  (any oracles) release requests at the API level: refused outside a hold, last one wins.
   PART III (scripted world) events are delivered during a hold.
   PART IV  (scripted world) the release, end to end. *)
From Coq Require Import List NArith ZArith Bool Arith Lia.
From CatV Require Import Bytes Defs Codec Spec Fsm Script ResolveDefs SchedDefs GlueDefs TextDefs CollectDefs.
From CatV Require Import Skel SkelInv SkelSim EvSkel EvSkelSim Lemmas_C14.
From CatV Require Lemmas_C02 Lemmas_C02e Lemmas_C07 Lemmas_C07e Lemmas_C08 Lemmas_C11 Lemmas_C13 Lemmas_C19 Lemmas_E2E Lemmas_E2Eb.
Import ListNotations.
Local Open Scope nat_scope.

(* ====================================================================================== *)
(* PART I — the hold window                                                                *)
(* ====================================================================================== *)

(* requests issued by the event machine *)
Definition ev_req (q : hreq) : bool :=
  match q with
  | HRead UNSOL _ _ _ _ | HTest UNSOL _ _ _ _ | VRead UNSOL _ _ => true
  | _ => false
  end.

Definition mutex_err (r : Z) : bool := (r =? ST_MUTEX_LOCK)%Z || (r =? ST_MUTEX_UNLOCK)%Z.

(* a trace event that shows an accepted release request.  A cat_hold_exit whose unlock failed
   (ST_MUTEX_UNLOCK) has executed its body: the request IS recorded although the caller sees an error. *)
Definition release_ev (e : event) : bool :=
  match e with
  | ERet (OHoldExit _) r | EInner (IHoldExit _) r => (r =? ST_OK)%Z || (r =? ST_MUTEX_UNLOCK)%Z
  | ECall q c => unsol_req q && ((c =? RC_HOLD_EXIT_OK)%Z || (c =? RC_HOLD_EXIT_ERROR)%Z)
  | _ => false
  end.

(* the reviewer's form: exact when no mutex is configured *)
Definition release_ev0 (e : event) : bool :=
  match e with
  | ERet (OHoldExit _) r | EInner (IHoldExit _) r => (r =? ST_OK)%Z
  | ECall q c => unsol_req q && ((c =? RC_HOLD_EXIT_OK)%Z || (c =? RC_HOLD_EXIT_ERROR)%Z)
  | _ => false
  end.

(* what a trace event may be inside the window *)
Definition window_ev (e : event) : bool :=
  match e with
  | ERd _ => false
  | EWr ATCMD _ _ => false
  | ECall q _ => ev_req q
  | ERet OService r => (r =? ST_BUSY)%Z || mutex_err r
  | ERet OIsBusy r => (r =? ST_BUSY)%Z || mutex_err r
  | ERet OIsHold r => (r =? ST_HOLD)%Z || mutex_err r
  | _ => true
  end.

Definition held (s : state) : Prop :=
  k_state (k s) = CS_HOLD /\ k_hold (k s) = true /\ k_hold_exit (k s) = 0%Z.

(* the command machine's part of the object: its record, its buffer, the ghost counters *)
Definition cfr (s : state) : cfsm * list N * nat * nat * nat := (k s, cbuf s, gL s, gS s, gR s).

Lemma held_cfr : forall s s', cfr s' = cfr s -> held s -> held s'.
Proof.
  intros s s' E H. assert (K : k s' = k s) by (unfold cfr in E; congruence).
  unfold held. rewrite K. exact H.
Qed.

Lemma cfr_enable_hold : forall s, held s -> cfr (enable_hold_state s) = cfr s.
Proof.
  intros s (A & B & C). unfold cfr, enable_hold_state.
  destruct s as [k0 u0 cb ub m dc dg fl gl gs gr]. destruct k0. cbn in *. subst. reflexivity.
Qed.

Lemma existsb_mono : forall (A : Type) (f g : A -> bool) l,
  (forall x, f x = true -> g x = true) -> existsb g l = false -> existsb f l = false.
Proof.
  intros A f g l H. induction l as [|x l IH]; [reflexivity|]. cbn. intros E.
  apply orb_false_elim in E as [E1 E2]. rewrite (IH E2), orb_false_r.
  destruct (f x) eqn:F; [|reflexivity]. rewrite (H x F) in E1. discriminate.
Qed.

Ltac brk := repeat (cbv beta iota zeta; match goal with
  | |- context [match ?x with _ => _ end] =>
      lazymatch x with
      | context [match _ with _ => _ end] => fail
      | _ => destruct x
      end
  end).

(* ---------- the event machine's pure functions keep the command machine's part ---------- *)
Section PureFrames.
Variable D : desc.

Lemma cfr_push : forall s ci t, cfr (fst (push_unsolicited_cmd D s ci t)) = cfr s.
Proof. intros s ci t. unfold push_unsolicited_cmd. brk; reflexivity. Qed.

Lemma cfr_poke : forall s p, cfr (apply_poke s p) = cfr s.
Proof. intros s p. unfold apply_poke. brk; reflexivity. Qed.

Lemma cfr_pokes : forall l s, cfr (fold_left apply_poke l s) = cfr s.
Proof. induction l as [|p l IH]; intros s; [reflexivity|]. cbn [fold_left]. rewrite IH. apply cfr_poke. Qed.

Lemma cfr_edit : forall e s, cfr (apply_edit UNSOL e s) = cfr s.
Proof. intros e s. unfold apply_edit, put_cur. brk; reflexivity. Qed.

Lemma cfr_spfra : forall s, cfr (start_processing_format_read_args D UNSOL s) = cfr s.
Proof.
  intros s. unfold start_processing_format_read_args, print_string, put_cur, cmd_of.
  brk; reflexivity.
Qed.

Lemma cfr_prt : forall s, cfr (fst (print_response_test D UNSOL s)) = cfr s.
Proof.
  intros s. unfold print_response_test, print_strings, put_cur, cmd_of.
  brk; reflexivity.
Qed.

Lemma cfr_spfta : forall s, cfr (start_processing_format_test_args D UNSOL s) = cfr s.
Proof.
  intros s. unfold start_processing_format_test_args, print_string, put_cur, cmd_of. cbv zeta.
  destruct (g_cmd UNSOL (setg_pos UNSOL 0 s)); [|reflexivity].
  destruct (cmd_at D n) as [c|]; [|reflexivity].
  destruct (print_nstring (get_cur UNSOL (setg_pos UNSOL 0 s)) (c_name c)) as [c1 ok1].
  destruct ok1; cbn [negb]; [|destruct (cu_fault c1); reflexivity].
  match goal with |- context [print_nstring ?a ?b] => destruct (print_nstring a b) as [c2 ok2] end.
  destruct ok2; cbn [negb]; [|destruct (cu_fault c1), (cu_fault c2); reflexivity].
  destruct (c_vars c).
  - match goal with |- context [print_response_test D UNSOL ?x] =>
      pose proof (cfr_prt x) as H; destruct (print_response_test D UNSOL x) as [s3 ok3] end.
    cbn [fst] in H. destruct ok3; cbn [end_with_error]; change (cfr (unsolicited_reset_state s3)) with (cfr s3);
      rewrite H; destruct (cu_fault c1), (cu_fault c2); reflexivity.
  - destruct (cu_fault c1), (cu_fault c2); reflexivity.
Qed.

Lemma cfr_nfv : forall s, cfr (fst (next_format_var D UNSOL s)) = cfr s.
Proof. intros s. unfold next_format_var, cmd_of. brk; reflexivity. Qed.

Lemma cfr_fta : forall s, cfr (format_test_args D UNSOL s) = cfr s.
Proof.
  intros s. unfold format_test_args, cmd_of.
  destruct (g_cmd UNSOL s); [|reflexivity]. destruct (cmd_at D n) as [c|]; [|reflexivity].
  destruct (nth_error (c_vars c) (g_var UNSOL s)) as [v|]; [|reflexivity].
  destruct (fmt_info v (get_cur UNSOL s)) as [c1 ok].
  assert (P : cfr (put_cur UNSOL c1 s) = cfr s) by (unfold put_cur; destruct (cu_fault c1); reflexivity).
  destruct ok; cbn [negb]; [|exact P].
  pose proof (cfr_nfv (put_cur UNSOL c1 s)) as H.
  destruct (next_format_var D UNSOL (put_cur UNSOL c1 s)) as [s2 handled]. cbn [fst] in H.
  destruct handled; [congruence|].
  pose proof (cfr_prt s2) as H2. destruct (print_response_test D UNSOL s2) as [s3 ok3]. cbn [fst] in H2.
  destruct ok3; cbn [end_with_error]; change (cfr (unsolicited_reset_state s3)) with (cfr s3); congruence.
Qed.

Lemma cfr_check : forall s, cfr (check_unsolicited_buffers D s) = cfr s.
Proof.
  intros s. unfold check_unsolicited_buffers, pop_unsolicited_cmd.
  destruct (ring_empty s); [reflexivity|].
  destruct (nth_error (u_ring (u s)) (u_head (u s))) as [[ci t]|]; [|reflexivity].
  destruct t; try reflexivity.
  - rewrite cfr_spfra. reflexivity.
  - rewrite cfr_spfta. reflexivity.
Qed.

(* the object-state part of format_read_args UNSOL after the optional callback *)
Lemma cfr_fra_tail : forall c v s,
  cfr (match nth_error (mem s) (v_slot v) with
       | None => set_fault_flag s
       | Some data =>
         let (c1, ok) := fmt_var v data (get_cur UNSOL s) in
         let s1 := put_cur UNSOL c1 s in
         if negb ok then end_with_error UNSOL s1
         else
           let (s2, handled) := next_format_var D UNSOL s1 in
           if handled then s2
           else if c_hread c then set_loop_state UNSOL true s2
           else start_flush_after_ok UNSOL s2
       end) = cfr s.
Proof.
  intros c v s. destruct (nth_error (mem s) (v_slot v)) as [data|]; [|reflexivity].
  destruct (fmt_var v data (get_cur UNSOL s)) as [c1 ok]. cbv zeta.
  assert (P : cfr (put_cur UNSOL c1 s) = cfr s) by (unfold put_cur; destruct (cu_fault c1); reflexivity).
  destruct ok; cbn [negb]; [|exact P].
  pose proof (cfr_nfv (put_cur UNSOL c1 s)) as H.
  destruct (next_format_var D UNSOL (put_cur UNSOL c1 s)) as [s2 handled]. cbn [fst] in H.
  destruct handled; [congruence|]. destruct (c_hread c); cbn; unfold cfr in *; cbn; congruence.
Qed.

(* the object-state part of process_rt_loop UNSOL after the callback: a held machine is not touched
   unless the handler answered one of the two release codes *)
Lemma cfr_rt_tail : forall (rd : bool) (code : Z) e s, held s ->
  code <> RC_HOLD_EXIT_OK -> code <> RC_HOLD_EXIT_ERROR ->
  cfr (let s := apply_edit UNSOL e s in
       if (code =? RC_OK)%Z then end_with_ok UNSOL s
       else if (code =? RC_DATA_OK)%Z then start_flush_after UNSOL CS_AFTER_OK US_AFTER_OK s
       else if (code =? RC_DATA_NEXT)%Z then
         (if rd then start_flush_after UNSOL CS_AFTER_FMT_READ US_AFTER_FMT_READ s
          else start_flush_after UNSOL CS_AFTER_FMT_TEST US_AFTER_FMT_TEST s)
       else if (code =? RC_NEXT)%Z then
         (if rd then start_processing_format_read_args D UNSOL s
          else start_processing_format_test_args D UNSOL s)
       else if (code =? RC_HOLD)%Z then enable_hold_state s
       else if (code =? RC_HOLD_EXIT_OK)%Z then end_with_ok UNSOL (fst (hold_exit s ST_OK))
       else if (code =? RC_HOLD_EXIT_ERROR)%Z then end_with_error UNSOL (fst (hold_exit s ST_ERROR))
       else if (code =? RC_PRINT_CMD_LIST_OK)%Z && negb rd then
         match UNSOL with ATCMD => start_print_cmd_list D s | UNSOL => end_with_ok UNSOL s end
       else end_with_error UNSOL s) = cfr s.
Proof.
  intros rd code e s Hh N5 N6. cbv zeta.
  pose proof (cfr_edit e s) as E. pose proof (held_cfr _ _ E Hh) as Hh'.
  set (s1 := apply_edit UNSOL e s) in *. rewrite <- E.
  destruct (code =? RC_OK)%Z; [reflexivity|].
  destruct (code =? RC_DATA_OK)%Z; [reflexivity|].
  destruct (code =? RC_DATA_NEXT)%Z; [destruct rd; reflexivity|].
  destruct (code =? RC_NEXT)%Z; [destruct rd; [apply cfr_spfra | apply cfr_spfta]|].
  destruct (code =? RC_HOLD)%Z; [apply cfr_enable_hold; exact Hh'|].
  destruct (code =? RC_HOLD_EXIT_OK)%Z eqn:E5; [apply Z.eqb_eq in E5; contradiction|].
  destruct (code =? RC_HOLD_EXIT_ERROR)%Z eqn:E6; [apply Z.eqb_eq in E6; contradiction|].
  destruct ((code =? RC_PRINT_CMD_LIST_OK)%Z && negb rd); reflexivity.
Qed.
End PureFrames.

(* ---------- the window relation over worlds ---------- *)
Section Window.
Variable D : desc.
Variables ioS muS hS : Type.
Variable io_read : ioS -> ioS * option N.
Variable io_write : ioS -> N -> ioS * bool.
Variable mu_lock : muS -> muS * bool.
Variable mu_unlock : muS -> muS * bool.
Variable h_call : hS -> hreq -> hS * hres.

Local Notation world := (Fsm.world ioS muS hS).
Local Notation st := (Fsm.st ioS muS hS).
Local Notation io := (Fsm.io ioS muS hS).
Local Notation mu := (Fsm.mu ioS muS hS).
Local Notation hs := (Fsm.hs ioS muS hS).
Local Notation tr := (Fsm.tr ioS muS hS).
Local Notation set_st := (Fsm.set_st ioS muS hS).
Local Notation set_io := (Fsm.set_io ioS muS hS).
Local Notation set_mu := (Fsm.set_mu ioS muS hS).
Local Notation set_hs := (Fsm.set_hs ioS muS hS).
Local Notation logw := (Fsm.logw ioS muS hS).
Local Notation upd_st := (Fsm.upd_st ioS muS hS).
Local Notation busy := (Fsm.busy ioS muS hS).
Local Notation bracket := (Fsm.bracket D ioS muS hS mu_lock mu_unlock).
Local Notation api_trigger := (Fsm.api_trigger D ioS muS hS mu_lock mu_unlock).
Local Notation api_hold_exit := (Fsm.api_hold_exit D ioS muS hS mu_lock mu_unlock).
Local Notation api_is_hold := (Fsm.api_is_hold D ioS muS hS mu_lock mu_unlock).
Local Notation api_is_busy := (Fsm.api_is_busy D ioS muS hS mu_lock mu_unlock).
Local Notation api_is_full := (Fsm.api_is_full D ioS muS hS mu_lock mu_unlock).
Local Notation apply_icall := (Fsm.apply_icall D ioS muS hS mu_lock mu_unlock).
Local Notation call_h := (Fsm.call_h D ioS muS hS mu_lock mu_unlock h_call).
Local Notation format_read_args := (Fsm.format_read_args D ioS muS hS mu_lock mu_unlock h_call).
Local Notation process_rt_loop := (Fsm.process_rt_loop D ioS muS hS mu_lock mu_unlock h_call).
Local Notation unsolicited_process_io_write := (Fsm.unsolicited_process_io_write ioS muS hS io_write).
Local Notation unsolicited_events_service :=
  (Fsm.unsolicited_events_service D ioS muS hS io_write mu_lock mu_unlock h_call).
Local Notation cmd_service :=
  (Fsm.cmd_service D ioS muS hS io_read io_write mu_lock mu_unlock h_call).
Local Notation service_body :=
  (Fsm.service_body D ioS muS hS io_read io_write mu_lock mu_unlock h_call).
Local Notation api_service := (Fsm.api_service D ioS muS hS io_read io_write mu_lock mu_unlock h_call).
Local Notation do_op := (Fsm.do_op D ioS muS hS io_read io_write mu_lock mu_unlock h_call).
Local Notation step := (Fsm.step D ioS muS hS io_read io_write mu_lock mu_unlock h_call).
Local Notation run := (Fsm.run D ioS muS hS io_read io_write mu_lock mu_unlock h_call).

Ltac wred := cbn [fst snd Fsm.busy Fsm.upd_st Fsm.set_st Fsm.set_io Fsm.set_mu Fsm.set_hs
                  Fsm.logw Fsm.tr Fsm.st Fsm.io Fsm.mu Fsm.hs].

(* the release events as the model sees them: the ST_MUTEX_UNLOCK case exists only with a mutex *)
Definition relD (e : event) : bool :=
  match e with
  | ERet (OHoldExit _) r | EInner (IHoldExit _) r =>
      (r =? ST_OK)%Z || (d_mutex D && (r =? ST_MUTEX_UNLOCK)%Z)
  | ECall q c => unsol_req q && ((c =? RC_HOLD_EXIT_OK)%Z || (c =? RC_HOLD_EXIT_ERROR)%Z)
  | _ => false
  end.

Lemma relD_release : forall e, relD e = true -> release_ev e = true.
Proof.
  intros e. destruct e as [| | | | | c r | o r |]; cbn; try (intros; assumption).
  - destruct c; [intros; assumption|]. destruct (r =? ST_OK)%Z; [reflexivity|]. cbn.
    destruct (d_mutex D); [intros; assumption | discriminate].
  - destruct o; try (intros; assumption). destruct (r =? ST_OK)%Z; [reflexivity|]. cbn.
    destruct (d_mutex D); [intros; assumption | discriminate].
Qed.

Lemma relD_release0 : d_mutex D = false -> forall e, relD e = release_ev0 e.
Proof.
  intros M e. destruct e as [| | | | | c r | o r |]; cbn; try reflexivity.
  - destruct c; [reflexivity|]. rewrite M. cbn. apply orb_false_r.
  - destruct o; try reflexivity. rewrite M. cbn. apply orb_false_r.
Qed.

(* window events as the model sees them: the mutex error codes exist only with a mutex *)
Definition winD (e : event) : bool :=
  match e with
  | ERd _ => false
  | EWr ATCMD _ _ => false
  | ECall q _ => ev_req q
  | ERet OService r => (r =? ST_BUSY)%Z || (d_mutex D && mutex_err r)
  | ERet OIsBusy r => (r =? ST_BUSY)%Z || (d_mutex D && mutex_err r)
  | ERet OIsHold r => (r =? ST_HOLD)%Z || (d_mutex D && mutex_err r)
  | _ => true
  end.

Lemma winD_window : forall e, winD e = true -> window_ev e = true.
Proof.
  intros e. destruct e as [| | | | | | o r |]; cbn; try (intros; assumption).
  destruct o; try (intros; assumption); destruct (d_mutex D); cbn; try (intros; assumption);
    intros H; rewrite orb_false_r in H; rewrite H; reflexivity.
Qed.

(* w' extends the trace of w; if w was held, P holds and the new events show no release, the command
   machine's part is unchanged and every new event is a window event *)
Definition Wc (P : Prop) (w w' : world) : Prop :=
  exists evs, tr w' = evs ++ tr w /\
    (P -> held (st w) -> existsb relD evs = false ->
     cfr (st w') = cfr (st w) /\ forallb winD evs = true).
Local Notation W := (Wc True).

Lemma Wc_weaken : forall (P P' : Prop) w w', (P' -> P) -> Wc P w w' -> Wc P' w w'.
Proof. intros P P' w w' H [evs [T C]]. exists evs. split; [exact T|]. intros HP. apply C, H, HP. Qed.

Lemma Wc_refl : forall P w, Wc P w w.
Proof. intros P w. exists []. split; [reflexivity|]. intros _ _ _. split; reflexivity. Qed.

Lemma Wc_trans : forall P w w1 w2, Wc P w w1 -> Wc P w1 w2 -> Wc P w w2.
Proof.
  intros P w w1 w2 [e1 [T1 C1]] [e2 [T2 C2]]. exists (e2 ++ e1).
  split; [rewrite T2, T1; apply app_assoc|].
  intros HP Hh Hr. rewrite existsb_app in Hr. apply orb_false_elim in Hr as [R2 R1].
  destruct (C1 HP Hh R1) as [F1 G1]. destruct (C2 HP (held_cfr _ _ F1 Hh) R2) as [F2 G2].
  split; [rewrite F2; exact F1 | rewrite forallb_app, G2, G1; reflexivity].
Qed.

Lemma Wc_same : forall P (w w' : world), tr w' = tr w -> st w' = st w -> Wc P w w'.
Proof.
  intros P w w' T S. exists []. split; [exact T|]. intros _ _ _. rewrite S. split; reflexivity.
Qed.

Lemma Wc_log : forall P e (w : world), (relD e = false -> winD e = true) -> Wc P w (logw e w).
Proof.
  intros P e w H. exists [e]. split; [reflexivity|]. intros _ _ Hr. cbn in Hr. rewrite orb_false_r in Hr.
  split; [reflexivity|]. cbn. rewrite (H Hr). reflexivity.
Qed.

Lemma Wc_upd : forall (P : Prop) g (w : world),
  (P -> held (st w) -> cfr (g (st w)) = cfr (st w)) -> Wc P w (upd_st g w).
Proof.
  intros P g w H. exists []. split; [reflexivity|]. intros HP Hh _. split; [exact (H HP Hh) | reflexivity].
Qed.

Lemma Wc_set_st : forall (P : Prop) s' (w : world),
  (P -> held (st w) -> cfr s' = cfr (st w)) -> Wc P w (set_st s' w).
Proof.
  intros P s' w H. exists []. split; [reflexivity|]. intros HP Hh _. split; [exact (H HP Hh) | reflexivity].
Qed.

(* log e on (a world with the state and trace of) w, then continue knowing that e is no release *)
Lemma Wc_log_seq : forall (P : Prop) e (w w0 w' : world), st w0 = st w -> tr w0 = tr w ->
  (relD e = false -> winD e = true) ->
  Wc (P /\ relD e = false) (logw e w0) w' -> Wc P w w'.
Proof.
  intros P e w w0 w' S T H [evs [T1 C]]. exists (evs ++ [e]).
  split; [rewrite T1; wred; rewrite T, <- app_assoc; reflexivity|].
  intros HP Hh Hr. rewrite existsb_app in Hr. apply orb_false_elim in Hr as [R1 R2].
  cbn [existsb] in R2. rewrite orb_false_r in R2.
  assert (Hh0 : held (st (logw e w0))) by (wred; rewrite S; exact Hh).
  destruct (C (conj HP R2) Hh0 R1) as [F G]. cbn [Fsm.st Fsm.logw] in F. rewrite S in F.
  split; [exact F|]. rewrite forallb_app, G. cbn. rewrite (H R2). reflexivity.
Qed.

(* ---------- lock; body; unlock, with what the body returns ---------- *)
Definition Wr (Q : Z -> Prop) (w : world) (x : world * Z) : Prop :=
  exists evs, tr (fst x) = evs ++ tr w /\
    (held (st w) -> existsb relD evs = false ->
     cfr (st (fst x)) = cfr (st w) /\ forallb winD evs = true /\ Q (snd x)).

Lemma Wr_of_W : forall (w w' : world) r, W w w' -> Wr (fun _ => True) w (w', r).
Proof.
  intros w w' r [evs [T C]]. exists evs. split; [exact T|]. intros Hh Hr.
  destruct (C I Hh Hr) as [F G]. auto.
Qed.

Lemma W_of_Wr : forall Q (w : world) x, Wr Q w x -> W w (fst x).
Proof.
  intros Q w x [evs [T C]]. exists evs. split; [exact T|]. intros _ Hh Hr.
  destruct (C Hh Hr) as (F & G & _). auto.
Qed.

Lemma Wr_weaken : forall (Q Q' : Z -> Prop) (w : world) x, (forall r, Q r -> Q' r) -> Wr Q w x -> Wr Q' w x.
Proof.
  intros Q Q' w x H [evs [T C]]. exists evs. split; [exact T|]. intros Hh Hr.
  destruct (C Hh Hr) as (F & G & HQ). auto.
Qed.

Lemma Wr_bracket : forall (Q : Z -> Prop) (w : world) body,
  (forall w0, Wr Q w0 (body w0)) ->
  Wr (fun r => Q r \/ (d_mutex D = true /\ (r = ST_MUTEX_LOCK \/ r = ST_MUTEX_UNLOCK))) w (bracket w body).
Proof.
  intros Q w body Hb. unfold Fsm.bracket. destruct (d_mutex D).
  - destruct (mu_lock (mu w)) as [m1 ok]. destruct ok; cbn [negb]; cbv zeta.
    + destruct (Hb (logw (ELock true) (set_mu m1 w))) as [evs [T C]].
      destruct (body (logw (ELock true) (set_mu m1 w))) as [w2 s]. cbn [fst snd] in *.
      destruct (mu_unlock (mu w2)) as [m2 ok2].
      exists (EUnlock ok2 :: evs ++ [ELock true]). split.
      * destruct ok2; cbn [negb]; wred; rewrite T; wred; cbn [app]; rewrite <- app_assoc; reflexivity.
      * intros Hh Hr. cbn [existsb relD orb] in Hr. rewrite existsb_app in Hr.
        apply orb_false_elim in Hr as [R1 _]. destruct (C Hh R1) as (F & G & HQ).
        destruct ok2; cbn [negb]; wred; (split; [exact F|]); cbn [forallb winD andb];
          rewrite forallb_app, G; (split; [reflexivity|]); auto.
    + exists [ELock false]. split; [reflexivity|]. intros _ _. wred. repeat split; auto.
  - destruct (Hb w) as [evs [T C]]. exists evs. split; [exact T|]. intros Hh Hr.
    destruct (C Hh Hr) as (F & G & HQ). auto.
Qed.

Lemma W_api_trigger : forall (w : world) ci t, W w (fst (api_trigger w ci t)).
Proof.
  intros w ci t. unfold Fsm.api_trigger. eapply W_of_Wr. apply Wr_bracket with (Q := fun _ => True).
  intros w0. pose proof (cfr_push D (st w0) ci t) as H.
  destruct (push_unsolicited_cmd D (st w0) ci t) as [s' r]. cbn [fst] in H.
  apply Wr_of_W. apply Wc_set_st. intros _ _. exact H.
Qed.

(* cat_hold_exit together with the record of its result (the operation's, or the inner call's) *)
Lemma W_hold_exit_logged : forall (w : world) z (mk : Z -> event),
  (forall r, relD (mk r) = (r =? ST_OK)%Z || (d_mutex D && (r =? ST_MUTEX_UNLOCK)%Z)) ->
  (forall r, winD (mk r) = true) ->
  W w (logw (mk (snd (api_hold_exit w z))) (fst (api_hold_exit w z))).
Proof.
  intros w z mk Hrel Hwin. unfold Fsm.api_hold_exit, Fsm.bracket. destruct (d_mutex D) eqn:M.
  - destruct (mu_lock (mu w)) as [m1 ok]. destruct ok; cbn [negb]; cbv zeta.
    + wred. destruct (hold_exit (st w) z) as [s' r] eqn:E. wred.
      destruct (mu_unlock m1) as [m2 ok2].
      destruct ok2; cbn [negb]; wred.
      * exists [mk r; EUnlock true; ELock true]. split; [reflexivity|].
        intros _ (_ & B & _) Hr. rewrite (hold_exit_held _ z B) in E. injection E as _ <-.
        cbn [existsb] in Hr. rewrite Hrel in Hr. discriminate.
      * exists [mk ST_MUTEX_UNLOCK; EUnlock false; ELock true]. split; [reflexivity|].
        intros _ _ Hr. cbn [existsb] in Hr. rewrite Hrel in Hr. discriminate.
    + exists [mk ST_MUTEX_LOCK; ELock false]. split; [reflexivity|]. intros _ _ _.
      split; [reflexivity|]. cbn. rewrite Hwin. reflexivity.
  - destruct (hold_exit (st w) z) as [s' r] eqn:E. wred. exists [mk r]. split; [reflexivity|].
    intros _ (_ & B & _) Hr. rewrite (hold_exit_held _ z B) in E. injection E as _ <-.
    cbn [existsb] in Hr. rewrite Hrel in Hr. discriminate.
Qed.

Lemma W_apply_icall : forall (w : world) c, W w (apply_icall w c).
Proof.
  intros w c. unfold Fsm.apply_icall. destruct c as [ci t | status].
  - pose proof (W_api_trigger w ci t) as H. destruct (api_trigger w ci t) as [w' r]. cbn [fst] in H.
    eapply Wc_trans; [exact H|]. apply Wc_log. reflexivity.
  - pose proof (W_hold_exit_logged w status (fun r => EInner (IHoldExit status) r)) as H.
    destruct (api_hold_exit w status) as [w' r]. apply H; reflexivity.
Qed.

Lemma W_icalls : forall l (w : world), W w (fold_left apply_icall l w).
Proof.
  induction l as [|c l IH]; intros w; [apply Wc_refl|]. cbn [fold_left].
  eapply Wc_trans; [apply W_apply_icall | apply IH].
Qed.

(* the part of a callback after the call record *)
Lemma Wc_after_call : forall P (w1 : world) r,
  Wc P w1 (fold_left apply_icall (r_calls r) (upd_st (fun s => fold_left apply_poke (r_pokes r) s) w1)).
Proof.
  intros P w1 r. eapply Wc_trans.
  - apply Wc_upd. intros _ _. apply cfr_pokes.
  - eapply Wc_weaken; [|apply W_icalls]. auto.
Qed.

(* a callback of the event machine whose return code does not matter to the command machine *)
Lemma W_call_h : forall (w : world) q, ev_req q = true -> unsol_req q = false -> W w (fst (call_h w q)).
Proof.
  intros w q Hq Hu. unfold Fsm.call_h. destruct (h_call (hs w) q) as [hs' r]. cbv zeta. cbn [fst].
  eapply (Wc_log_seq True (ECall q (r_code r)) w (set_hs hs' w)); [reflexivity | reflexivity | |].
  - intros _. exact Hq.
  - apply Wc_after_call.
Qed.

Lemma W_format_read_args : forall w : world, W w (fst (format_read_args UNSOL w)).
Proof.
  intros w. unfold Fsm.format_read_args.
  destruct (g_cmd UNSOL (st w)) as [ci|]; [|wred; apply Wc_upd; reflexivity].
  destruct (cmd_of D UNSOL (st w)) as [c|]; [|wred; apply Wc_upd; reflexivity].
  destruct (nth_error (c_vars c) (g_var UNSOL (st w))) as [v|]; [|wred; apply Wc_upd; reflexivity].
  destruct (v_hread v).
  - pose proof (W_call_h w (VRead UNSOL ci (g_var UNSOL (st w))) eq_refl eq_refl) as H.
    destruct (call_h w (VRead UNSOL ci (g_var UNSOL (st w)))) as [w' r]. cbn [fst] in H.
    destruct (negb (r_code r =? 0)%Z); wred; (eapply Wc_trans; [exact H|]); apply Wc_upd; intros _ _.
    + reflexivity.
    + apply cfr_fra_tail.
  - wred. apply Wc_upd. intros _ _. apply cfr_fra_tail.
Qed.

Lemma W_process_rt_loop : forall rd (w : world), W w (fst (process_rt_loop rd UNSOL w)).
Proof.
  intros rd w. unfold Fsm.process_rt_loop.
  destruct (g_cmd UNSOL (st w)) as [ci|]; [|wred; apply Wc_upd; reflexivity].
  cbv zeta.
  match goal with |- context [call_h w ?q0] => set (q := q0) end.
  assert (Hq : ev_req q = true /\ unsol_req q = true) by (unfold q; destruct rd; split; reflexivity).
  destruct Hq as [Hq Hu]. clearbody q.
  unfold Fsm.call_h. destruct (h_call (hs w) q) as [hs' r]. cbv zeta. wred.
  eapply (Wc_log_seq True (ECall q (r_code r)) w (set_hs hs' w)); [reflexivity | reflexivity | |].
  - intros _. exact Hq.
  - eapply Wc_trans; [apply Wc_after_call|]. apply Wc_upd. intros [_ Hr] Hh.
    cbn [relD] in Hr. rewrite Hu in Hr. cbn [andb] in Hr. apply orb_false_elim in Hr as [R5 R6].
    apply cfr_rt_tail; [exact Hh | |].
    + intro E. rewrite E in R5. discriminate.
    + intro E. rewrite E in R6. discriminate.
Qed.

Lemma W_uns_io_write : forall w : world, W w (fst (unsolicited_process_io_write w)).
Proof.
  intros w. unfold Fsm.unsolicited_process_io_write.
  destruct (wbuf_char (u_wbuf (u (st w))) (ubuf (st w)) (u_position (u (st w)))) as [ch|];
    [|wred; apply Wc_upd; reflexivity].
  destruct (ch =? 0)%N.
  - wred. apply Wc_upd. intros _ _. destruct (u_wstate (u (st w))); reflexivity.
  - destruct (io_write (io w) ch) as [io' ok]. cbv zeta.
    assert (H : W w (logw (EWr UNSOL ch ok) (set_io io' w))).
    { eapply Wc_trans; [apply (Wc_same True w (set_io io' w)); reflexivity | apply Wc_log; reflexivity]. }
    destruct ok; wred; [|exact H].
    eapply Wc_trans; [exact H|]. apply Wc_upd. reflexivity.
Qed.

(* one step of the event machine *)
Lemma W_uns_service : forall w : world, W w (fst (unsolicited_events_service w)).
Proof.
  intros w. unfold Fsm.unsolicited_events_service.
  destruct (u_state (u (st w))).
  - destruct (ring_empty (st w)); cbn [negb]; [apply Wc_refl|].
    wred. eapply Wc_trans with (w1 := match ring_items D (st w) with
                                      | it :: _ => logw (EPop (fst it) (snd it)) w | [] => w end).
    + destruct (ring_items D (st w)); [apply Wc_refl | apply Wc_log; reflexivity].
    + apply Wc_upd. intros _ _. apply cfr_check.
  - apply W_format_read_args.
  - wred. apply Wc_upd. intros _ _. apply cfr_fta.
  - apply W_process_rt_loop.
  - apply W_process_rt_loop.
  - wred. apply Wc_upd. intros _ _. unfold unsolicited_process_io_write_wait.
    destruct (negb (cstate_beq (k_state (k (st w))) CS_FLUSH)); reflexivity.
  - apply W_uns_io_write.
  - wred. apply Wc_upd. reflexivity.
  - wred. apply Wc_upd. reflexivity.
  - wred. apply Wc_upd. intros _ _. apply cfr_spfra.
  - wred. apply Wc_upd. intros _ _. apply cfr_spfta.
Qed.

(* between lock and unlock of cat_service: the event machine moves, the held command machine does not,
   the answer is BUSY *)
Lemma Wr_service_body : forall w : world, Wr (fun r => r = ST_BUSY) w (service_body w).
Proof.
  intros w. unfold Fsm.service_body.
  destruct (W_uns_service w) as [e1 [T1 C1]].
  destruct (unsolicited_events_service w) as [w1 us]. cbn [fst] in *.
  destruct (cmd_service_evs D ioS muS hS io_read io_write mu_lock mu_unlock h_call w1) as [e2 [T2 _]].
  pose proof (hold_step_waits D ioS muS hS io_read io_write mu_lock mu_unlock h_call w1) as HW.
  destruct (cmd_service w1) as [w2 s]. cbn [fst snd] in *.
  exists (e2 ++ e1). split.
  - destruct (negb (us =? ST_OK)%Z || negb (ustate_beq (u_state (u (st w2))) US_IDLE)); cbn [fst];
      rewrite T2, T1; apply app_assoc.
  - intros Hh Hr. rewrite existsb_app in Hr. apply orb_false_elim in Hr as [R2 R1].
    destruct (C1 I Hh R1) as [F1 G1]. pose proof (held_cfr _ _ F1 Hh) as (A & B & C).
    destruct (HW A C) as (S2 & _ & _ & T2' & Rs).
    assert (E2 : e2 = []).
    { apply (app_inv_tail (tr w1)). rewrite <- T2. exact T2'. }
    subst e2 s. cbn [app].
    destruct (negb (us =? ST_OK)%Z || negb (ustate_beq (u_state (u (st w2))) US_IDLE)); cbn [fst snd];
      rewrite S2; auto.
Qed.

(* one operation *)
Lemma W_step : forall (w : world) o, W w (step w o).
Proof.
  intros w o. unfold Fsm.step.
  assert (G : forall Q, Wr Q w (do_op w o) ->
              (forall r, Q r -> relD (ERet o r) = false -> winD (ERet o r) = true) ->
              W w (let (w', r) := do_op w o in logw (ERet o r) w')).
  { intros Q [evs [T C]] HQ. destruct (do_op w o) as [w' r]. cbn [fst snd] in *.
    exists (ERet o r :: evs). split; [wred; rewrite T; reflexivity|].
    intros _ Hh Hr. cbn [existsb] in Hr. apply orb_false_elim in Hr as [R1 R2].
    destruct (C Hh R2) as (F & G & Hq). wred. split; [exact F|].
    cbn [forallb]. rewrite G, (HQ r Hq R1). reflexivity. }
  destruct o as [| ci t | status | | | | ci t | f | i b | g b].
  - (* cat_service *)
    apply (G (fun r => r = ST_BUSY \/ (d_mutex D = true /\ (r = ST_MUTEX_LOCK \/ r = ST_MUTEX_UNLOCK)))).
    + cbn [Fsm.do_op]. unfold Fsm.api_service. apply Wr_bracket with (Q := fun r => r = ST_BUSY).
      apply Wr_service_body.
    + intros r [->|[M [->| ->]]] _; cbn [winD]; try rewrite M; reflexivity.
  - (* cat_trigger_unsolicited_event *)
    apply (G (fun _ => True)); [|reflexivity].
    cbn [Fsm.do_op]. pose proof (W_api_trigger w ci t) as H.
    destruct (api_trigger w ci t) as [w' r]. apply Wr_of_W. exact H.
  - (* cat_hold_exit *)
    cbn [Fsm.do_op].
    pose proof (W_hold_exit_logged w status (fun r => ERet (OHoldExit status) r)) as H.
    destruct (api_hold_exit w status) as [w' r]. apply H; reflexivity.
  - (* cat_is_busy *)
    apply (G (fun r => r = ST_BUSY \/ (d_mutex D = true /\ (r = ST_MUTEX_LOCK \/ r = ST_MUTEX_UNLOCK)))).
    + cbn [Fsm.do_op]. unfold Fsm.api_is_busy. apply Wr_bracket with (Q := fun r => r = ST_BUSY).
      intros w0. exists []. split; [reflexivity|]. intros (A & _) _. cbn [fst snd].
      repeat split. unfold is_busy. rewrite A. reflexivity.
    + intros r [->|[M [->| ->]]] _; cbn [winD]; try rewrite M; reflexivity.
  - (* cat_is_hold *)
    apply (G (fun r => r = ST_HOLD \/ (d_mutex D = true /\ (r = ST_MUTEX_LOCK \/ r = ST_MUTEX_UNLOCK)))).
    + cbn [Fsm.do_op]. unfold Fsm.api_is_hold. apply Wr_bracket with (Q := fun r => r = ST_HOLD).
      intros w0. exists []. split; [reflexivity|]. intros (_ & B & _) _. cbn [fst snd].
      repeat split. unfold is_hold. rewrite B. reflexivity.
    + intros r [->|[M [->| ->]]] _; cbn [winD]; try rewrite M; reflexivity.
  - (* cat_is_unsolicited_buffer_full *)
    apply (G (fun _ => True)); [|reflexivity].
    cbn [Fsm.do_op]. unfold Fsm.api_is_full.
    eapply Wr_weaken; [|apply Wr_bracket with (Q := fun _ => True)]; [auto|].
    intros w0. exists []. split; [reflexivity|]. intros _ _. cbn [fst snd]. auto.
  - apply (G (fun _ => True)); [|reflexivity]. cbn [Fsm.do_op]. apply Wr_of_W, Wc_refl.
  - apply (G (fun _ => True)); [|reflexivity]. cbn [Fsm.do_op]. apply Wr_of_W, Wc_refl.
  - apply (G (fun _ => True)); [|reflexivity]. cbn [Fsm.do_op]. apply Wr_of_W, Wc_upd. reflexivity.
  - apply (G (fun _ => True)); [|reflexivity]. cbn [Fsm.do_op]. apply Wr_of_W, Wc_upd. reflexivity.
Qed.

Lemma W_run : forall ops (w : world), W w (run w ops).
Proof.
  induction ops as [|o ops IH]; intros w; [apply Wc_refl|]. unfold Fsm.run. cbn [fold_left].
  eapply Wc_trans; [apply W_step | apply IH].
Qed.

(* ---------- the window theorem ---------- *)
Definition window_facts (evs : list event) : Prop :=
  (forall r, ~ In (ERd r) evs) /\
  (forall ch ok, ~ In (EWr ATCMD ch ok) evs) /\
  (forall q c, In (ECall q c) evs -> ev_req q = true) /\
  (forall r, In (ERet OService r) evs -> r = ST_BUSY \/ r = ST_MUTEX_LOCK \/ r = ST_MUTEX_UNLOCK) /\
  (forall r, In (ERet OIsBusy r) evs -> r = ST_BUSY \/ r = ST_MUTEX_LOCK \/ r = ST_MUTEX_UNLOCK) /\
  (forall r, In (ERet OIsHold r) evs -> r = ST_HOLD \/ r = ST_MUTEX_LOCK \/ r = ST_MUTEX_UNLOCK).

Lemma three_codes : forall r a, ((r =? a)%Z || mutex_err r) = true ->
  r = a \/ r = ST_MUTEX_LOCK \/ r = ST_MUTEX_UNLOCK.
Proof.
  intros r a H. unfold mutex_err in H. apply orb_true_iff in H as [H|H].
  - left. apply Z.eqb_eq. exact H.
  - apply orb_true_iff in H as [H|H]; apply Z.eqb_eq in H; auto.
Qed.

Lemma window_facts_of : forall evs, forallb window_ev evs = true -> window_facts evs.
Proof.
  intros evs H. rewrite forallb_forall in H. unfold window_facts. repeat split.
  - intros r Hin. specialize (H _ Hin). discriminate.
  - intros ch ok Hin. specialize (H _ Hin). discriminate.
  - intros q c Hin. exact (H _ Hin).
  - intros r Hin. apply three_codes. exact (H _ Hin).
  - intros r Hin. apply three_codes. exact (H _ Hin).
  - intros r Hin. apply three_codes. exact (H _ Hin).
Qed.

Lemma forallb_mono : forall (A : Type) (f g : A -> bool) l,
  (forall x, f x = true -> g x = true) -> forallb f l = true -> forallb g l = true.
Proof.
  intros A f g l H E. rewrite forallb_forall in *. intros x Hx. apply H, E, Hx.
Qed.

Lemma hold_window_D : forall (w0 : world) ops evs,
  held (st w0) -> tr (run w0 ops) = evs ++ tr w0 -> existsb relD evs = false ->
  cfr (st (run w0 ops)) = cfr (st w0) /\ forallb winD evs = true.
Proof.
  intros w0 ops evs Hh T Hr. destruct (W_run ops w0) as [evs' [T' C]].
  assert (E : evs' = evs) by (apply (app_inv_tail (tr w0)); rewrite <- T, <- T'; reflexivity).
  subst evs'. exact (C I Hh Hr).
Qed.

Theorem C14_hold_window_proof : forall (w0 : world) ops evs,
  k_state (k (st w0)) = CS_HOLD -> k_hold (k (st w0)) = true -> k_hold_exit (k (st w0)) = 0%Z ->
  tr (run w0 ops) = evs ++ tr w0 -> existsb release_ev evs = false ->
  let s := st (run w0 ops) in
  k s = k (st w0) /\ cbuf s = cbuf (st w0) /\
  gL s = gL (st w0) /\ gS s = gS (st w0) /\ gR s = gR (st w0) /\
  (forall r, ~ In (ERd r) evs) /\
  (forall ch ok, ~ In (EWr ATCMD ch ok) evs) /\
  (forall q c, In (ECall q c) evs -> ev_req q = true) /\
  (forall r, In (ERet OService r) evs -> r = ST_BUSY \/ r = ST_MUTEX_LOCK \/ r = ST_MUTEX_UNLOCK) /\
  (forall r, In (ERet OIsBusy r) evs -> r = ST_BUSY \/ r = ST_MUTEX_LOCK \/ r = ST_MUTEX_UNLOCK) /\
  (forall r, In (ERet OIsHold r) evs -> r = ST_HOLD \/ r = ST_MUTEX_LOCK \/ r = ST_MUTEX_UNLOCK).
Proof.
  intros w0 ops evs A B C T Hr s.
  destruct (hold_window_D w0 ops evs (conj A (conj B C)) T
              (existsb_mono _ relD release_ev evs relD_release Hr)) as [F G].
  unfold cfr in F. injection F as F1 F2 F3 F4 F5. subst s. repeat (split; [assumption|]).
  exact (window_facts_of evs (forallb_mono _ winD window_ev evs winD_window G)).
Qed.

(* with the reviewer's release events when no mutex is configured; the answers are then exact *)
Theorem C14_hold_window_nomutex_proof : forall (w0 : world) ops evs, d_mutex D = false ->
  k_state (k (st w0)) = CS_HOLD -> k_hold (k (st w0)) = true -> k_hold_exit (k (st w0)) = 0%Z ->
  tr (run w0 ops) = evs ++ tr w0 -> existsb release_ev0 evs = false ->
  let s := st (run w0 ops) in
  k s = k (st w0) /\ cbuf s = cbuf (st w0) /\
  gL s = gL (st w0) /\ gS s = gS (st w0) /\ gR s = gR (st w0) /\
  (forall r, ~ In (ERd r) evs) /\
  (forall ch ok, ~ In (EWr ATCMD ch ok) evs) /\
  (forall q c, In (ECall q c) evs -> ev_req q = true) /\
  (forall r, In (ERet OService r) evs -> r = ST_BUSY) /\
  (forall r, In (ERet OIsBusy r) evs -> r = ST_BUSY) /\
  (forall r, In (ERet OIsHold r) evs -> r = ST_HOLD).
Proof.
  intros w0 ops evs M A B C T Hr s.
  assert (Hr' : existsb relD evs = false).
  { rewrite <- Hr. clear - M. induction evs as [|e l IH]; [reflexivity|]. cbn [existsb].
    rewrite IH, (relD_release0 M). reflexivity. }
  destruct (hold_window_D w0 ops evs (conj A (conj B C)) T Hr') as [F G].
  unfold cfr in F. injection F as F1 F2 F3 F4 F5. subst s. repeat (split; [assumption|]).
  rewrite forallb_forall in G.
  repeat split.
  - intros r Hin. specialize (G _ Hin). discriminate.
  - intros ch ok Hin. specialize (G _ Hin). discriminate.
  - intros q c Hin. exact (G _ Hin).
  - intros r Hin. specialize (G _ Hin). cbn [winD] in G. rewrite M in G. cbn [andb] in G.
    rewrite orb_false_r in G. apply Z.eqb_eq. exact G.
  - intros r Hin. specialize (G _ Hin). cbn [winD] in G. rewrite M in G. cbn [andb] in G.
    rewrite orb_false_r in G. apply Z.eqb_eq. exact G.
  - intros r Hin. specialize (G _ Hin). cbn [winD] in G. rewrite M in G. cbn [andb] in G.
    rewrite orb_false_r in G. apply Z.eqb_eq. exact G.
Qed.

(* the trace of a run always extends the trace it started from: the premise of the window theorem
   can be instantiated for every world and operation list *)
Theorem run_trace_extends_proof : forall (w0 : world) ops, exists evs, tr (run w0 ops) = evs ++ tr w0.
Proof. intros w0 ops. destruct (W_run ops w0) as [evs [T _]]. exists evs. exact T. Qed.

End Window.

(* ====================================================================================== *)
(* PART II — release requests at the API level (any oracles, with or without a mutex)      *)
(* ====================================================================================== *)
Lemma setk_hold_exit_twice : forall a b s, setk_hold_exit b (setk_hold_exit a s) = setk_hold_exit b s.
Proof. intros a b s. destruct s as [k0 u0 cb ub m dc dg fl gl gs gr]. destruct k0. reflexivity. Qed.

Definition hx_sign (status : Z) : Z := if (status =? ST_OK)%Z then 1%Z else (-1)%Z.

Section Api.
Variable D : desc.
Variables ioS muS hS : Type.
Variable io_read : ioS -> ioS * option N.
Variable io_write : ioS -> N -> ioS * bool.
Variable mu_lock : muS -> muS * bool.
Variable mu_unlock : muS -> muS * bool.
Variable h_call : hS -> hreq -> hS * hres.

Local Notation world := (Fsm.world ioS muS hS).
Local Notation st := (Fsm.st ioS muS hS).
Local Notation io := (Fsm.io ioS muS hS).
Local Notation mu := (Fsm.mu ioS muS hS).
Local Notation hs := (Fsm.hs ioS muS hS).
Local Notation tr := (Fsm.tr ioS muS hS).
Local Notation set_st := (Fsm.set_st ioS muS hS).
Local Notation logw := (Fsm.logw ioS muS hS).
Local Notation api_hold_exit := (Fsm.api_hold_exit D ioS muS hS mu_lock mu_unlock).
Local Notation api_is_hold := (Fsm.api_is_hold D ioS muS hS mu_lock mu_unlock).
Local Notation apply_icall := (Fsm.apply_icall D ioS muS hS mu_lock mu_unlock).
Local Notation step := (Fsm.step D ioS muS hS io_read io_write mu_lock mu_unlock h_call).
Local Notation run := (Fsm.run D ioS muS hS io_read io_write mu_lock mu_unlock h_call).

Ltac wred := cbn [fst snd Fsm.busy Fsm.upd_st Fsm.set_st Fsm.set_io Fsm.set_mu Fsm.set_hs
                  Fsm.logw Fsm.tr Fsm.st Fsm.io Fsm.mu Fsm.hs].

(* a release request outside a hold, whatever the mutex does: never OK, and the object, the io state and
   the handlers' state are untouched; without a mutex the world is returned as it was *)
Theorem spurious_release_proof : forall (w : world) status, k_hold (k (st w)) = false ->
  let x := api_hold_exit w status in
  st (fst x) = st w /\ io (fst x) = io w /\ hs (fst x) = hs w /\
  (snd x = ST_NOT_HOLD \/ d_mutex D = true /\ (snd x = ST_MUTEX_LOCK \/ snd x = ST_MUTEX_UNLOCK)) /\
  (d_mutex D = false -> x = (w, ST_NOT_HOLD)).
Proof.
  intros w status H x. subst x. unfold Fsm.api_hold_exit, Fsm.bracket.
  destruct (d_mutex D).
  - destruct (mu_lock (mu w)) as [m1 ok]. destruct ok; cbn [negb]; cbv zeta.
    + wred. rewrite (hold_exit_not_held _ status H). wred.
      destruct (mu_unlock m1) as [m2 ok2]. destruct ok2; cbn [negb]; wred;
        (repeat split; try reflexivity; try discriminate); auto.
    + wred. repeat split; try reflexivity; try discriminate. auto.
  - rewrite (hold_exit_not_held _ status H). destruct w. wred. repeat split; auto.
Qed.

(* the same as an operation and as a call from inside a handler, without a mutex: only the record of the
   refused call is added to the trace *)
Theorem spurious_release_op_proof : forall (w : world) status, d_mutex D = false ->
  k_hold (k (st w)) = false ->
  step w (OHoldExit status) = logw (ERet (OHoldExit status) ST_NOT_HOLD) w /\
  apply_icall w (IHoldExit status) = logw (EInner (IHoldExit status) ST_NOT_HOLD) w.
Proof.
  intros w status M H.
  destruct (spurious_release_proof w status H) as (_ & _ & _ & _ & E). specialize (E M).
  unfold Fsm.step, Fsm.apply_icall. cbn [Fsm.do_op]. rewrite E. split; reflexivity.
Qed.

(* an accepted request, without a mutex *)
Lemma release_op_held : forall (w : world) status, d_mutex D = false -> k_hold (k (st w)) = true ->
  step w (OHoldExit status) =
  logw (ERet (OHoldExit status) ST_OK) (set_st (setk_hold_exit (hx_sign status) (st w)) w).
Proof.
  intros w status M H. unfold Fsm.step. cbn [Fsm.do_op].
  rewrite (api_hold_exit_nomutex D ioS muS hS mu_lock mu_unlock w status M), (hold_exit_held _ status H).
  reflexivity.
Qed.

(* repeated requests before the command machine acts on them: every one is accepted, the last one is
   the one recorded *)
Theorem last_request_wins_proof : forall l (w : world) b, d_mutex D = false -> k_hold (k (st w)) = true ->
  let w' := run w (map OHoldExit (l ++ [b])) in
  st w' = setk_hold_exit (hx_sign b) (st w) /\ io w' = io w /\ hs w' = hs w /\
  tr w' = rev (map (fun a => ERet (OHoldExit a) ST_OK) (l ++ [b])) ++ tr w.
Proof.
  induction l as [|a l IH]; intros w b M H w'; subst w'.
  - cbn [app map]. unfold Fsm.run. cbn [fold_left]. rewrite (release_op_held w b M H).
    repeat split; reflexivity.
  - cbn [app map]. unfold Fsm.run. cbn [fold_left]. rewrite (release_op_held w a M H).
    match goal with |- context [fold_left _ _ ?w1] => set (w1' := w1) end.
    assert (H1 : k_hold (k (st w1')) = true) by exact H.
    destruct (IH w1' b M H1) as (A & B & C & T). unfold Fsm.run in A, B, C, T.
    rewrite A, B, C, T. unfold w1'. wred. rewrite setk_hold_exit_twice.
    repeat split; try reflexivity. cbn [rev map]. rewrite <- app_assoc. reflexivity.
Qed.
End Api.

(* ====================================================================================== *)
(* PART III — events are delivered during a hold (scripted world)                          *)
(* An unsolicited READ event while the command machine is HELD (C14 + C13), end to end: on the scripted
   always-ready environment of Script.v (no mutex) the command machine sits in CS_HOLD with ARBITRARY input
   pending; the application triggers a READ event for a command whose variables are all read-write without
   callbacks.  Repeated cat_service calls emit exactly one unit  newline name=text1,... newline  (no result
   code), answer BUSY every time, never attempt a read, consume nothing, and leave the command machine
   exactly as it was.  The event-machine lemmas that do not mention the command machine's state are reused
   from Lemmas_E2Eb.v; only the service-call layer (relation hev_steps instead of usteps) is redone. *)
(* ====================================================================================== *)
Local Notation wst := (Fsm.st sio smu shs).
Local Notation wio := (Fsm.io sio smu shs).
Local Notation whs := (Fsm.hs sio smu shs).
Local Notation wtr := (Fsm.tr sio smu shs).
Local Notation idle := Lemmas_C02e.idle.
Local Notation flush_step_u := Lemmas_C11.flush_step_u.
Local Notation run_flush_u := Lemmas_C11.run_flush_u.
Local Notation calls_of_app := Lemmas_E2E.calls_of_app.
Local Notation output_of_app := Lemmas_E2E.output_of_app.
Local Notation obyte := Lemmas_E2E.obyte.
Local Notation ukeep := Lemmas_E2Eb.ukeep.
Local Notation ufresh := Lemmas_E2Eb.ufresh.
Local Notation uframe := Lemmas_E2Eb.uframe.

(* the command machine is held and has not been released *)
Definition hev_held (s : state) : Prop :=
  k_state (k s) = CS_HOLD /\ k_hold (k s) = true /\ k_hold_exit (k s) = 0%Z.

Lemma hev_held_k : forall a b, k a = k b -> hev_held b -> hev_held a.
Proof. intros a b E H. unfold hev_held in *. rewrite E. exact H. Qed.

(* the events the event machine may log in these calls: accepted/refused output bytes, the ghost pop *)
Definition hev_evok (e : event) : bool :=
  match e with EWr _ _ _ => true | EPop _ _ => true | _ => false end.

Lemma hev_evok_calls : forall ev, forallb hev_evok ev = true -> calls_of ev = [].
Proof.
  induction ev as [|e ev IH]; intros H; [reflexivity|].
  cbn [forallb] in H. apply andb_prop in H. destruct H as [He Hev].
  change (e :: ev) with ([e] ++ ev). rewrite calls_of_app, (IH Hev).
  destruct e; try discriminate He; reflexivity.
Qed.

Lemma hev_evok_in : forall ev e, forallb hev_evok ev = true -> In e ev -> hev_evok e = true.
Proof. intros ev e H Hi. rewrite forallb_forall in H. apply H. exact Hi. Qed.

Section HEv.
Variable D : desc.
Hypothesis Hmx : d_mutex D = false.

Local Notation uessvc := (unsolicited_events_service D sio smu shs s_write s_lock s_unlock s_call).
Local Notation sdo := (do_op D sio smu shs s_read s_write s_lock s_unlock s_call).
Local Notation fra_state_u := (Lemmas_E2Eb.fra_state_u D).
Local Notation RInvU := (Lemmas_E2Eb.RInvU D).
Local Notation RDoneU := Lemmas_E2Eb.RDoneU.
Local Notation slot_text := Lemmas_C07e.slot_text.

(* ================= A. m service calls with the command machine held ================= *)
Definition hev_steps (m : nat) (s s' : state) (out : list N) : Prop :=
  forall q h t, exists t', calls_of t' = [] /\ output_of t' = out /\
    (forall r, ~ In (ERd r) t') /\ (forall r, In (ERet OService r) t' -> r = ST_BUSY) /\
    nsvc D m (mkw s q h t) = mkw s' q h (t' ++ t).

Lemma hev_steps_0 : forall s, hev_steps 0 s s [].
Proof.
  intros s q h t. exists []. repeat split; try reflexivity.
  - intros r H; exact H.
  - intros r H; destruct H.
Qed.

Lemma hev_steps_trans : forall a b s s1 s2 o1 o2,
  hev_steps a s s1 o1 -> hev_steps b s1 s2 o2 -> hev_steps (a + b) s s2 (o1 ++ o2).
Proof.
  intros a b s s1 s2 o1 o2 H1 H2 q h t.
  destruct (H1 q h t) as (t1 & C1 & O1 & R1 & B1 & E1).
  destruct (H2 q h (t1 ++ t)) as (t2 & C2 & O2 & R2 & B2 & E2).
  exists (t2 ++ t1). split; [rewrite calls_of_app, C1, C2; reflexivity|].
  split; [rewrite output_of_app, O1, O2; reflexivity|].
  split; [|split].
  - intros r Hi. apply in_app_or in Hi. destruct Hi as [Hi|Hi]; [exact (R2 r Hi) | exact (R1 r Hi)].
  - intros r Hi. apply in_app_or in Hi. destruct Hi as [Hi|Hi]; [exact (B2 r Hi) | exact (B1 r Hi)].
  - unfold nsvc in *. rewrite Lemmas_C02e.iter_add, E1, E2, app_assoc. reflexivity.
Qed.

Lemma hev_steps_cast : forall m m' s s' o o',
  hev_steps m s s' o -> m = m' -> o = o' -> hev_steps m' s s' o'.
Proof. intros; subst; assumption. Qed.

Lemma hev_steps_world : forall calls s s2 out q h, hev_steps calls s s2 out ->
  exists t', nsvc D calls (mkw s q h []) = mkw s2 q h t' /\ calls_of t' = [] /\ output_of t' = out /\
    (forall r, ~ In (ERd r) t') /\ (forall r, In (ERet OService r) t' -> r = ST_BUSY).
Proof.
  intros calls s s2 out q h H. destruct (H q h []) as (t' & A & B & R & Bz & E). exists t'.
  rewrite E, app_nil_r. repeat split; assumption.
Qed.

(* ================= B. one service call: the event machine moves, the held command machine does nothing ================= *)
Lemma hev_svc : forall s s' q h t ev, hev_held s' ->
  uessvc (mkw s q h t) = (mkw s' q h (ev ++ t), ST_BUSY) ->
  svc D (mkw s q h t) = mkw s' q h ((ERet OService ST_BUSY :: ev) ++ t).
Proof.
  intros s s' q h t ev (Hk & _ & Hx) Hu. unfold svc, step, do_op, api_service, bracket. rewrite Hmx.
  unfold service_body. rewrite Hu. unfold cmd_service. cbn [Fsm.st mkw]. rewrite Hk.
  unfold busy, upd_st, process_hold_state. cbn [Fsm.st mkw]. rewrite Hx.
  reflexivity.
Qed.

Lemma hev_step_ev : forall s s' ev out, hev_held s' ->
  (forall q h t, uessvc (mkw s q h t) = (mkw s' q h (ev ++ t), ST_BUSY)) ->
  forallb hev_evok ev = true -> output_of ev = out -> hev_steps 1 s s' out.
Proof.
  intros s s' ev out Hk Hu He Ho q h t. exists (ERet OService ST_BUSY :: ev).
  split; [|split; [|split; [|split]]].
  - change (ERet OService ST_BUSY :: ev) with ([ERet OService ST_BUSY] ++ ev).
    rewrite calls_of_app, (hev_evok_calls ev He). reflexivity.
  - change (ERet OService ST_BUSY :: ev) with ([ERet OService ST_BUSY] ++ ev).
    rewrite output_of_app, Ho. apply app_nil_r.
  - intros r [Hi|Hi]; [discriminate Hi|]. pose proof (hev_evok_in ev _ He Hi) as X. discriminate X.
  - intros r [Hi|Hi]; [injection Hi as <-; reflexivity|].
    pose proof (hev_evok_in ev _ He Hi) as X. discriminate X.
  - unfold nsvc. simpl iter. apply hev_svc; [exact Hk | apply Hu].
Qed.

Lemma hev_step_pure : forall s f, hev_held (f s) ->
  (forall q h t, uessvc (mkw s q h t) = (mkw (f s) q h t, ST_BUSY)) -> hev_steps 1 s (f s) [].
Proof. intros s f Hk Hu. apply (hev_step_ev s (f s) [] [] Hk); [exact Hu | reflexivity | reflexivity]. Qed.

(* ================= C. the flush engine of the event machine ================= *)
Lemma hev_step_flush : forall s, hev_held s -> u_state (u s) = US_FLUSH ->
  hev_steps 1 s (fst (flush_step_u s)) (obyte (snd (flush_step_u s))).
Proof.
  intros s Hk Hs.
  apply (hev_step_ev s (fst (flush_step_u s))
           (match snd (flush_step_u s) with Some ch => [EWr UNSOL ch true] | None => [] end)).
  - apply (hev_held_k _ s); [apply Lemmas_E2Eb.flush_step_u_k | exact Hk].
  - intros q h t. unfold unsolicited_events_service. cbn [Fsm.st mkw]. rewrite Hs.
    unfold unsolicited_process_io_write, Lemmas_C11.flush_step_u. cbn [Fsm.st mkw].
    destruct (wbuf_char (u_wbuf (u s)) (ubuf s) (u_position (u s))) as [ch|]; [|reflexivity].
    destruct (ch =? 0)%N; reflexivity.
  - destruct (snd (flush_step_u s)); reflexivity.
  - destruct (snd (flush_step_u s)); reflexivity.
Qed.

Lemma hev_flush_steps : forall m s, hev_held s ->
  (forall j, j < m -> u_state (u (fst (run_flush_u j s))) = US_FLUSH) ->
  hev_steps m s (fst (run_flush_u m s)) (snd (run_flush_u m s)).
Proof.
  induction m as [|m IH]; intros s Hk Hall.
  - apply hev_steps_0.
  - rewrite Lemmas_E2Eb.run_flush_u_S. cbn [fst snd]. change (S m) with (1 + m).
    eapply hev_steps_trans.
    + apply hev_step_flush; [exact Hk|]. exact (Hall 0 (Nat.lt_0_succ m)).
    + apply IH.
      * apply (hev_held_k _ s); [apply Lemmas_E2Eb.flush_step_u_k | exact Hk].
      * intros j Hj. specialize (Hall (S j) (proj1 (Nat.succ_lt_mono j m) Hj)).
        rewrite Lemmas_E2Eb.run_flush_u_S in Hall. exact Hall.
Qed.

(* the unit as service calls, for either newline convention *)
Lemma hev_emit_unit : forall s txt, hev_held s -> ufresh s ->
  In 0%N (ubuf s) -> text_of (ubuf s) = txt ->
  let nl := Lemmas_C11.nl_text (k_cr (k s)) in
  exists s3, hev_steps (1 + (3 + 2 * length nl + length txt)) s s3 (nl ++ txt ++ nl) /\ ukeep s s3 /\
    u_state (u s3) = u_wafter (u s).
Proof.
  intros s txt Hk (Hs & Hp & Hw & Hb) H0 HT nl.
  assert (Hks : k_state (k s) = CS_HOLD) by (destruct Hk as [A _]; exact A).
  assert (H1 : hev_steps 1 s (setu_state US_FLUSH s) []).
  { apply (hev_step_pure s (setu_state US_FLUSH) Hk). intros q h t. unfold unsolicited_events_service.
    cbn [Fsm.st mkw]. rewrite Hs. unfold busy, upd_st, unsolicited_process_io_write_wait.
    cbn [Fsm.st mkw]. rewrite Hks. reflexivity. }
  destruct (Lemmas_E2Eb.unit_run_u D (setu_state US_FLUSH s) txt Hp Hw Hb H0 HT) as (s3 & R & K & A & Hall).
  cbv zeta in *. change (k_cr (k (setu_state US_FLUSH s))) with (k_cr (k s)) in *. fold nl in R, Hall.
  exists s3. split; [|split; [exact K | exact A]].
  refine (hev_steps_trans _ _ _ _ _ _ _ H1 _).
  pose proof (hev_flush_steps (3 + 2 * length nl + length txt) (setu_state US_FLUSH s) Hk) as F.
  rewrite R in F. cbn [fst snd] in F.
  apply F. intros j Hj. rewrite (Hall j Hj). reflexivity.
Qed.

(* ================= D. the READ formatting loop as service calls ================= *)
Lemma hev_fra_one : forall s c v, hev_held s -> u_state (u s) = US_FORMAT_READ_ARGS ->
  cmd_of D UNSOL s = Some c -> nth_error (c_vars c) (u_var (u s)) = Some v -> v_hread v = false ->
  hev_steps 1 s (fra_state_u c v s) [].
Proof.
  intros s c v Hk Hs Hc Hn Hr.
  apply (hev_step_pure s (fra_state_u c v)).
  - apply (hev_held_k _ s); [|exact Hk]. apply Lemmas_E2Eb.uframe_k, Lemmas_E2Eb.uframe_fra.
  - intros q h t. unfold unsolicited_events_service. cbn [Fsm.st mkw]. rewrite Hs. unfold format_read_args.
    cbn [Fsm.st mkw]. unfold cmd_of in Hc |- *. destruct (g_cmd UNSOL s) as [ci|] eqn:Eg; [|discriminate].
    rewrite Hc. cbn [g_var]. rewrite Hn, Hr. reflexivity.
Qed.

Lemma hev_rloop : forall c m nl bsz, c_hread c = false ->
  forall vs v pre0 s t rest txts,
  c_vars c = pre0 ++ v :: vs -> Forall (Lemmas_C07e.rt_var_ok m) (v :: vs) ->
  RInvU c m s (length pre0) t rest nl bsz -> hev_held s ->
  all_some (map (slot_text m) (v :: vs)) = Some txts ->
  length (join_comma txts) < length rest ->
  exists s', hev_steps (length (v :: vs)) s s' [] /\
    RDoneU m s' (t ++ join_comma txts) bsz /\ uframe s' = uframe s.
Proof.
  intros c m nl bsz Hrd.
  induction vs as [|v2 vs IH]; intros v pre0 s t rest txts Hc Hok HR Hk Ha Hl;
    destruct (Lemmas_C07e.all_some_cons_st _ _ _ _ Ha) as (txt & txts' & -> & Hi & Ha');
    inversion Hok as [|? ? Hokv Hokvs]; subst;
    destruct (Lemmas_C07e.var_facts m v txt Hokv Hi) as (data & Hd & Ht & Hdl & Hhex & _);
    destruct Hokv as (_ & Hnr & _);
    pose proof (Lemmas_C19.nth_mid _ pre0 v) as Hn;
    pose proof HR as (HB & Hv & _ & Hst & _);
    pose proof HB as (_ & Hcmd & _).
  - specialize (Hn []). rewrite <- Hc, <- Hv in Hn.
    cbn [map all_some] in Ha'. injection Ha' as <-.
    rewrite Lemmas_C07e.join_comma_one in *.
    exists (fra_state_u c v s). split; [apply hev_fra_one; assumption|]. split.
    + apply (Lemmas_E2Eb.fra_last_ok_u D c m s (length pre0) t rest nl bsz v data txt); try assumption.
      rewrite Hc, app_length. cbn [length]. lia.
    + apply Lemmas_E2Eb.uframe_fra.
  - specialize (Hn (v2 :: vs)). rewrite <- Hc, <- Hv in Hn.
    destruct (Lemmas_C07e.all_some_cons_st _ _ _ _ Ha') as (txt2 & txts2 & -> & Hi2 & Ha2).
    rewrite Lemmas_C07e.join_comma_cons2 in *. rewrite app_length in Hl. cbn [length] in Hl.
    destruct (Lemmas_E2Eb.fra_more_u D c m s (length pre0) t rest nl bsz v data txt HR Hd Ht Hdl Hhex)
      as (r' & HR' & L); [lia| rewrite Hc, app_length; cbn [length]; lia |].
    pose proof (Lemmas_E2Eb.uframe_fra D c v s) as HF1.
    specialize (IH v2 (pre0 ++ [v]) (fra_state_u c v s)
                   (t ++ txt ++ [ch_COMMA]) r' (txt2 :: txts2)).
    replace (length (pre0 ++ [v])) with (S (length pre0)) in IH
      by (rewrite app_length; cbn [length]; lia).
    destruct IH as (s' & E & HD & HF2).
    + rewrite Hc, <- app_assoc. reflexivity.
    + exact Hokvs.
    + exact HR'.
    + apply (hev_held_k _ s); [exact (Lemmas_E2Eb.uframe_k _ _ HF1) | exact Hk].
    + exact Ha'.
    + lia.
    + exists s'. split; [|split].
      * change (length (v :: v2 :: vs)) with (1 + length (v2 :: vs)).
        eapply hev_steps_cast;
          [eapply hev_steps_trans; [apply hev_fra_one; eassumption | exact E] | reflexivity | reflexivity].
      * replace (t ++ txt ++ ch_COMMA :: join_comma (txt2 :: txts2))
          with ((t ++ txt ++ [ch_COMMA]) ++ join_comma (txt2 :: txts2))
          by (rewrite <- !app_assoc; reflexivity).
        exact HD.
      * rewrite HF2. exact HF1.
Qed.

(* ================= E. pop, the composed behaviour ================= *)
Lemma hev_pop_step : forall s1, u_state (u s1) = US_IDLE -> ring_empty s1 = false ->
  hev_held (check_unsolicited_buffers D s1) ->
  hev_steps 1 s1 (check_unsolicited_buffers D s1) [].
Proof.
  intros s1 Hs Hre Hk.
  apply (hev_step_ev s1 (check_unsolicited_buffers D s1)
           (match ring_items D s1 with it :: _ => [EPop (fst it) (snd it)] | [] => [] end) [] Hk).
  - intros q h t. unfold unsolicited_events_service. cbn [Fsm.st mkw]. rewrite Hs, Hre. cbn [negb].
    destruct (ring_items D s1); reflexivity.
  - destruct (ring_items D s1); reflexivity.
  - destruct (ring_items D s1); reflexivity.
Qed.

Lemma hev_event_steps : forall s ci c args,
  Lemmas_C13.ring_wf D s -> fault s = false -> hev_held s ->
  u_state (u s) = US_IDLE -> u_count (u s) = 0 ->
  cmd_at D ci = Some c -> Lemmas_C07e.rt_cmd_ok (mem s) c ->
  Lemmas_C07e.read_args_text (mem s) c = Some args ->
  length (c_name c ++ [ch_EQ] ++ args) < length (ubuf s) ->
  exists s1 calls s4, push_unsolicited_cmd D s ci T_READ = (s1, ST_OK) /\
    hev_steps calls s1 s4 (nl_chars s ++ c_name c ++ [ch_EQ] ++ args ++ nl_chars s) /\
    idle s4 /\ u_cmd (u s4) = None /\ k s4 = k s /\ mem s4 = mem s /\ fault s4 = false /\
    gL s4 = gL s /\ gS s4 = gS s /\ gR s4 = gR s /\ cbuf s4 = cbuf s.
Proof.
  intros s ci c args Hwf Hf Hk Hus Hu0 Hc Hrt Ha Hfit.
  pose proof Hrt as (Hne & Hok & _ & Hrd & _).
  destruct (Lemmas_E2Eb.trigger_pop D s ci Hwf Hu0)
    as (s1 & s2 & Ep & Us1 & Re1 & K1 & Ec & Uc2 & F2 & M2 & Fa2 & B2).
  exists s1.
  (* the formatting *)
  unfold cmd_at in Hc. unfold Lemmas_C07e.read_args_text in Ha.
  change (fun v : var => match nth_error (mem s) (v_slot v) with
                         | Some d => var_text v d | None => None end)
    with (slot_text (mem s)) in Ha.
  destruct (all_some (map (slot_text (mem s)) (c_vars c))) as [txts|] eqn:Hall; [|discriminate].
  injection Ha as <-.
  destruct (c_vars c) as [|v vs] eqn:Hvs; [congruence|].
  assert (Hrw : v_access v = RW).
  { inversion Hok as [|? ? (A & _) _]. exact A. }
  rewrite !app_length in Hfit. cbn [length] in Hfit.
  rewrite <- M2 in Hok, Hall. rewrite <- B2 in Hfit. rewrite <- Fa2 in Hf.
  destruct (Lemmas_E2Eb.read_start_ok_u D s2 ci c v vs Uc2 Hc Hf Hvs Hrw) as (r & HR & L); [lia|].
  pose proof (Lemmas_E2Eb.uframe_spfra D s2) as F3.
  set (s3 := start_processing_format_read_args D UNSOL s2) in *.
  assert (K3 : k s3 = k s)
    by (rewrite (Lemmas_E2Eb.uframe_k _ _ F3), (Lemmas_E2Eb.uframe_k _ _ F2); reflexivity).
  assert (Hk3 : hev_held s3) by (apply (hev_held_k _ s); assumption).
  assert (H1 : hev_steps 1 s1 s3 []).
  { rewrite <- Ec. apply hev_pop_step; [congruence | exact Re1 |]. rewrite Ec. exact Hk3. }
  destruct (hev_rloop c (mem s2) (nl_chars s2) (length (ubuf s2)) Hrd vs v [] s3
              (c_name c ++ [ch_EQ]) (0%N :: r) txts Hvs Hok HR Hk3 Hall)
    as (s5 & H2 & (D1 & (r5 & D2) & D3 & D4 & D5 & D6) & F5).
  { cbn [length]. lia. }
  assert (K5 : k s5 = k s) by (rewrite (Lemmas_E2Eb.uframe_k _ _ F5); exact K3).
  assert (Hk5 : hev_held s5) by (apply (hev_held_k _ s); assumption).
  (* the unit *)
  set (txt := (c_name c ++ [ch_EQ]) ++ join_comma txts) in *.
  assert (Hnn : ~ In 0%N txt).
  { unfold txt. rewrite <- app_assoc. apply (Lemmas_E2E.txt_no_nul (mem s2) c (join_comma txts)).
    - rewrite M2. exact Hrt.
    - unfold Lemmas_C07e.read_args_text.
      change (fun v : var => match nth_error (mem s2) (v_slot v) with
                             | Some d => var_text v d | None => None end)
        with (slot_text (mem s2)).
      rewrite Hvs, Hall. reflexivity. }
  assert (HT5 : text_of (ubuf s5) = txt) by (rewrite D2; apply Lemmas_C19.text_of_app0; exact Hnn).
  assert (H05 : In 0%N (ubuf s5)) by (rewrite D2; apply in_or_app; right; left; reflexivity).
  destruct (hev_emit_unit s5 txt Hk5 D4 H05 HT5)
    as (s6 & H3 & (K6 & M6 & Fa6 & GL6 & GS6 & GR6 & CB6 & UB6 & UC6 & _) & A6).
  rewrite D5 in A6. rewrite K5 in H3.
  change (Lemmas_C11.nl_text (k_cr (k s))) with (nl_chars s) in H3.
  (* the reset *)
  assert (H4 : hev_steps 1 s6 (unsolicited_reset_state s6) []).
  { apply (hev_step_pure s6 unsolicited_reset_state).
    - apply (hev_held_k _ s); [|exact Hk]. change (k (unsolicited_reset_state s6)) with (k s6).
      rewrite K6. exact K5.
    - intros q h t. unfold unsolicited_events_service. cbn [Fsm.st mkw]. rewrite A6. reflexivity. }
  exists (1 + (length (v :: vs) + ((1 + (3 + 2 * length (nl_chars s) + length txt)) + 1))),
         (unsolicited_reset_state s6).
  split; [exact Ep|]. split.
  - eapply hev_steps_cast;
      [exact (hev_steps_trans _ _ _ _ _ _ _ H1
               (hev_steps_trans _ _ _ _ _ _ _ H2 (hev_steps_trans _ _ _ _ _ _ _ H3 H4)))
      | reflexivity |].
    unfold txt. cbn [app]. rewrite <- !app_assoc, app_nil_r. reflexivity.
  - unfold Lemmas_E2Eb.uframe in F5, F3, F2.
    assert (G : gL s5 = gL s /\ gS s5 = gS s /\ gR s5 = gR s /\ cbuf s5 = cbuf s /\ u_count (u s5) = u_count (u s)).
    { repeat split; congruence. }
    destruct G as (G1 & G2 & G3 & G4 & G5).
    unfold Lemmas_C02e.idle, unsolicited_reset_state. Lemmas_C11.scbn.
    repeat split; try reflexivity; congruence.
Qed.

(* with both event-side fields idle the held parser still answers BUSY *)
Lemma hev_still_busy : forall s q h t, idle s -> hev_held s ->
  snd (sdo (mkw s q h t) OService) = ST_BUSY.
Proof.
  intros s q h t Hi (Hk & _ & Hx). unfold do_op, api_service, bracket. rewrite Hmx. unfold service_body.
  rewrite (Lemmas_C02e.ues_idle D (mkw s q h t) Hi). unfold cmd_service. cbn [Fsm.st mkw]. rewrite Hk.
  unfold busy. destruct (_ || _); reflexivity.
Qed.

End HEv.

(* ================= the final statement ================= *)
Theorem E2E_event_line_held_proof : forall D s q h ci c args,
  d_mutex D = false -> Lemmas_C13.ring_wf D s -> fault s = false ->
  k_state (k s) = CS_HOLD -> k_hold (k s) = true -> k_hold_exit (k s) = 0%Z ->
  u_state (u s) = US_IDLE -> u_count (u s) = 0 ->
  cmd_at D ci = Some c -> Lemmas_C07e.rt_cmd_ok (mem s) c ->
  Lemmas_C07e.read_args_text (mem s) c = Some args ->
  length (c_name c ++ [ch_EQ] ++ args) < length (ubuf s) ->
  let nl := nl_chars s in
  let w0 := mkw s q h [] in
  let (w1, r) := do_op D sio smu shs s_read s_write s_lock s_unlock s_call w0 (OTrigger ci T_READ) in
  r = ST_OK /\
  exists calls, let w := nsvc D calls w1 in
    u_state (u (wst w)) = US_IDLE /\ u_count (u (wst w)) = 0 /\ u_cmd (u (wst w)) = None /\
    k (wst w) = k s /\ cbuf (wst w) = cbuf s /\ inq (wio w) = q /\ (forall r, ~ In (ERd r) (wtr w)) /\
    whs w = h /\ calls_of (wtr w) = [] /\ mem (wst w) = mem s /\ fault (wst w) = false /\
    output_of (wtr w) = nl ++ c_name c ++ [ch_EQ] ++ args ++ nl /\
    gL (wst w) = gL s /\ gS (wst w) = gS s /\ gR (wst w) = gR s /\
    (forall r, In (ERet OService r) (wtr w) -> r = ST_BUSY) /\
    snd (do_op D sio smu shs s_read s_write s_lock s_unlock s_call w OService) = ST_BUSY.
Proof.
  intros D s q h ci c args Hmx Hwf Hf Hk Hh Hx Hus Hu0 Hc Hrt Ha Hfit nl w0.
  assert (Hheld : hev_held s) by (repeat split; assumption).
  destruct (hev_event_steps D Hmx s ci c args Hwf Hf Hheld Hus Hu0 Hc Hrt Ha Hfit)
    as (s1 & calls & s4 & Ep & U & I4 & C4 & K4 & M4 & F4 & GL & GS & GR & CB).
  assert (E : do_op D sio smu shs s_read s_write s_lock s_unlock s_call w0 (OTrigger ci T_READ)
              = (mkw s1 q h [], ST_OK)).
  { unfold do_op, api_trigger, bracket. rewrite Hmx. unfold w0. cbn [Fsm.st mkw]. rewrite Ep. reflexivity. }
  rewrite E. split; [reflexivity|]. exists calls. intros w.
  destruct (hev_steps_world D calls s1 s4 _ q h U) as (t' & E1 & E2 & E3 & E4 & E5).
  unfold w. rewrite E1. cbn [Fsm.st Fsm.hs Fsm.tr Fsm.io mkw inq].
  assert (Hk4 : hev_held s4) by (apply (hev_held_k _ s); assumption).
  destruct I4 as [I41 I42].
  repeat (split; [first [assumption | reflexivity]|]).
  apply (hev_still_busy D Hmx); [split; assumption | exact Hk4].
Qed.

Print Assumptions E2E_event_line_held_proof.

(* ================= a concrete instance: the theorem is not vacuous ================= *)
Module hev_examples.
Import Lemmas_E2E.E2E_examples Lemmas_E2Eb.E2Eb_examples.
(* the instance of Lemmas_E2Eb.E2Eb_examples (command +X : int16 -2, string A,dquote, hex 0AFF, uint8 200;
   40-byte event buffer) with the command machine put into a hold; sHc: a CR had been seen on the held line *)
Definition sH := enable_hold_state sA.
Definition sHc := setk_cr true (enable_hold_state sA).
(* pending input that must stay untouched: A T LF *)
Definition qAT : list N := [65; 84; 10]%N.

Definition no_read (t : list event) : bool :=
  forallb (fun e => match e with ERd _ => false | _ => true end) t.
Definition all_busy (t : list event) : bool :=
  forallb (fun e => match e with ERet OService r => (r =? ST_BUSY)%Z | _ => true end) t.
Definition obs (w : sworld) :=
  (u_state (u (wst w)), u_count (u (wst w)), u_cmd (u (wst w)),
   (k_state (k (wst w)), k_hold (k (wst w)), k_hold_exit (k (wst w)), k_cr (k (wst w))),
   (inq (wio w), no_read (wtr w), all_busy (wtr w)), whs w, calls_of (wtr w),
   output_of (wtr w), mem (wst w), fault (wst w), (gL (wst w), gS (wst w), gR (wst w)),
   snd (do_op D1 sio smu shs s_read s_write s_lock s_unlock s_call w OService)).
Definition go (s : state) (calls : nat) :=
  let (w1, r) := do_op D1 sio smu shs s_read s_write s_lock s_unlock s_call (mkw s qAT [] []) (OTrigger 0 T_READ) in
  (r, obs (nsvc D1 calls w1)).

(* trigger accepted; after 33 calls the event machine is idle again, the output is LF +X=-2,... LF, the command
   machine is still held, the pending input A T LF is untouched, no read was attempted, every call said BUSY *)
Example hev_ex_lf :
  go sH 33 =
  (ST_OK,
   (US_IDLE, 0, None, (CS_HOLD, true, 0%Z, false), (qAT, true, true), [], [],
    [ch_LF] ++ [43; 88; 61]%N ++ args0 ++ [ch_LF], m0, false, (0, 0, 0), ST_BUSY)).
Proof. vm_compute. reflexivity. Qed.

(* the same with k_cr = true: 35 calls, CR LF +X=-2,... CR LF *)
Example hev_ex_crlf :
  go sHc 35 =
  (ST_OK,
   (US_IDLE, 0, None, (CS_HOLD, true, 0%Z, true), (qAT, true, true), [], [],
    [ch_CR; ch_LF] ++ [43; 88; 61]%N ++ args0 ++ [ch_CR; ch_LF], m0, false, (0, 0, 0), ST_BUSY)).
Proof. vm_compute. reflexivity. Qed.

(* one call earlier the unit is not complete / the event machine not yet idle *)
Example hev_ex_lf_32 : fst (fst (fst (fst (fst (fst (fst (fst (fst (fst (fst (snd (go sH 32)))))))))))) = US_AFTER_OK.
Proof. vm_compute. reflexivity. Qed.

(* all hypotheses of E2E_event_line_held_proof hold for both states *)
Lemma hev_ex_hyps : forall s, s = sH \/ s = sHc ->
  d_mutex D1 = false /\ Lemmas_C13.ring_wf D1 s /\ fault s = false /\
  k_state (k s) = CS_HOLD /\ k_hold (k s) = true /\ k_hold_exit (k s) = 0%Z /\
  u_state (u s) = US_IDLE /\ u_count (u s) = 0 /\
  cmd_at D1 0 = Some c0 /\ Lemmas_C07e.rt_cmd_ok (mem s) c0 /\
  Lemmas_C07e.read_args_text (mem s) c0 = Some args0 /\
  length (c_name c0 ++ [ch_EQ] ++ args0) < length (ubuf s).
Proof.
  intros s [-> | ->]; (repeat (split; [reflexivity|]));
    (split; [unfold Lemmas_C13.ring_wf; vm_compute; repeat split; lia|]);
    (repeat (split; [reflexivity|]));
    (split; [exact ex_rt|]); (split; [reflexivity|]); vm_compute; lia.
Qed.

(* the theorem instantiated *)
Example hev_ex_inst : forall s, s = sH \/ s = sHc ->
  let (w1, r) := do_op D1 sio smu shs s_read s_write s_lock s_unlock s_call (mkw s qAT [] []) (OTrigger 0 T_READ) in
  r = ST_OK /\
  exists calls, let w := nsvc D1 calls w1 in
    u_state (u (wst w)) = US_IDLE /\ k (wst w) = k s /\ inq (wio w) = qAT /\
    output_of (wtr w) = nl_chars s ++ c_name c0 ++ [ch_EQ] ++ args0 ++ nl_chars s.
Proof.
  intros s Hs.
  destruct (hev_ex_hyps s Hs) as (H1 & H2 & H3 & H4 & H5 & H6 & H7 & H8 & H9 & H10 & H11 & H12).
  pose proof (E2E_event_line_held_proof D1 s qAT [] 0 c0 args0 H1 H2 H3 H4 H5 H6 H7 H8 H9 H10 H11 H12) as T.
  cbv zeta in T.
  destruct (do_op D1 sio smu shs s_read s_write s_lock s_unlock s_call (mkw s qAT [] []) (OTrigger 0 T_READ))
    as [w1 r].
  destruct T as [T1 (calls & T2)]. split; [exact T1|]. exists calls. cbv zeta in *.
  destruct T2 as (A & _ & _ & B & _ & C & _ & _ & _ & _ & _ & O & _). auto.
Qed.
End hev_examples.

(* ====================================================================================== *)
(* PART IV — the release, end to end (scripted world, no mutex): after cat_hold_exit(status) on a held
   parser, repeated cat_service calls produce exactly one result code matching the status, consume no
   input, call no handler and bring the command machine back to CS_IDLE.  General in k_cr.  *)
(* ====================================================================================== *)
Section rel_Release.
Variable D : desc.
Hypothesis Hmx : d_mutex D = false.
Local Notation cmdsvc := (cmd_service D sio smu shs s_read s_write s_lock s_unlock s_call).
Local Notation osteps := (Lemmas_E2E.osteps D).
Local Notation keep := Lemmas_E2E.keep.
Local Notation fresh := Lemmas_E2E.fresh.
Local Notation nlt := Lemmas_C11.nl_text.

Lemma rel_nl_text_chars : forall s, nlt (k_cr (k s)) = nl_chars s.
Proof. intros s. unfold Lemmas_C11.nl_text, nl_chars. destruct (k_cr (k s)); reflexivity. Qed.

(* the unit as service calls, for either newline convention (Lemmas_E2E.unit_osteps is the case k_cr = false) *)
Lemma rel_unit_osteps : forall s q txt, idle s -> k_state (k s) = CS_FLUSH ->
  k_position (k s) = 0 -> k_wstate (k s) = WS_BEFORE -> k_wbuf (k s) = WB_NL (k_cr (k s)) ->
  In 0%N (cbuf s) -> text_of (cbuf s) = txt ->
  let nl := nlt (k_cr (k s)) in
  exists s3, osteps (3 + 2 * length nl + length txt) s q s3 q (nl ++ txt ++ nl) /\ keep s s3 /\
    k_state (k s3) = k_wafter (k s) /\
    gR s3 = (if cstate_beq (k_wafter (k s)) CS_AFTER_RESET then S (gR s) else gR s).
Proof.
  intros s q txt Hi Hs Hp Hw Hb H0 HT nl.
  destruct (Lemmas_E2E.unit_run D s txt Hp Hw Hb H0 HT) as (s3 & R & K & A & G & Hall).
  cbv zeta in *. fold nl in R, Hall.
  exists s3. split; [|auto].
  pose proof (Lemmas_E2E.flush_osteps D Hmx (3 + 2 * length nl + length txt) s q Hi) as F.
  rewrite R in F. cbn [fst snd] in F.
  apply F. intros j Hj. rewrite (Hall j Hj). exact Hs.
Qed.

Lemma rel_emit_unit : forall s q txt, idle s -> fresh s ->
  In 0%N (cbuf s) -> text_of (cbuf s) = txt ->
  let nl := nlt (k_cr (k s)) in
  exists s3, osteps (1 + (3 + 2 * length nl + length txt)) s q s3 q (nl ++ txt ++ nl) /\ keep s s3 /\
    k_state (k s3) = k_wafter (k s) /\
    gR s3 = (if cstate_beq (k_wafter (k s)) CS_AFTER_RESET then S (gR s) else gR s).
Proof.
  intros s q txt Hi (Hs & Hp & Hw & Hb) H0 HT nl.
  assert (H1 : osteps 1 s q (setk_state CS_FLUSH s) q []).
  { apply (Lemmas_E2E.ostep_pure D Hmx s q (setk_state CS_FLUSH) Hi). intros h t. unfold cmd_service.
    cbn [Fsm.st mkw]. rewrite Hs. unfold busy, upd_st, process_io_write_wait. cbn [Fsm.st mkw].
    destruct Hi as [U _]. rewrite U. reflexivity. }
  destruct (rel_unit_osteps (setk_state CS_FLUSH s) q txt Hi eq_refl Hp Hw Hb H0 HT) as (s3 & O & K & A & G).
  exists s3. split; [|split; [|split; assumption]].
  - exact (Lemmas_E2E.osteps_trans D _ _ _ _ _ _ _ _ _ _ H1 O).
  - exact K.
Qed.

(* a result code after the hold flag has been dropped: the unit, then reset_state leads to CS_IDLE and clears k_cr *)
Lemma rel_result_tail : forall s q txt, idle s -> fresh s -> k_wafter (k s) = CS_AFTER_RESET ->
  k_hold (k s) = false -> In 0%N (cbuf s) -> text_of (cbuf s) = txt ->
  let nl := nlt (k_cr (k s)) in
  exists s4, osteps (5 + 2 * length nl + length txt) s q s4 q (nl ++ txt ++ nl) /\
    k_state (k s4) = CS_IDLE /\ mem s4 = mem s /\ fault s4 = fault s /\ u s4 = u s /\
    gL s4 = gL s /\ gS s4 = gS s /\ gR s4 = S (gR s) /\
    k_cr (k s4) = false /\ k_hold (k s4) = false /\ k_cmd (k s4) = None /\ cbuf s4 = cbuf s.
Proof.
  intros s q txt Hi Hfr Haf Hh H0 HT nl.
  destruct (rel_emit_unit s q txt Hi Hfr H0 HT) as (s3 & O & K & A & G). fold nl in O.
  rewrite Haf in A, G. cbn [cstate_beq] in G.
  pose proof K as (K1 & K2 & K3 & K4 & K5 & K6 & K7 & K8).
  assert (H2 : osteps 1 s3 q (reset_state s3) q []).
  { apply (Lemmas_E2E.ostep_pure D Hmx s3 q reset_state (Lemmas_E2E.idle_keep s s3 K Hi)). intros h t.
    unfold cmd_service. cbn [Fsm.st mkw]. rewrite A. reflexivity. }
  exists (reset_state s3). split.
  - eapply (Lemmas_E2E.osteps_cast D); [exact (Lemmas_E2E.osteps_trans D _ _ _ _ _ _ _ _ _ _ O H2) | lia |].
    rewrite app_nil_r. reflexivity.
  - unfold reset_state. rewrite K7, Hh. Lemmas_C11.scbn. repeat split; congruence.
Qed.

(* the step in CS_HOLD once a release has been requested *)
Lemma rel_hold_step : forall s q, idle s -> k_state (k s) = CS_HOLD ->
  osteps 1 s q (process_hold_state s) q [].
Proof.
  intros s q Hi Hs. apply (Lemmas_E2E.ostep_pure D Hmx s q process_hold_state Hi). intros h t.
  unfold cmd_service. cbn [Fsm.st mkw]. rewrite Hs. reflexivity.
Qed.

Lemma rel_release_osteps : forall s q z,
  k_state (k s) = CS_HOLD -> k_hold_exit (k s) = z -> z <> 0%Z ->
  idle s -> 6 <= length (cbuf s) ->
  let nl := nl_chars s in
  let txt := if (z <? 0)%Z then txt_ERROR else txt_OK in
  exists s4, osteps (1 + (5 + 2 * length nl + length txt)) s q s4 q (nl ++ txt ++ nl) /\
    k_state (k s4) = CS_IDLE /\ mem s4 = mem s /\ fault s4 = fault s /\ u s4 = u s /\
    gL s4 = gL s /\ gS s4 = S (gS s) /\ gR s4 = S (gR s) /\
    k_cr (k s4) = false /\ k_hold (k s4) = false /\ k_cmd (k s4) = None.
Proof.
  intros s q z Hs Hz Hnz Hi H6 nl txt.
  pose proof (rel_hold_step s q Hi Hs) as H1.
  set (s0 := setk_hold false s).
  assert (H6' : 6 <= length (cbuf s0)) by exact H6.
  assert (Hi0 : idle s0) by exact Hi.
  assert (Enl : forall a, k_cr (k a) = k_cr (k s) -> nlt (k_cr (k a)) = nl).
  { intros a E. rewrite E. apply rel_nl_text_chars. }
  assert (P : process_hold_state s = if (z <? 0)%Z then ack_error s0 else ack_ok s0).
  { unfold process_hold_state. rewrite Hz. destruct (Z.eqb_spec z 0) as [E|_]; [contradiction|]. reflexivity. }
  rewrite P in H1. unfold txt. destruct (z <? 0)%Z.
  - destruct (Lemmas_C19.ack_error_props s0 H6') as (_ & _ & _ & HT).
    assert (Hfr : fresh (ack_error s0)) by (repeat split; reflexivity).
    assert (H0 : In 0%N (cbuf (ack_error s0))).
    { change (In 0%N (strncpy_buf (asz s0) txt_ERROR)). apply (Lemmas_E2E.In0_strncpy D). unfold asz.
      cbn [length txt_ERROR]. lia. }
    destruct (rel_result_tail (ack_error s0) q txt_ERROR Hi0 Hfr eq_refl eq_refl H0 HT) as (s4 & O & R).
    rewrite (Enl (ack_error s0) eq_refl) in O.
    exists s4. split; [exact (Lemmas_E2E.osteps_trans D _ _ _ _ _ _ _ _ _ _ H1 O)|].
    destruct R as (R1 & R2 & R3 & R4 & R5 & R6 & R7 & R8 & R9 & R10 & _).
    repeat split; assumption.
  - destruct (Lemmas_C19.ack_ok_props s0 H6') as (_ & _ & _ & HT).
    assert (Hfr : fresh (ack_ok s0)) by (repeat split; reflexivity).
    assert (H0 : In 0%N (cbuf (ack_ok s0))).
    { change (In 0%N (strncpy_buf (asz s0) txt_OK)). apply (Lemmas_E2E.In0_strncpy D). unfold asz.
      cbn [length txt_OK]. lia. }
    destruct (rel_result_tail (ack_ok s0) q txt_OK Hi0 Hfr eq_refl eq_refl H0 HT) as (s4 & O & R).
    rewrite (Enl (ack_ok s0) eq_refl) in O.
    exists s4. split; [exact (Lemmas_E2E.osteps_trans D _ _ _ _ _ _ _ _ _ _ H1 O)|].
    destruct R as (R1 & R2 & R3 & R4 & R5 & R6 & R7 & R8 & R9 & R10 & _).
    repeat split; assumption.
Qed.

End rel_Release.

(* ================= (1) the release ================= *)
Theorem E2E_release_proof : forall D s q h z,
  d_mutex D = false ->
  k_state (k s) = CS_HOLD -> k_hold (k s) = true -> k_hold_exit (k s) = z -> z <> 0%Z ->
  Lemmas_C02e.idle s -> 6 <= length (cbuf s) ->
  let nl := nl_chars s in
  exists calls, let w := nsvc D calls (mkw s q h []) in
    k_state (k (wst w)) = CS_IDLE /\ k_hold (k (wst w)) = false /\ k_cr (k (wst w)) = false /\
    k_cmd (k (wst w)) = None /\
    inq (wio w) = q /\ whs w = h /\ calls_of (wtr w) = [] /\
    output_of (wtr w) = nl ++ (if (z <? 0)%Z then txt_ERROR else txt_OK) ++ nl /\
    gS (wst w) = S (gS s) /\ gR (wst w) = S (gR s) /\ gL (wst w) = gL s /\
    mem (wst w) = mem s /\ fault (wst w) = fault s /\ u (wst w) = u s.
Proof.
  intros D s q h z Hmx Hs _ Hz Hnz Hi H6 nl.
  destruct (rel_release_osteps D Hmx s q z Hs Hz Hnz Hi H6)
    as (s4 & O & R1 & R2 & R3 & R4 & R5 & R6 & R7 & R8 & R9 & R10).
  exists (1 + (5 + 2 * length nl + length (if (z <? 0)%Z then txt_ERROR else txt_OK))). intros w.
  destruct (Lemmas_E2E.osteps_world D _ s q s4 q _ h O) as (E1 & E2 & E3 & E4 & E5).
  fold nl in E1, E2, E3, E4, E5. fold w in E1, E2, E3, E4, E5. rewrite E1.
  repeat (split; [first [assumption | reflexivity]|]). assumption.
Qed.

Print Assumptions E2E_release_proof.

(* ================= (2) cat_hold_exit(status), then the release ================= *)
Theorem E2E_hold_exit_release_proof : forall D s q h status,
  d_mutex D = false ->
  k_state (k s) = CS_HOLD -> k_hold (k s) = true ->
  Lemmas_C02e.idle s -> 6 <= length (cbuf s) ->
  let nl := nl_chars s in
  let (w1, r) := do_op D sio smu shs s_read s_write s_lock s_unlock s_call (mkw s q h []) (OHoldExit status) in
  r = ST_OK /\
  exists calls, let w := nsvc D calls w1 in
    (k_state (k (wst w)) = CS_IDLE /\ k_hold (k (wst w)) = false /\ k_cr (k (wst w)) = false /\
     k_cmd (k (wst w)) = None /\
     inq (wio w) = q /\ whs w = h /\ calls_of (wtr w) = [] /\
     output_of (wtr w) = nl ++ (if (status =? ST_OK)%Z then txt_OK else txt_ERROR) ++ nl /\
     gS (wst w) = S (gS s) /\ gR (wst w) = S (gR s) /\ gL (wst w) = gL s /\
     mem (wst w) = mem s /\ fault (wst w) = fault s /\ u (wst w) = u s) /\
    do_op D sio smu shs s_read s_write s_lock s_unlock s_call w (OHoldExit status) = (w, ST_NOT_HOLD).
Proof.
  intros D s q h status Hmx Hs Hh Hi H6 nl.
  set (z := if (status =? ST_OK)%Z then 1%Z else (-1)%Z).
  set (s1 := setk_hold_exit z s).
  assert (E : do_op D sio smu shs s_read s_write s_lock s_unlock s_call (mkw s q h []) (OHoldExit status)
              = (mkw s1 q h [], ST_OK)).
  { unfold do_op. rewrite (Lemmas_C14.api_hold_exit_nomutex D sio smu shs s_lock s_unlock _ status Hmx).
    cbn [Fsm.st mkw]. rewrite (Lemmas_C14.hold_exit_held s status Hh). reflexivity. }
  rewrite E. split; [reflexivity|].
  assert (Hnz : z <> 0%Z) by (unfold z; destruct (status =? ST_OK)%Z; discriminate).
  destruct (E2E_release_proof D s1 q h z Hmx Hs Hh eq_refl Hnz Hi H6) as (calls & R).
  exists calls. intros w. cbv zeta in R. fold w in R.
  destruct R as (R1 & R2 & R3 & R4 & R5 & R6 & R7 & R8 & R).
  split.
  - repeat (split; [first [assumption | reflexivity]|]).
    split.
    + rewrite R8. change (nl_chars s1) with nl. unfold z. destruct (status =? ST_OK)%Z; reflexivity.
    + exact R.
  - unfold do_op. rewrite (Lemmas_C14.api_hold_exit_nomutex D sio smu shs s_lock s_unlock w status Hmx).
    rewrite (Lemmas_C14.hold_exit_not_held (wst w) status R2). cbn [fst snd].
    destruct w; reflexivity.
Qed.

Print Assumptions E2E_hold_exit_release_proof.

(* ================= (3) a concrete instance ================= *)
Module rel_examples.
Import Lemmas_E2E.E2E_examples.
(* the parser of Lemmas_E2E.E2E_examples held by a command; sH1 : the held line ended in CR LF *)
Definition sH := enable_hold_state s0.
Definition sH1 := setk_cr true sH.
Definition pend : list N := [ch_A; ch_T; ch_LF].

Definition rel_hyps (s : state) : bool :=
  negb (d_mutex D0) && cstate_beq (k_state (k s)) CS_HOLD && k_hold (k s) &&
  ustate_beq (u_state (u s)) US_IDLE && (u_count (u s) =? 0) && (6 <=? length (cbuf s)).

Example rel_hyps_sat : rel_hyps sH = true /\ rel_hyps sH1 = true.
Proof. vm_compute. split; reflexivity. Qed.

Definition rel_obs (w : sworld) :=
  (k_state (k (wst w)), k_hold (k (wst w)), inq (wio w), output_of (wtr w), gS (wst w), gR (wst w)).

Definition rel_go (s : state) (status : Z) (calls : nat) :=
  let (w1, r) := do_op D0 sio smu shs s_read s_write s_lock s_unlock s_call (mkw s pend [] []) (OHoldExit status) in
  (r, rel_obs (nsvc D0 calls w1)).

(* while held and before the request: nothing happens, whatever the number of calls *)
Example rel_ex_waits : rel_obs (nsvc D0 25 (mkw sH pend [] [])) = (CS_HOLD, true, pend, [], 0, 0).
Proof. vm_compute. reflexivity. Qed.

Example rel_ex_ok : rel_go sH ST_OK 10 = (ST_OK, (CS_IDLE, false, pend, [ch_LF; 79; 75; ch_LF]%N, 1, 1)).
Proof. vm_compute. reflexivity. Qed.

Example rel_ex_error :
  rel_go sH ST_ERROR 13 = (ST_OK, (CS_IDLE, false, pend, [ch_LF; 69; 82; 82; 79; 82; ch_LF]%N, 1, 1)).
Proof. vm_compute. reflexivity. Qed.

Example rel_ex_ok_cr :
  rel_go sH1 ST_OK 12 = (ST_OK, (CS_IDLE, false, pend, [ch_CR; ch_LF; 79; 75; ch_CR; ch_LF]%N, 1, 1)).
Proof. vm_compute. reflexivity. Qed.

(* one call less: still flushing, the last newline byte not yet written *)
Example rel_ex_ok_9 : rel_go sH ST_OK 9 = (ST_OK, (CS_AFTER_RESET, false, pend, [ch_LF; 79; 75; ch_LF]%N, 1, 1)).
Proof. vm_compute. reflexivity. Qed.

(* a second request after the release is refused *)
Example rel_ex_refused :
  let (w1, _) := do_op D0 sio smu shs s_read s_write s_lock s_unlock s_call (mkw sH pend [] []) (OHoldExit ST_OK) in
  snd (do_op D0 sio smu shs s_read s_write s_lock s_unlock s_call (nsvc D0 10 w1) (OHoldExit ST_OK)) = ST_NOT_HOLD.
Proof. vm_compute. reflexivity. Qed.
End rel_examples.

(* ====================================================================================== *)
(* A scripted scenario for the non-vacuity examples of Properties_C14w.v: the descriptor of
   Lemmas_E2E.E2E_examples (command +X answered from four read-write variables) plus a command +W with a
   write handler whose script answers HOLD; the input holds two lines, AT+W=1 and AT. *)
Module C14w_examples.
Import Lemmas_E2E.E2E_examples.
Definition cW := mkCmd [43; 87]%N None true false false false [] false false false.
Definition D2 := mkDesc [[c0; cW]] [] 40 (Some 40) 85%N 2 false.
Definition hW : shs := [((0, 1, 0), [mkHres RC_HOLD None [] []])].
Definition input : list N := [65; 84; 43; 87; 61; 49; 10; 65; 84; 10]%N.
Definition wI : sworld := sinit D2 m0 (mkSio input [] []) (mkSmu [] []) hW.
Definition srunD := Fsm.run D2 sio smu shs s_read s_write s_lock s_unlock s_call.
(* a release request outside a hold, then 15 service calls: the write handler of +W has answered HOLD *)
Definition wA := srunD wI [OHoldExit 0].
Definition wH := srunD wA (repeat OService 15).
(* the window: queries, three events (two of them queued together), 103 service calls *)
Definition win_ops : list op :=
  [OIsHold; OTrigger 0 T_READ] ++ repeat OService 33 ++
  [OIsBusy; OGetProcessed ATCMD; OTrigger 0 T_READ; OTrigger 0 T_READ; OIsFull] ++
  repeat OService 70 ++ [OIsHold].
Definition wW := srunD wH win_ops.
Definition win_evs : list event := firstn (length (wtr wW) - length (wtr wH)) (wtr wW).
(* the release, then service calls *)
Definition wR := srunD wW [OHoldExit 0].
Definition obs (w : sworld) :=
  (k_state (k (wst w)), k_hold (k (wst w)), inq (wio w), calls_of (wtr w), gS (wst w), gR (wst w)).
Definition unitX : list N := [ch_LF] ++ [43; 88; 61]%N ++ args0 ++ [ch_LF].
Definition count_ev (f : event -> bool) (t : list event) : nat := length (filter f t).
Definition is_rd (e : event) : bool := match e with ERd _ => true | _ => false end.
Definition is_wr_cmd (e : event) : bool := match e with EWr ATCMD _ _ => true | _ => false end.

(* the reviewer's release events miss a cat_hold_exit whose unlock fails: a mutex whose first unlock fails *)
Definition Dm := mkDesc [[c0; cW]] [] 40 (Some 40) 85%N 2 true.
Definition wM : sworld :=
  mkWorld sio smu shs (enable_hold_state (init_state Dm m0)) (mkSio [] [] []) (mkSmu [] [false]) [] [].
Definition wM' := Fsm.run Dm sio smu shs s_read s_write s_lock s_unlock s_call wM [OHoldExit 0].
End C14w_examples.
