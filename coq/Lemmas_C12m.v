(* Lemmas_C12m.v -- property C12 in MIXED runs (both machines active): what IS independent of the
   readiness schedules is the command machine's own step sequence.

   Properties_C12.v (part B) treats runs in which one machine is idle throughout, and documents
   (C12_ex_mixed_depends_on_schedule) that with both machines active the GLOBAL interleaving of the
   two producers depends on the schedule.  Here the two machines are decoupled:

     cview w   = the command machine's view of a world: its record k, its buffer, the variable
                 storage, the enable flags, the ghost counters (state fields u, ubuf, fault are
                 masked), the handler scripts, the unconsumed input, and the command-side
                 sub-trace (consumed bytes, accepted ATCMD output bytes, handler calls, inner calls);
     cnext v   = one step of the command machine in the canonical world of v (event machine idle
                 and empty, io always ready).

   1. (cmd_step_view)  every step of the command machine, in ANY world, is a stutter of the view or
      exactly cnext -- the only things the command machine takes from the rest of the world are
      the readiness bits and "is the event machine flushing" (the FLUSH_WAIT exclusion);
   2. (uns_step_view)  a step of the event machine working on commands WITHOUT handlers leaves the
      view alone;
   3. hence the view after n service calls is cnext^j of the initial view for some j <= n, whatever
      the schedules: all runs move along ONE chain; at quiescence the views are EQUAL.

   Method: the command machine's functions commute with the transplant  nx a b  that overwrites
   the event machine's record, its buffer and the fault flag (section Nx: one lemma per function
   of Fsm.v, as the frame block of Lemmas_C12.v), lifted to worlds (cmd_nx); then the stutter
   analysis of Lemmas_C12.cmd_step_cases, redone for the command-side sub-trace. *)
From Coq Require Import List NArith ZArith Bool Arith Lia.
From CatV Require Import Bytes Defs Codec Fsm Script TraceDefs ResolveDefs SchedDefs SkelInv Lemmas_C12.
From CatV Require Lemmas_C13 Lemmas_C13o Lemmas_C11 Lemmas_C15 Lemmas_C12c Lemmas_C01s.
Import ListNotations.
Local Open Scope nat_scope.

(* ------------------------------------------------------------------ *)
(* 0. the transplant                                                    *)
(* ------------------------------------------------------------------ *)

(* s with the event machine's record and buffer replaced, fault raised (fault is write-only and
   only ever raised, so every function of the model commutes with raising it) *)
Definition nx (a : ufsm) (b : list N) (s : state) : state :=
  mkState (k s) a (cbuf s) b (mem s) (dis_cmd s) (dis_grp s) true (gL s) (gS s) (gR s).

Section Nx.
Variable D : desc.
Variable a : ufsm.
Variable b : list N.
Local Notation X := (nx a b).

Lemma nx_k : forall s, k (X s) = k s. Proof. reflexivity. Qed.
Lemma nx_cbuf : forall s, cbuf (X s) = cbuf s. Proof. reflexivity. Qed.
Lemma nx_mem : forall s, mem (X s) = mem s. Proof. reflexivity. Qed.
Lemma nx_dis_cmd : forall s, dis_cmd (X s) = dis_cmd s. Proof. reflexivity. Qed.
Lemma nx_dis_grp : forall s, dis_grp (X s) = dis_grp s. Proof. reflexivity. Qed.
Lemma nx_gL : forall s, gL (X s) = gL s. Proof. reflexivity. Qed.
Lemma nx_gS : forall s, gS (X s) = gS s. Proof. reflexivity. Qed.
Lemma nx_gR : forall s, gR (X s) = gR s. Proof. reflexivity. Qed.
Lemma nx_get_cur : forall s, get_cur ATCMD (X s) = get_cur ATCMD s. Proof. reflexivity. Qed.
Lemma nx_cmd_of : forall s, cmd_of D ATCMD (X s) = cmd_of D ATCMD s. Proof. reflexivity. Qed.
Lemma nx_nl_chars : forall s, nl_chars (X s) = nl_chars s. Proof. reflexivity. Qed.
Lemma nx_is_command_disable : forall s i, is_command_disable D (X s) i = is_command_disable D s i.
Proof. reflexivity. Qed.
Lemma nx_get_cmd_state : forall s i, get_cmd_state D (X s) i = get_cmd_state D s i.
Proof. reflexivity. Qed.
Hint Rewrite nx_k nx_cbuf nx_mem nx_dis_cmd nx_dis_grp nx_gL nx_gS nx_gR
  nx_get_cur nx_cmd_of nx_nl_chars nx_is_command_disable
  nx_get_cmd_state : nxdb.

(* setters *)
Lemma nx_setk_index : forall v s, setk_index v (X s) = X (setk_index v s). Proof. reflexivity. Qed.
Lemma nx_setk_partial : forall v s, setk_partial v (X s) = X (setk_partial v s). Proof. reflexivity. Qed.
Lemma nx_setk_length : forall v s, setk_length v (X s) = X (setk_length v s). Proof. reflexivity. Qed.
Lemma nx_setk_position : forall v s, setk_position v (X s) = X (setk_position v s). Proof. reflexivity. Qed.
Lemma nx_setk_write_size : forall v s, setk_write_size v (X s) = X (setk_write_size v s). Proof. reflexivity. Qed.
Lemma nx_setk_cmd : forall v s, setk_cmd v (X s) = X (setk_cmd v s). Proof. reflexivity. Qed.
Lemma nx_setk_var : forall v s, setk_var v (X s) = X (setk_var v s). Proof. reflexivity. Qed.
Lemma nx_setk_type : forall v s, setk_type v (X s) = X (setk_type v s). Proof. reflexivity. Qed.
Lemma nx_setk_char : forall v s, setk_char v (X s) = X (setk_char v s). Proof. reflexivity. Qed.
Lemma nx_setk_state : forall v s, setk_state v (X s) = X (setk_state v s). Proof. reflexivity. Qed.
Lemma nx_setk_cr : forall v s, setk_cr v (X s) = X (setk_cr v s). Proof. reflexivity. Qed.
Lemma nx_setk_hold : forall v s, setk_hold v (X s) = X (setk_hold v s). Proof. reflexivity. Qed.
Lemma nx_setk_hold_exit : forall v s, setk_hold_exit v (X s) = X (setk_hold_exit v s). Proof. reflexivity. Qed.
Lemma nx_setk_wbuf : forall v s, setk_wbuf v (X s) = X (setk_wbuf v s). Proof. reflexivity. Qed.
Lemma nx_setk_wstate : forall v s, setk_wstate v (X s) = X (setk_wstate v s). Proof. reflexivity. Qed.
Lemma nx_setk_wafter : forall v s, setk_wafter v (X s) = X (setk_wafter v s). Proof. reflexivity. Qed.
Lemma nx_setk_implicit : forall v s, setk_implicit v (X s) = X (setk_implicit v s). Proof. reflexivity. Qed.
Lemma nx_set_cbuf : forall v s, set_cbuf v (X s) = X (set_cbuf v s). Proof. reflexivity. Qed.
Lemma nx_set_mem : forall v s, set_mem v (X s) = X (set_mem v s). Proof. reflexivity. Qed.
Lemma nx_set_gL : forall v s, set_gL v (X s) = X (set_gL v s). Proof. reflexivity. Qed.
Lemma nx_set_gS : forall v s, set_gS v (X s) = X (set_gS v s). Proof. reflexivity. Qed.
Lemma nx_set_gR : forall v s, set_gR v (X s) = X (set_gR v s). Proof. reflexivity. Qed.
Lemma nx_set_fault_flag : forall s, set_fault_flag (X s) = X (set_fault_flag s). Proof. reflexivity. Qed.
Hint Rewrite nx_setk_index nx_setk_partial nx_setk_length nx_setk_position nx_setk_write_size
  nx_setk_cmd nx_setk_var nx_setk_type nx_setk_char nx_setk_state nx_setk_cr nx_setk_hold
  nx_setk_hold_exit nx_setk_wbuf nx_setk_wstate nx_setk_wafter nx_setk_implicit nx_set_cbuf nx_set_mem
  nx_set_gL nx_set_gS nx_set_gR nx_set_fault_flag
  : nxdb.

(* (f (X s)) = (X (fst (f s)), snd (f s)) for the pair-valued functions *)
Definition px {A : Type} (p : state * A) : state * A := (X (fst p), snd p).

Ltac dpair :=
  match goal with
  | |- context [match ?x with _ => _ end] =>
    lazymatch type of x with
    | (_ * _)%type =>
      lazymatch x with
      | context [match _ with _ => _ end] => fail
      | (_, _) => fail
      | _ => destruct x
      end
    end
  end.
Ltac dany :=
  match goal with
  | |- context [match ?x with _ => _ end] =>
    lazymatch x with
    | context [match _ with _ => _ end] => fail
    | _ => destruct x
    end
  end.
Ltac gnorm :=
  unfold asz, g_bsz; cbn [g_buf g_pos g_cmd g_var g_index setg_buf setg_pos setg_var setg_index
       end_with_error end_with_ok set_loop_state start_flush_after_ok start_flush_after].
Ltac nxgo :=
  gnorm;
  repeat first
    [ match goal with |- ?x = ?y => constr_eq x y; reflexivity end
    | progress gnorm
    | progress autorewrite with nxdb
    | progress (unfold px; cbn [fst snd])
    | progress cbv beta iota
    | dpair
    | dany ].

Lemma nx_start_flush_c : forall af s, start_flush_c af (X s) = X (start_flush_c af s).
Proof. intros. unfold start_flush_c. nxgo. Qed.
Hint Rewrite nx_start_flush_c : nxdb.
Lemma nx_start_flush_raw_c : forall af s, start_flush_raw_c af (X s) = X (start_flush_raw_c af s).
Proof. intros. unfold start_flush_raw_c. nxgo. Qed.
Hint Rewrite nx_start_flush_raw_c : nxdb.
Lemma nx_ack_error : forall s, ack_error (X s) = X (ack_error s).
Proof. intros. unfold ack_error. nxgo. Qed.
Hint Rewrite nx_ack_error : nxdb.
Lemma nx_ack_ok : forall s, ack_ok (X s) = X (ack_ok s).
Proof. intros. unfold ack_ok. nxgo. Qed.
Hint Rewrite nx_ack_ok : nxdb.
Lemma nx_reset_state : forall s, reset_state (X s) = X (reset_state s).
Proof. intros. unfold reset_state. nxgo. Qed.
Hint Rewrite nx_reset_state : nxdb.
Lemma nx_put_cur : forall c s, put_cur ATCMD c (X s) = X (put_cur ATCMD c s).
Proof. intros. unfold put_cur. nxgo. Qed.
Hint Rewrite nx_put_cur : nxdb.
Lemma nx_print_string : forall s t, print_string ATCMD (X s) t = px (print_string ATCMD s t).
Proof. intros. unfold print_string. nxgo. Qed.
Hint Rewrite nx_print_string : nxdb.
Lemma nx_print_strings : forall s t, print_strings ATCMD (X s) t = px (print_strings ATCMD s t).
Proof. intros. unfold print_strings. nxgo. Qed.
Hint Rewrite nx_print_strings : nxdb.
Lemma nx_print_response_test : forall s,
  print_response_test D ATCMD (X s) = px (print_response_test D ATCMD s).
Proof. intros. unfold print_response_test. nxgo. Qed.
Hint Rewrite nx_print_response_test : nxdb.
Lemma nx_spf_test : forall s,
  start_processing_format_test_args D ATCMD (X s) = X (start_processing_format_test_args D ATCMD s).
Proof. intros. unfold start_processing_format_test_args. nxgo. Qed.
Hint Rewrite nx_spf_test : nxdb.
Lemma nx_spf_read : forall s,
  start_processing_format_read_args D ATCMD (X s) = X (start_processing_format_read_args D ATCMD s).
Proof. intros. unfold start_processing_format_read_args. nxgo. Qed.
Hint Rewrite nx_spf_read : nxdb.
Lemma nx_next_format_var : forall s, next_format_var D ATCMD (X s) = px (next_format_var D ATCMD s).
Proof. intros. unfold next_format_var. nxgo. Qed.
Hint Rewrite nx_next_format_var : nxdb.
Lemma nx_set_cmd_state : forall s i v, set_cmd_state (X s) i v = X (set_cmd_state s i v).
Proof. intros. unfold set_cmd_state. nxgo. Qed.
Hint Rewrite nx_set_cmd_state : nxdb.
Lemma nx_prepare_search_command : forall s, prepare_search_command (X s) = X (prepare_search_command s).
Proof. intros. unfold prepare_search_command. nxgo. Qed.
Hint Rewrite nx_prepare_search_command : nxdb.
Lemma nx_prepare_parse_command : forall s, prepare_parse_command (X s) = X (prepare_parse_command s).
Proof. intros. unfold prepare_parse_command. nxgo. Qed.
Hint Rewrite nx_prepare_parse_command : nxdb.
Lemma nx_update_command : forall s, update_command D (X s) = X (update_command D s).
Proof. intros. unfold update_command. nxgo. Qed.
Hint Rewrite nx_update_command : nxdb.
Lemma nx_search_command : forall s, search_command D (X s) = X (search_command D s).
Proof. intros. unfold search_command. nxgo. Qed.
Hint Rewrite nx_search_command : nxdb.
Lemma nx_command_found : forall s, command_found D (X s) = X (command_found D s).
Proof. intros. unfold command_found. nxgo. Qed.
Hint Rewrite nx_command_found : nxdb.
Lemma nx_start_print_cmd_list : forall s, start_print_cmd_list D (X s) = X (start_print_cmd_list D s).
Proof. intros. unfold start_print_cmd_list. nxgo. Qed.
Hint Rewrite nx_start_print_cmd_list : nxdb.
Lemma nx_cmd_list_next_cmd : forall s, cmd_list_next_cmd D (X s) = px (cmd_list_next_cmd D s).
Proof. intros. unfold cmd_list_next_cmd. nxgo. Qed.
Hint Rewrite nx_cmd_list_next_cmd : nxdb.
Lemma nx_print_current : forall s c x,
  print_current_cmd_full_name (X s) c x = px (print_current_cmd_full_name s c x).
Proof. intros. unfold print_current_cmd_full_name. nxgo. Qed.
Hint Rewrite nx_print_current : nxdb.
Lemma nx_print_cmd_form : forall s c av x n, print_cmd_form (X s) c av x n = X (print_cmd_form s c av x n).
Proof. intros. unfold print_cmd_form. nxgo. Qed.
Hint Rewrite nx_print_cmd_form : nxdb.
Lemma nx_print_cmd_list : forall s, print_cmd_list D (X s) = X (print_cmd_list D s).
Proof. intros. unfold print_cmd_list. nxgo. Qed.
Hint Rewrite nx_print_cmd_list : nxdb.
Lemma nx_enable_hold_state : forall s, enable_hold_state (X s) = X (enable_hold_state s).
Proof. intros. unfold enable_hold_state. nxgo. Qed.
Hint Rewrite nx_enable_hold_state : nxdb.
Lemma nx_hold_exit : forall s z, hold_exit (X s) z = px (hold_exit s z).
Proof. intros. unfold hold_exit. nxgo. Qed.
Hint Rewrite nx_hold_exit : nxdb.
Lemma nx_process_hold_state : forall s, process_hold_state (X s) = X (process_hold_state s).
Proof. intros. unfold process_hold_state. nxgo. Qed.
Hint Rewrite nx_process_hold_state : nxdb.
Lemma nx_format_test_args : forall s, format_test_args D ATCMD (X s) = X (format_test_args D ATCMD s).
Proof. intros. unfold format_test_args. nxgo. Qed.
Hint Rewrite nx_format_test_args : nxdb.
Lemma nx_apply_edit : forall e s, apply_edit ATCMD e (X s) = X (apply_edit ATCMD e s).
Proof. intros. unfold apply_edit. nxgo. Qed.
Hint Rewrite nx_apply_edit : nxdb.
Lemma nx_apply_poke : forall s p, apply_poke (X s) p = X (apply_poke s p).
Proof. intros. unfold apply_poke. nxgo. Qed.
Hint Rewrite nx_apply_poke : nxdb.
Lemma nx_fold_poke : forall l s, fold_left apply_poke l (X s) = X (fold_left apply_poke l s).
Proof. induction l as [|p l IH]; intros s; cbn [fold_left]; [reflexivity|]. rewrite nx_apply_poke. apply IH. Qed.
Hint Rewrite nx_fold_poke : nxdb.
Lemma nx_rd_pre : forall s ch, rd_pre (X s) ch = X (rd_pre s ch).
Proof. intros. unfold rd_pre. nxgo. Qed.
Hint Rewrite nx_rd_pre : nxdb.

End Nx.

(* the hint database and tactics again, outside the section *)
Global Hint Rewrite nx_k nx_cbuf nx_mem nx_dis_cmd nx_dis_grp nx_gL nx_gS nx_gR
  nx_get_cur nx_cmd_of nx_nl_chars nx_is_command_disable nx_get_cmd_state
  nx_setk_index nx_setk_partial nx_setk_length nx_setk_position nx_setk_write_size
  nx_setk_cmd nx_setk_var nx_setk_type nx_setk_char nx_setk_state nx_setk_cr nx_setk_hold
  nx_setk_hold_exit nx_setk_wbuf nx_setk_wstate nx_setk_wafter nx_setk_implicit nx_set_cbuf nx_set_mem
  nx_set_gL nx_set_gS nx_set_gR nx_set_fault_flag
  nx_start_flush_c nx_start_flush_raw_c nx_ack_error nx_ack_ok nx_reset_state nx_put_cur
  nx_print_string nx_print_strings nx_print_response_test nx_spf_test nx_spf_read nx_next_format_var
  nx_set_cmd_state nx_prepare_search_command nx_prepare_parse_command nx_update_command
  nx_search_command nx_command_found nx_start_print_cmd_list nx_cmd_list_next_cmd nx_print_current
  nx_print_cmd_form nx_print_cmd_list nx_enable_hold_state nx_hold_exit nx_process_hold_state
  nx_format_test_args nx_apply_edit nx_apply_poke nx_fold_poke nx_rd_pre : nxw.

Ltac dpair :=
  match goal with
  | |- context [match ?x with _ => _ end] =>
    lazymatch type of x with
    | (_ * _)%type =>
      lazymatch x with
      | context [match _ with _ => _ end] => fail
      | (_, _) => fail
      | _ => destruct x
      end
    end
  end.
Ltac dany :=
  match goal with
  | |- context [match ?x with _ => _ end] =>
    lazymatch x with
    | context [match _ with _ => _ end] => fail
    | _ => destruct x
    end
  end.
Ltac gnorm :=
  unfold asz, g_bsz; cbn [g_buf g_pos g_cmd g_var g_index setg_buf setg_pos setg_var setg_index
       end_with_error end_with_ok set_loop_state start_flush_after_ok start_flush_after].
Ltac wnorm :=
  unfold sworld, Fsm.upd_st, Fsm.logw, Fsm.set_hs, Fsm.set_st, Fsm.set_io, Fsm.set_mu, Fsm.busy;
  cbn [Fsm.st Fsm.io Fsm.mu Fsm.hs Fsm.tr fst snd].
Ltac srefl := match goal with |- ?x = ?y => first [constr_eq x y | constr_eq_nounivs x y]; reflexivity end.

(* ------------------------------------------------------------------ *)
(* 1. the command machine's step commutes with the transplant (worlds)  *)
(* ------------------------------------------------------------------ *)

Section CmdNx.
Variable D : desc.
Hypothesis Hmx : d_mutex D = false.
Variable a : ufsm.
Variable b : list N.
Local Notation X := (nx a b).

Local Notation st := (Fsm.st sio smu shs).
Local Notation io := (Fsm.io sio smu shs).
Local Notation mu := (Fsm.mu sio smu shs).
Local Notation hs := (Fsm.hs sio smu shs).
Local Notation tr := (Fsm.tr sio smu shs).
Local Notation mkWorld := (Fsm.mkWorld sio smu shs).
Local Notation upd_st := (Fsm.upd_st sio smu shs).
Local Notation s_cmd := (Fsm.cmd_service D sio smu shs s_read s_write s_lock s_unlock s_call).
Local Notation s_callh := (Fsm.call_h D sio smu shs s_lock s_unlock s_call).
Local Notation s_icall := (Fsm.apply_icall D sio smu shs s_lock s_unlock).

Definition wn (w : sworld) : sworld := upd_st X w.
Definition pw {A : Type} (p : sworld * A) : sworld * A := (wn (fst p), snd p).

Definition no_trig (c : icall) : bool := match c with ITrigger _ _ => false | _ => true end.

Lemma icall_nx : forall w c, no_trig c = true -> s_icall (wn w) c = wn (s_icall w c).
Proof.
  intros [s x m h t] c H. destruct c as [ci ty|z]; [discriminate H|].
  unfold Fsm.apply_icall, Fsm.api_hold_exit, Fsm.bracket, wn. rewrite Hmx. wcbn.
  rewrite nx_hold_exit. unfold px. cbn [fst snd]. destruct (hold_exit s z) as [s' r]. reflexivity.
Qed.

Lemma fold_icall_nx : forall l w, forallb no_trig l = true ->
  fold_left s_icall l (wn w) = wn (fold_left s_icall l w).
Proof.
  induction l as [|c l IH]; intros w H; [reflexivity|].
  cbn [forallb] in H. apply andb_true_iff in H. destruct H as [H1 H2].
  cbn [fold_left]. rewrite icall_nx by exact H1. apply IH. exact H2.
Qed.

Lemma call_h_nx : forall s x m h t q, script_ok res_no_trigger h = true ->
  s_callh (mkWorld (X s) x m h t) q = pw (s_callh (mkWorld s x m h t) q).
Proof.
  intros s x m h t q H. unfold Fsm.call_h. wcbn.
  destruct (s_call_ok res_no_trigger) with (h := h) (q := q) as [_ B];
    [intros q0; destruct q0; reflexivity | exact H |].
  destruct (s_call h q) as [h' r]. cbn [snd] in B. unfold pw. cbn [fst snd]. f_equal. wnorm.
  rewrite nx_fold_poke.
  change (mkWorld (X (fold_left apply_poke (r_pokes r) s)) x m h' (ECall q (r_code r) :: t))
    with (wn (mkWorld (fold_left apply_poke (r_pokes r) s) x m h' (ECall q (r_code r) :: t))).
  apply fold_icall_nx. exact B.
Qed.

Ltac wgo :=
  repeat first
    [ srefl
    | progress wnorm
    | progress gnorm
    | progress autorewrite with nxw
    | progress (unfold px, pw, wn; cbn [fst snd])
    | progress cbv beta iota
    | rewrite call_h_nx by assumption
    | dpair
    | dany ].

Lemma parse_write_args_nx : forall w, script_ok res_no_trigger (hs w) = true ->
  Fsm.parse_write_args D sio smu shs s_lock s_unlock s_call (wn w) =
  pw (Fsm.parse_write_args D sio smu shs s_lock s_unlock s_call w).
Proof. intros [s x m h t] H. cbn [Fsm.hs] in H. unfold Fsm.parse_write_args. wgo. Qed.

Lemma format_read_args_nx : forall w, script_ok res_no_trigger (hs w) = true ->
  Fsm.format_read_args D sio smu shs s_lock s_unlock s_call ATCMD (wn w) =
  pw (Fsm.format_read_args D sio smu shs s_lock s_unlock s_call ATCMD w).
Proof. intros [s x m h t] H. cbn [Fsm.hs] in H. unfold Fsm.format_read_args. Time wgo. Qed.

Lemma process_write_loop_nx : forall w, script_ok res_no_trigger (hs w) = true ->
  Fsm.process_write_loop D sio smu shs s_lock s_unlock s_call (wn w) =
  pw (Fsm.process_write_loop D sio smu shs s_lock s_unlock s_call w).
Proof. intros [s x m h t] H. cbn [Fsm.hs] in H. unfold Fsm.process_write_loop. Time wgo. Qed.

Lemma process_run_loop_nx : forall w, script_ok res_no_trigger (hs w) = true ->
  Fsm.process_run_loop D sio smu shs s_lock s_unlock s_call (wn w) =
  pw (Fsm.process_run_loop D sio smu shs s_lock s_unlock s_call w).
Proof. intros [s x m h t] H. cbn [Fsm.hs] in H. unfold Fsm.process_run_loop. Time wgo. Qed.

Lemma process_rt_loop_nx : forall rd w, script_ok res_no_trigger (hs w) = true ->
  Fsm.process_rt_loop D sio smu shs s_lock s_unlock s_call rd ATCMD (wn w) =
  pw (Fsm.process_rt_loop D sio smu shs s_lock s_unlock s_call rd ATCMD w).
Proof. intros rd [s x m h t] H. cbn [Fsm.hs] in H. unfold Fsm.process_rt_loop. Time wgo. Qed.

Lemma process_io_write_nx : forall w,
  Fsm.process_io_write sio smu shs s_write (wn w) = pw (Fsm.process_io_write sio smu shs s_write w).
Proof. intros [s x m h t]. unfold Fsm.process_io_write. Time wgo. Qed.

Lemma reading_nx : forall body w, (forall ch s, body ch (X s) = X (body ch s)) ->
  Fsm.reading sio smu shs s_read (wn w) body = pw (Fsm.reading sio smu shs s_read w body).
Proof.
  intros body [s x m h t] HB. unfold Fsm.reading, Fsm.read_cmd_char, wn, pw. wnorm.
  destruct (s_read x) as [io' [ch|]]; wnorm; cbn [negb]; wnorm; [|reflexivity].
  change (cstate_beq (k_state (k (X s))) CS_PARSE_COMMAND_ARGS)
    with (cstate_beq (k_state (k s)) CS_PARSE_COMMAND_ARGS).
  change (cstate_beq (k_state (k (X s))) CS_IDLE) with (cstate_beq (k_state (k s)) CS_IDLE).
  set (ch' := if cstate_beq (k_state (k s)) CS_PARSE_COMMAND_ARGS then ch else to_upper ch).
  destruct ((ch' =? ch_LF)%N && negb (cstate_beq (k_state (k s)) CS_IDLE));
    autorewrite with nxw; rewrite HB; reflexivity.
Qed.

Lemma cmd_nx : forall w, k_state (k (st w)) <> CS_FLUSH_WAIT ->
  script_ok res_no_trigger (hs w) = true -> s_cmd (wn w) = pw (s_cmd w).
Proof.
  intros w NW H. unfold Fsm.cmd_service.
  change (k_state (k (st (wn w)))) with (k_state (k (st w))).
  destruct (k_state (k (st w))) eqn:K; try congruence;
    first [ apply parse_write_args_nx; exact H
          | apply format_read_args_nx; exact H
          | apply process_write_loop_nx; exact H
          | apply process_run_loop_nx; exact H
          | apply process_rt_loop_nx; exact H
          | apply process_io_write_nx
          | apply reading_nx; intros ch s; wgo
          | destruct w as [s x m h t]; wgo ].
Qed.

End CmdNx.

(* ------------------------------------------------------------------ *)
(* 2. the event machine working on commands without handlers           *)
(* ------------------------------------------------------------------ *)

(* a command the event machine can serve without calling the application *)
Definition quiet_cmd (c : cmd) : bool :=
  negb (c_hread c) && negb (c_htest c) && forallb (fun v => negb (v_hread v)) (c_vars c).

Lemma quiet_hread : forall c, quiet_cmd c = true -> c_hread c = false.
Proof. intros c H. unfold quiet_cmd in H. destruct (c_hread c); [discriminate H|reflexivity]. Qed.
Lemma quiet_htest : forall c, quiet_cmd c = true -> c_htest c = false.
Proof.
  intros c H. unfold quiet_cmd in H. destruct (c_htest c); [|reflexivity].
  rewrite andb_false_r in H. discriminate H.
Qed.
Lemma quiet_var : forall c i v, quiet_cmd c = true -> nth_error (c_vars c) i = Some v -> v_hread v = false.
Proof.
  intros c i v H E. unfold quiet_cmd in H. apply andb_true_iff in H. destruct H as [_ H].
  rewrite forallb_forall in H. specialize (H v (nth_error_In _ _ E)).
  destruct (v_hread v); [discriminate H|reflexivity].
Qed.

Section EvSide.
Variable D : desc.

Definition quiet_ci (ci : nat) : bool :=
  match cmd_at D ci with Some c => quiet_cmd c | None => true end.

Definition nlb (x : ustate) : bool :=
  match x with US_READ_LOOP | US_TEST_LOOP => false | _ => true end.

(* the invariant of the event machine, as a function of Lemmas_C13o.ep: it is not in a handler
   loop and will not return to one; the event in progress and all queued events are quiet *)
Definition IE (e : Lemmas_C13o.ept) : bool :=
  let '(x, c, ty, wa, (ring, hd, tl, cnt)) := e in
  nlb x && nlb wa && match c with Some ci => quiet_ci ci | None => true end &&
  forallb (fun it => quiet_ci (fst it)) (ring_items_go D ring hd cnt).
Definition invE (s : state) : bool := IE (Lemmas_C13o.ep s).

End EvSide.


Import Lemmas_C13o.

(* ---- F1: the event machine's functions change nothing the transplant keeps ---- *)
Section EvFrame.
Variable a : ufsm.
Variable b : list N.
Local Notation X := (nx a b).

Lemma xa_setu_state : forall v s, X (setu_state v s) = X s. Proof. reflexivity. Qed.
Lemma xa_setu_index : forall v s, X (setu_index v s) = X s. Proof. reflexivity. Qed.
Lemma xa_setu_position : forall v s, X (setu_position v s) = X s. Proof. reflexivity. Qed.
Lemma xa_setu_cmd : forall v s, X (setu_cmd v s) = X s. Proof. reflexivity. Qed.
Lemma xa_setu_var : forall v s, X (setu_var v s) = X s. Proof. reflexivity. Qed.
Lemma xa_setu_type : forall v s, X (setu_type v s) = X s. Proof. reflexivity. Qed.
Lemma xa_setu_wbuf : forall v s, X (setu_wbuf v s) = X s. Proof. reflexivity. Qed.
Lemma xa_setu_wstate : forall v s, X (setu_wstate v s) = X s. Proof. reflexivity. Qed.
Lemma xa_setu_wafter : forall v s, X (setu_wafter v s) = X s. Proof. reflexivity. Qed.
Lemma xa_setu_ring : forall v s, X (setu_ring v s) = X s. Proof. reflexivity. Qed.
Lemma xa_setu_tail : forall v s, X (setu_tail v s) = X s. Proof. reflexivity. Qed.
Lemma xa_setu_head : forall v s, X (setu_head v s) = X s. Proof. reflexivity. Qed.
Lemma xa_setu_count : forall v s, X (setu_count v s) = X s. Proof. reflexivity. Qed.
Lemma xa_set_ubuf : forall v s, X (set_ubuf v s) = X s. Proof. reflexivity. Qed.
Lemma xa_set_fault_flag : forall s, X (set_fault_flag s) = X s. Proof. reflexivity. Qed.
Hint Rewrite xa_setu_state xa_setu_index xa_setu_position xa_setu_cmd xa_setu_var xa_setu_type
  xa_setu_wbuf xa_setu_wstate xa_setu_wafter xa_setu_ring xa_setu_tail xa_setu_head xa_setu_count
  xa_set_ubuf xa_set_fault_flag : xf.

Ltac unorm :=
  cbn [g_buf g_pos g_cmd g_var g_index setg_buf setg_pos setg_var setg_index
       end_with_error end_with_ok set_loop_state start_flush_after_ok start_flush_after].
(* case-split every stuck match; the result of a pair-valued helper is kept as fst (helper ..) *)
Ltac xstep :=
  match goal with
  | |- context[match ?x with _ => _ end] =>
    lazymatch x with
    | context [match _ with _ => _ end] => fail
    | _ => idtac
    end;
    lazymatch type of x with
    | prod state _ =>
      let E := fresh "E" in let s0 := fresh "s" in let b0 := fresh "b" in
      destruct x as [s0 b0] eqn:E; apply (f_equal fst) in E; cbn [fst] in E; subst s0
    | _ => destruct x
    end
  end.
Ltac xsolve :=
  unorm; cbv beta iota zeta;
  repeat (xstep; cbn [fst snd]; unorm); autorewrite with xf; reflexivity.

Lemma xa_unsolicited_reset_state : forall s, X (unsolicited_reset_state s) = X s.
Proof. intros. unfold unsolicited_reset_state. xsolve. Qed.
Lemma xa_start_flush_u : forall af s, X (start_flush_u af s) = X s.
Proof. intros. unfold start_flush_u. xsolve. Qed.
Lemma xa_put_cur : forall c s, X (put_cur UNSOL c s) = X s.
Proof. intros. unfold put_cur. xsolve. Qed.
Hint Rewrite xa_unsolicited_reset_state xa_start_flush_u xa_put_cur : xf.
Lemma xa_print_string : forall s t, X (fst (print_string UNSOL s t)) = X s.
Proof. intros. unfold print_string. xsolve. Qed.
Lemma xa_print_strings : forall s t, X (fst (print_strings UNSOL s t)) = X s.
Proof. intros. unfold print_strings. xsolve. Qed.
Hint Rewrite xa_print_string xa_print_strings : xf.
Lemma xa_print_response_test : forall D s, X (fst (print_response_test D UNSOL s)) = X s.
Proof. intros. unfold print_response_test. xsolve. Qed.
Hint Rewrite xa_print_response_test : xf.
Lemma xa_spf_test : forall D s, X (start_processing_format_test_args D UNSOL s) = X s.
Proof. intros. unfold start_processing_format_test_args. xsolve. Qed.
Lemma xa_spf_read : forall D s, X (start_processing_format_read_args D UNSOL s) = X s.
Proof. intros. unfold start_processing_format_read_args. xsolve. Qed.
Lemma xa_next_format_var : forall D s, X (fst (next_format_var D UNSOL s)) = X s.
Proof. intros. unfold next_format_var. xsolve. Qed.
Hint Rewrite xa_spf_test xa_spf_read xa_next_format_var : xf.
Lemma xa_format_test_args : forall D s, X (format_test_args D UNSOL s) = X s.
Proof. intros. unfold format_test_args. xsolve. Qed.
Lemma xa_pop : forall D s, X (fst (pop_unsolicited_cmd D s)) = X s.
Proof. intros. unfold pop_unsolicited_cmd. xsolve. Qed.
Hint Rewrite xa_format_test_args xa_pop : xf.
Lemma xa_check : forall D s, X (check_unsolicited_buffers D s) = X s.
Proof. intros. unfold check_unsolicited_buffers. xsolve. Qed.
Lemma xa_uwait : forall s, X (unsolicited_process_io_write_wait s) = X s.
Proof. intros. unfold unsolicited_process_io_write_wait. xsolve. Qed.
Lemma xa_flush_end_u : forall s, X (flush_end_u s) = X s.
Proof. intros. unfold flush_end_u. xsolve. Qed.

End EvFrame.

(* ---- F2: the event machine keeps its invariant ---- *)
Section EvInv.
Variable D : desc.
Local Notation IEd := (IE D).

Lemma ep_setu_index' : forall v s, ep (setu_index v s) = ep s. Proof. reflexivity. Qed.
Hint Rewrite ep_setu_state ep_setu_cmd ep_setu_type ep_setu_wafter
  ep_setu_index ep_setu_position ep_setu_var ep_setu_wbuf ep_setu_wstate ep_set_ubuf
  ep_setg_pos ep_setg_buf ep_setg_var ep_setg_index ep_set_fault_flag ep_put_cur
  ep_print_string ep_print_strings
  ep_unsolicited_reset_state ep_end_with_error_u ep_end_with_ok_u ep_set_loop_state_u
  ep_start_flush_u ep_start_flush_after_ok_u ep_start_flush_after_u : epu.

Lemma IE_quiet : forall s c, IEd (ep s) = true -> cmd_of D UNSOL s = Some c -> quiet_cmd c = true.
Proof.
  intros s c H E. unfold cmd_of, g_cmd in E. unfold IE, ep, Lemmas_C13.ringpart in H.
  destruct (u_cmd (u s)) as [ci|]; [|discriminate E].
  apply andb_true_iff in H. destruct H as [H _]. apply andb_true_iff in H. destruct H as [_ H].
  unfold quiet_ci in H. unfold cmd_at in E. unfold cmd_at in H. rewrite E in H. exact H.
Qed.

Lemma IE_reset : forall e, IEd e = true -> IEd (p_st US_IDLE (p_ty T_NONE (p_cmd None e))) = true.
Proof.
  intros [[[[x c] ty] wa] [[[ring hd] tl] cnt]] H. unfold IE, p_st, p_ty, p_cmd in *.
  rewrite !andb_true_iff in *. destruct H as [[[A B] C] E]. repeat split; try assumption; reflexivity.
Qed.

Lemma IE_flush : forall e wa', nlb wa' = true -> IEd e = true ->
  IEd (p_st US_FLUSH_WAIT (p_wa wa' e)) = true.
Proof.
  intros [[[[x c] ty] wa] [[[ring hd] tl] cnt]] wa' N H. unfold IE, p_st, p_wa in *.
  rewrite !andb_true_iff in *. destruct H as [[[A B] C] E]. repeat split; try assumption; reflexivity.
Qed.

Lemma IE_st : forall e x', nlb x' = true -> IEd e = true -> IEd (p_st x' e) = true.
Proof.
  intros [[[[x c] ty] wa] [[[ring hd] tl] cnt]] x' N H. unfold IE, p_st in *.
  rewrite !andb_true_iff in *. destruct H as [[[A B] C] E]. repeat split; try assumption; reflexivity.
Qed.

Lemma IE_wafter : forall s, IEd (ep s) = true -> nlb (u_wafter (u s)) = true.
Proof.
  intros s H. unfold IE, ep, Lemmas_C13.ringpart in H.
  rewrite !andb_true_iff in H. destruct H as [[[A B] C] E]. exact B.
Qed.

(* leaf: the state is a composition of frames, resets and flush starts over a state known to
   satisfy the invariant; loop states are contradictory *)
Ltac qfacts :=
  repeat match goal with
  | E : cmd_of D UNSOL ?s' = Some ?c, H : IEd (ep ?s) = true |- _ =>
    lazymatch goal with
    | Q : quiet_cmd c = true |- _ => fail
    | _ =>
      let Q := fresh "Q" in
      assert (Q : quiet_cmd c = true)
        by (apply (IE_quiet s' c); [autorewrite with epu; exact H | exact E])
    end
  end.
Ltac qcontra :=
  match goal with
  | Q : quiet_cmd ?c = true, E : c_hread ?c = true |- _ =>
    rewrite (quiet_hread c Q) in E; discriminate E
  | Q : quiet_cmd ?c = true, E : c_htest ?c = true |- _ =>
    rewrite (quiet_htest c Q) in E; discriminate E
  | Q : quiet_cmd ?c = true, E : negb (c_hread ?c) = false |- _ =>
    rewrite (quiet_hread c Q) in E; discriminate E
  end.
Ltac ileaf H :=
  qfacts; try qcontra; autorewrite with epu;
  repeat first [ exact H | apply IE_reset | apply IE_flush; [reflexivity|] | apply IE_st; [reflexivity|] ].
Ltac istep :=
  match goal with
  | |- context[match ?x with _ => _ end] =>
    lazymatch x with
    | context [match _ with _ => _ end] => fail
    | _ => idtac
    end;
    lazymatch type of x with
    | prod state _ =>
      let E := fresh "E" in let s0 := fresh "s" in let b0 := fresh "b" in
      destruct x as [s0 b0] eqn:E; apply (f_equal fst) in E; cbn [fst] in E; subst s0
    | _ => destruct x eqn:?
    end
  end.
Ltac unorm :=
  cbn [g_buf g_pos g_cmd g_var g_index setg_buf setg_pos setg_var setg_index].
Ltac isolve H := cbv beta iota zeta; repeat (istep; cbn [fst snd]); ileaf H.

Lemma ie_print_response_test : forall s, IEd (ep s) = true ->
  IEd (ep (fst (print_response_test D UNSOL s))) = true.
Proof. intros s H. unfold print_response_test. isolve H. Qed.

Lemma ie_next_format_var : forall s, IEd (ep s) = true ->
  IEd (ep (fst (next_format_var D UNSOL s))) = true.
Proof. intros s H. unfold next_format_var. unorm. isolve H. Qed.

Ltac ileaf2 H :=
  qfacts; try qcontra;
  repeat first [ exact H | progress autorewrite with epu | apply IE_reset | apply IE_flush; [reflexivity|]
               | apply IE_st; [reflexivity|] | apply ie_print_response_test | apply ie_next_format_var ].
Ltac isolve2 H := cbv beta iota zeta; repeat (istep; cbn [fst snd]); ileaf2 H.

Lemma ie_spf_test : forall s, IEd (ep s) = true ->
  IEd (ep (start_processing_format_test_args D UNSOL s)) = true.
Proof. intros s H. unfold start_processing_format_test_args. unorm. isolve2 H. Qed.

Lemma ie_spf_read : forall s, IEd (ep s) = true ->
  IEd (ep (start_processing_format_read_args D UNSOL s)) = true.
Proof. intros s H. unfold start_processing_format_read_args. unorm. isolve2 H. Qed.

Lemma ie_format_test_args : forall s, IEd (ep s) = true ->
  IEd (ep (format_test_args D UNSOL s)) = true.
Proof. intros s H. unfold format_test_args. unorm. isolve2 H. Qed.

Lemma ie_uwait : forall s, IEd (ep s) = true -> IEd (ep (unsolicited_process_io_write_wait s)) = true.
Proof. intros s H. unfold unsolicited_process_io_write_wait. isolve2 H. Qed.

Lemma ie_flush_end_u : forall s, IEd (ep s) = true -> IEd (ep (flush_end_u s)) = true.
Proof.
  intros s H. pose proof (IE_wafter s H) as W. unfold flush_end_u.
  cbv beta iota zeta; repeat (istep; cbn [fst snd]); autorewrite with epu; try exact H.
  apply IE_st; assumption.
Qed.

Lemma ie_pop : forall s, IEd (ep s) = true ->
  IEd (ep (fst (pop_unsolicited_cmd D s))) = true /\
  (forall ci t, snd (pop_unsolicited_cmd D s) = Some (ci, t) -> quiet_ci D ci = true).
Proof.
  intros s H. unfold pop_unsolicited_cmd, ring_empty.
  destruct (u_count (u s)) as [|n] eqn:C; cbn [Nat.eqb].
  - split; [exact H | intros ci t E; discriminate E].
  - destruct (nth_error (u_ring (u s)) (u_head (u s))) as [it|] eqn:E; cbn [fst snd].
    + unfold IE, ep, Lemmas_C13.ringpart in *. rewrite C in H.
      cbn [ring_items_go] in H. rewrite E in H. cbn [forallb] in H.
      rewrite !andb_true_iff in H. destruct H as [[[A B] Q] [Q1 Q2]].
      split.
      * cbn. rewrite Nat.sub_0_r. rewrite A, B, Q. exact Q2.
      * intros ci t Ei. inversion Ei; subst it. exact Q1.
    + split; [autorewrite with epu; exact H | intros ci t Ei; discriminate Ei].
Qed.

Lemma IE_cmd : forall e ci ty, quiet_ci D ci = true -> IEd e = true -> IEd (p_ty ty (p_cmd (Some ci) e)) = true.
Proof.
  intros [[[[x c] ty0] wa] [[[ring hd] tl] cnt]] ci ty Q H. unfold IE, p_ty, p_cmd in *.
  rewrite !andb_true_iff in *. destruct H as [[[A B] C] E]. repeat split; assumption.
Qed.

Lemma ie_check : forall s, IEd (ep s) = true -> IEd (ep (check_unsolicited_buffers D s)) = true.
Proof.
  intros s H. unfold check_unsolicited_buffers. destruct (ie_pop s H) as [H1 H2].
  destruct (pop_unsolicited_cmd D s) as [s1 [[ci t]|]]; cbn [fst snd] in *; [|exact H1].
  specialize (H2 ci t eq_refl).
  assert (H3 : IEd (ep (setu_type t (setu_cmd (Some ci) s1))) = true).
  { autorewrite with epu. apply IE_cmd; assumption. }
  destruct t; first [exact H3 | apply ie_spf_read; exact H3 | apply ie_spf_test; exact H3].
Qed.

End EvInv.

(* ------------------------------------------------------------------ *)
(* 3. the command machine's view of a scripted world                    *)
(* ------------------------------------------------------------------ *)

Definition U0 : ufsm := mkUfsm US_IDLE 0 0 None 0 T_NONE (WB_NL false) WS_BEFORE US_IDLE [] 0 0 0.
Definition cst (s : state) : state := nx U0 [] s.

(* handler calls made by the command machine *)
Definition cside (q : hreq) : bool :=
  match q with
  | HRead UNSOL _ _ _ _ | HTest UNSOL _ _ _ _ | VRead UNSOL _ _ => false
  | _ => true
  end.
(* the command-side sub-trace: consumed bytes, accepted bytes of command responses, the command
   machine's handler calls (request with arguments, return code) and inner API calls *)
Definition cvis (e : event) : bool :=
  match e with
  | ERd (Some _) => true
  | EWr ATCMD _ true => true
  | ECall q _ => cside q
  | EInner _ _ => true
  | _ => false
  end.

Definition cviewT : Type := (state * shs * smu * list N * list event)%type.
Definition cview (w : sworld) : cviewT :=
  (cst (Fsm.st _ _ _ w), Fsm.hs _ _ _ w, Fsm.mu _ _ _ w, inq (Fsm.io _ _ _ w),
   filter cvis (Fsm.tr _ _ _ w)).
(* the canonical world of a view: event machine idle and empty, io always ready *)
Definition canon (v : cviewT) : sworld :=
  let '(s, h, m, q, t) := v in Fsm.mkWorld sio smu shs s (mkSio q [] []) m h t.

Lemma filter_idem : forall (A : Type) (f : A -> bool) l, filter f (filter f l) = filter f l.
Proof.
  intros A f. induction l as [|x l IH]; [reflexivity|]. cbn [filter].
  destruct (f x) eqn:E; [cbn [filter]; rewrite E, IH; reflexivity | exact IH].
Qed.

Section View.
Variable D : desc.
Hypothesis Hmx : d_mutex D = false.

Local Notation st := (Fsm.st sio smu shs).
Local Notation io := (Fsm.io sio smu shs).
Local Notation mu := (Fsm.mu sio smu shs).
Local Notation hs := (Fsm.hs sio smu shs).
Local Notation tr := (Fsm.tr sio smu shs).
Local Notation mkWorld := (Fsm.mkWorld sio smu shs).
Local Notation set_io := (Fsm.set_io sio smu shs).
Local Notation logw := (Fsm.logw sio smu shs).
Local Notation upd_st := (Fsm.upd_st sio smu shs).
Local Notation busy := (Fsm.busy sio smu shs).
Local Notation s_cmd := (Fsm.cmd_service D sio smu shs s_read s_write s_lock s_unlock s_call).
Local Notation s_uns := (Fsm.unsolicited_events_service D sio smu shs s_write s_lock s_unlock s_call).

(* one step of the command machine in the canonical world *)
Definition cnext (v : cviewT) : cviewT := cview (fst (s_cmd (canon v))).

Lemma cview_canon : forall w, cview (canon (cview w)) = cview w.
Proof. intros [s x m h t]. unfold cview, canon. cbn. rewrite filter_idem. reflexivity. Qed.

Lemma cview_upd : forall g w, cst (g (st w)) = cst (st w) -> cview (upd_st g w) = cview w.
Proof. intros g [s x m h t] H. unfold cview. cbn in *. rewrite H. reflexivity. Qed.

Lemma cview_log : forall e w, cvis e = false -> cview (logw e w) = cview w.
Proof. intros e [s x m h t] H. unfold cview. cbn. rewrite H. reflexivity. Qed.

Lemma cview_wn : forall w, cview (wn U0 [] w) = cview w.
Proof. intros [s x m h t]. reflexivity. Qed.

(* ---- the simulation relation of Lemmas_C12 for the command-side sub-trace ---- *)
Definition cvisT (t1 t2 : list event) : Prop := filter cvis t1 = filter cvis t2.
Lemma cvisT_cons : forall e t1 t2, cvisT t1 t2 -> cvisT (e :: t1) (e :: t2).
Proof. intros e t1 t2 H. unfold cvisT in *. cbn [filter]. rewrite H. reflexivity. Qed.

Definition RC (w1 w2 : sworld) : Prop :=
  st w1 = st w2 /\ mu w1 = mu w2 /\ hs w1 = hs w2 /\ cvisT (tr w1) (tr w2) /\
  inq (io w1) = inq (io w2) /\ rd_sched (io w2) = [] /\ wr_sched (io w2) = [].

Lemma RC_view : forall w1 w2, RC w1 w2 -> cview w1 = cview w2.
Proof.
  intros w1 w2 (A & B & C & E & F & _). unfold cview. unfold cvisT in E. rewrite A, B, C, E, F. reflexivity.
Qed.

Lemma RC_simw : forall w1 w2, RC w1 w2 -> simw sio smu shs cvisT (io w1) (io w2) w1 w2.
Proof.
  intros w1 w2 (A & B & C & E & _). destruct w1, w2. cbn in *. subst. constructor. exact E.
Qed.

Lemma RC_log_l : forall e w1 w2, cvis e = false -> RC w1 w2 -> RC (logw e w1) w2.
Proof.
  intros e w1 w2 V (A & B & C & E & F). repeat split; try assumption; try apply F.
  unfold cvisT in *. cbn [Fsm.logw Fsm.tr filter]. rewrite V. exact E.
Qed.

Lemma cmd_step_cases_c : forall w1 w2, RC w1 w2 ->
  RC (fst (s_cmd w1)) w2 \/ RC (fst (s_cmd w1)) (fst (s_cmd w2)).
Proof.
  intros w1 w2 HR. pose proof HR as (A & B & C & E & F & G1 & G2).
  destruct (reading_state (k_state (k (st w1)))) eqn:RS.
  - destruct (s_read (io w1)) as [io1 [c|]] eqn:E1.
    + right.
      destruct (cmd_read_delivered_step D sio smu shs s_read s_write s_lock s_unlock s_call _ RS)
        as [Fn HF].
      pose proof (s_read_some _ _ _ E1) as Q.
      assert (E2 : s_read (io w2) = (mkSio (inq io1) [] (wr_sched (io w2)), Some c)).
      { apply s_read_eager; [exact G1 | rewrite <- F; exact Q]. }
      rewrite (HF w1 _ _ eq_refl E1).
      rewrite (HF w2 _ _ (f_equal (fun s => k_state (k s)) (eq_sym A)) E2).
      cbn [fst]. unfold RC. cbn [Fsm.st Fsm.io Fsm.mu Fsm.hs Fsm.tr inq rd_sched wr_sched].
      rewrite A. repeat split; try assumption. apply cvisT_cons. exact E.
    + left.
      rewrite (C12_read_refused D sio smu shs s_read s_write s_lock s_unlock s_call w1 io1 RS E1).
      cbn [fst]. apply RC_log_l; [reflexivity|].
      pose proof (s_read_none _ _ E1) as Q.
      unfold RC. cbn [Fsm.st Fsm.io Fsm.mu Fsm.hs Fsm.tr Fsm.set_io]. rewrite Q.
      repeat split; assumption.
  - destruct (cstate_eq_dec (k_state (k (st w1))) CS_FLUSH) as [FL|NF].
    + assert (FL2 : k_state (k (st w2)) = CS_FLUSH) by (rewrite <- A; exact FL).
      destruct (pending_c (st w1)) as [ch|] eqn:PC.
      * destruct (pending_c_some _ _ PC) as [WB NZ].
        assert (WB2 : wbuf_char (k_wbuf (k (st w2))) (cbuf (st w2)) (k_position (k (st w2))) = Some ch)
          by (rewrite <- A; exact WB).
        destruct (s_write (io w1) ch) as [io1 b] eqn:E1.
        pose proof (s_write_inq (io w1) ch) as Q. rewrite E1 in Q. cbn [fst] in Q.
        destruct b.
        -- right.
           rewrite (C12_write_accepted_cmd D sio smu shs s_read s_write s_lock s_unlock s_call
                      w1 ch io1 FL WB NZ E1).
           rewrite (C12_write_accepted_cmd D sio smu shs s_read s_write s_lock s_unlock s_call
                      w2 ch _ FL2 WB2 NZ (s_write_eager (io w2) ch G2)).
           cbn [fst]. unfold RC.
           cbn [Fsm.st Fsm.io Fsm.mu Fsm.hs Fsm.tr Fsm.set_io Fsm.upd_st Fsm.set_st Fsm.logw
                inq rd_sched wr_sched].
           rewrite A, Q. repeat split; try assumption. apply cvisT_cons. exact E.
        -- left.
           rewrite (C12_write_refused_cmd D sio smu shs s_read s_write s_lock s_unlock s_call
                      w1 ch io1 FL WB NZ E1).
           cbn [fst]. apply RC_log_l; [reflexivity|].
           unfold RC. cbn [Fsm.st Fsm.io Fsm.mu Fsm.hs Fsm.tr Fsm.set_io]. rewrite Q.
           repeat split; assumption.
      * right.
        rewrite (flush_end_cmd D sio smu shs s_read s_write s_lock s_unlock s_call w1 FL PC).
        rewrite (flush_end_cmd D sio smu shs s_read s_write s_lock s_unlock s_call w2 FL2
                   ltac:(rewrite <- A; exact PC)).
        cbn [fst Fsm.busy]. unfold RC.
        cbn [Fsm.st Fsm.io Fsm.mu Fsm.hs Fsm.tr Fsm.upd_st Fsm.set_st]. rewrite A.
        repeat split; assumption.
    + right.
      destruct (cmd_service_sim D sio smu shs s_read s_write s_lock s_unlock s_call cvisT cvisT_cons
                  _ _ w1 w2 (RC_simw _ _ HR) RS NF) as (a & b & r & Ea & Eb & S).
      rewrite Ea, Eb. cbn [fst]. destruct S as [s m h t1 t2 HT].
      unfold RC. cbn [Fsm.st Fsm.io Fsm.mu Fsm.hs Fsm.tr]. repeat split; assumption.
Qed.

(* ---- 1. every step of the command machine is a stutter of the view or cnext ---- *)
Theorem cmd_step_view : forall w, script_ok res_no_trigger (hs w) = true ->
  cview (fst (s_cmd w)) = cview w \/ cview (fst (s_cmd w)) = cnext (cview w).
Proof.
  intros w H.
  destruct (cstate_eq_dec (k_state (k (st w))) CS_FLUSH_WAIT) as [FW|NW].
  - assert (E0 : s_cmd w = busy (upd_st process_io_write_wait w))
      by (unfold Fsm.cmd_service; rewrite FW; reflexivity).
    unfold cnext. rewrite E0. cbn [fst Fsm.busy].
    destruct (ustate_beq (u_state (u (st w))) US_FLUSH) eqn:UF.
    + left. apply cview_upd. unfold process_io_write_wait. rewrite UF. reflexivity.
    + right. destruct w as [s x m h t]. cbn [Fsm.st] in *.
      assert (Ec : s_cmd (canon (cview (mkWorld s x m h t))) =
                   busy (upd_st process_io_write_wait (canon (cview (mkWorld s x m h t))))).
      { unfold Fsm.cmd_service. unfold cview, canon. cbn [Fsm.st Fsm.io Fsm.mu Fsm.hs Fsm.tr].
        change (k_state (k (cst s))) with (k_state (k s)). rewrite FW. reflexivity. }
      rewrite Ec. unfold cview, canon.
      cbn [fst Fsm.busy Fsm.upd_st Fsm.set_st Fsm.st Fsm.io Fsm.mu Fsm.hs Fsm.tr inq].
      rewrite filter_idem. unfold process_io_write_wait. rewrite UF.
      change (u_state (u (cst s))) with US_IDLE. cbn [ustate_beq negb]. reflexivity.
  - pose proof (cmd_nx D Hmx U0 [] w NW H) as CN.
    assert (R0 : RC (wn U0 [] w) (canon (cview w))).
    { destruct w as [s x m h t]. unfold RC, cview, canon, wn, cvisT. cbn. rewrite filter_idem.
      repeat split. }
    destruct (cmd_step_cases_c _ _ R0) as [S|S]; apply RC_view in S;
      rewrite CN in S; unfold pw in S; cbn [fst] in S; rewrite cview_wn in S.
    + left. etransitivity; [exact S | apply cview_canon].
    + right. exact S.
Qed.

(* the command machine keeps the handler-script hypothesis and does not touch the event machine *)
Lemma cmd_step_keeps : forall w, script_ok res_no_trigger (hs w) = true ->
  script_ok res_no_trigger (hs (fst (s_cmd w))) = true /\ u (st (fst (s_cmd w))) = u (st w).
Proof.
  intros w S.
  assert (H : ufr sio smu shs (fun h => script_ok res_no_trigger h = true) w (fst (s_cmd w))).
  { apply cmd_service_u.
    - intros h q Hh. apply s_call_ok; [|exact Hh]. intros q0. destruct q0; reflexivity.
    - split; [exact S | reflexivity]. }
  exact H.
Qed.

Lemma invE_u : forall s s', u s' = u s -> invE D s' = invE D s.
Proof. intros s s' H. unfold invE, Lemmas_C13o.ep, Lemmas_C13.ringpart. rewrite H. reflexivity. Qed.

(* ---- 2. a step of the event machine on quiet commands leaves the view alone ---- *)
Lemma cst_frame : forall s s', nx U0 [] s' = nx U0 [] s -> cst s' = cst s.
Proof. intros s s' H. exact H. Qed.

Theorem uns_step_view : forall w, invE D (st w) = true ->
  cview (fst (s_uns w)) = cview w /\ invE D (st (fst (s_uns w))) = true.
Proof.
  intros w I. unfold invE in *.
  assert (NL : nlb (u_state (u (st w))) = true).
  { unfold IE, Lemmas_C13o.ep, Lemmas_C13.ringpart in I. rewrite !andb_true_iff in I. tauto. }
  destruct (ustate_eq_dec (u_state (u (st w))) US_FLUSH) as [FL|NF].
  - (* flush *)
    destruct (pending_u (st w)) as [ch|] eqn:PU.
    + destruct (pending_u_some _ _ PU) as [WB NZ].
      destruct (s_write (io w) ch) as [io1 bb] eqn:E1.
      pose proof (s_write_inq (io w) ch) as Q. rewrite E1 in Q. cbn [fst] in Q.
      destruct bb.
      * rewrite (C12_write_accepted_uns D sio smu shs s_write s_lock s_unlock s_call w ch io1 FL WB NZ E1).
        cbn [fst]. split.
        -- destruct w as [s x m h t]. unfold cview. cbn in *. rewrite Q. reflexivity.
        -- destruct w as [s x m h t]. cbn in *. exact I.
      * rewrite (C12_write_refused_uns D sio smu shs s_write s_lock s_unlock s_call w ch io1 FL WB NZ E1).
        cbn [fst]. split.
        -- destruct w as [s x m h t]. unfold cview. cbn in *. rewrite Q. reflexivity.
        -- destruct w as [s x m h t]. cbn in *. exact I.
    + rewrite (flush_end_uns D sio smu shs s_write s_lock s_unlock s_call w FL PU). cbn [fst Fsm.busy].
      split.
      * apply cview_upd. apply cst_frame. apply xa_flush_end_u.
      * cbn [Fsm.upd_st Fsm.set_st Fsm.st]. apply ie_flush_end_u. exact I.
  - unfold Fsm.unsolicited_events_service.
    destruct (u_state (u (st w))) eqn:US; try congruence; try discriminate NL; cbn [fst Fsm.busy].
    + (* idle *)
      destruct (negb (ring_empty (st w))); cbn [fst Fsm.busy]; [|split; [reflexivity|exact I]].
      destruct (ring_items D (st w)) as [|it rest]; split.
      * apply cview_upd. apply cst_frame. apply xa_check.
      * cbn [Fsm.upd_st Fsm.set_st Fsm.st]. apply ie_check. exact I.
      * rewrite cview_upd by (apply cst_frame; apply xa_check). apply cview_log. reflexivity.
      * cbn [Fsm.upd_st Fsm.set_st Fsm.st Fsm.logw]. apply ie_check. exact I.
    + (* format read args: no variable has a read callback *)
      unfold Fsm.format_read_args. cbn [g_cmd g_var].
      destruct (u_cmd (u (st w))) as [ci|] eqn:UC;
        [|cbn [fst Fsm.busy]; split;
          [apply cview_upd; reflexivity | cbn [Fsm.upd_st Fsm.set_st Fsm.st]; exact I]].
      destruct (cmd_of D UNSOL (st w)) as [c|] eqn:CO;
        [|cbn [fst Fsm.busy]; split;
          [apply cview_upd; reflexivity | cbn [Fsm.upd_st Fsm.set_st Fsm.st]; exact I]].
      pose proof (IE_quiet D (st w) c I CO) as QC.
      destruct (nth_error (c_vars c) (u_var (u (st w)))) as [v|] eqn:NV;
        [|cbn [fst Fsm.busy]; split;
          [apply cview_upd; reflexivity | cbn [Fsm.upd_st Fsm.set_st Fsm.st]; exact I]].
      rewrite (quiet_var c _ v QC NV). cbn [fst Fsm.busy]. rewrite (quiet_hread c QC).
      split.
      * apply cview_upd. apply cst_frame.
        destruct (nth_error (mem (st w)) (v_slot v)); [|reflexivity].
        destruct (fmt_var v l (get_cur UNSOL (st w))) as [c1 ok]. 
        destruct (negb ok).
        { cbn [end_with_error]. rewrite xa_unsolicited_reset_state. apply xa_put_cur. }
        destruct (next_format_var D UNSOL (put_cur UNSOL c1 (st w))) as [s2 hd] eqn:NFV.
        apply (f_equal fst) in NFV. cbn [fst] in NFV. subst s2.
        destruct hd; [rewrite xa_next_format_var; apply xa_put_cur|].
        cbn [start_flush_after_ok]. rewrite xa_start_flush_u, xa_next_format_var. apply xa_put_cur.
      * cbn [Fsm.upd_st Fsm.set_st Fsm.st].
        destruct (nth_error (mem (st w)) (v_slot v)); [|exact I].
        destruct (fmt_var v l (get_cur UNSOL (st w))) as [c1 ok].
        assert (I1 : IE D (Lemmas_C13o.ep (put_cur UNSOL c1 (st w))) = true)
          by (rewrite Lemmas_C13o.ep_put_cur; exact I).
        destruct (negb ok).
        { cbn [end_with_error]. rewrite Lemmas_C13o.ep_unsolicited_reset_state. apply IE_reset. exact I1. }
        pose proof (ie_next_format_var D _ I1) as I2.
        destruct (next_format_var D UNSOL (put_cur UNSOL c1 (st w))) as [s2 hd]. cbn [fst] in I2.
        destruct hd; [exact I2|].
        cbn [start_flush_after_ok]. rewrite Lemmas_C13o.ep_start_flush_u. apply IE_flush; [reflexivity|exact I2].
    + split; [apply cview_upd; apply cst_frame; apply xa_format_test_args
             | cbn [Fsm.upd_st Fsm.set_st Fsm.st]; apply ie_format_test_args; exact I].
    + split; [apply cview_upd; apply cst_frame; apply xa_uwait
             | cbn [Fsm.upd_st Fsm.set_st Fsm.st]; apply ie_uwait; exact I].
    + split; [apply cview_upd; apply cst_frame; apply xa_unsolicited_reset_state
             | cbn [Fsm.upd_st Fsm.set_st Fsm.st]; rewrite Lemmas_C13o.ep_unsolicited_reset_state;
               apply IE_reset; exact I].
    + split; [apply cview_upd; apply cst_frame; apply xa_unsolicited_reset_state
             | cbn [Fsm.upd_st Fsm.set_st Fsm.st end_with_ok];
               rewrite Lemmas_C13o.ep_unsolicited_reset_state; apply IE_reset; exact I].
    + split; [apply cview_upd; apply cst_frame; apply xa_spf_read
             | cbn [Fsm.upd_st Fsm.set_st Fsm.st]; apply ie_spf_read; exact I].
    + split; [apply cview_upd; apply cst_frame; apply xa_spf_test
             | cbn [Fsm.upd_st Fsm.set_st Fsm.st]; apply ie_spf_test; exact I].
Qed.

(* ---- 3. whole runs ---- *)
Definition InvM (w : sworld) : Prop :=
  invE D (st w) = true /\ script_ok res_no_trigger (hs w) = true.

Lemma cview_hs : forall w1 w2, cview w1 = cview w2 -> hs w1 = hs w2.
Proof. intros w1 w2 H. unfold cview in H. congruence. Qed.

Lemma svc_view : forall w, InvM w ->
  InvM (svc D w) /\ (cview (svc D w) = cview w \/ cview (svc D w) = cnext (cview w)).
Proof.
  intros w [I S]. destruct (Lemmas_C12.svc_both D w Hmx) as [r E]. rewrite E.
  destruct (uns_step_view w I) as [V1 I1].
  assert (S1 : script_ok res_no_trigger (hs (fst (s_uns w))) = true)
    by (rewrite (cview_hs _ _ V1); exact S).
  destruct (cmd_step_keeps _ S1) as [S2 U2].
  split.
  - split; cbn [Fsm.logw Fsm.st Fsm.hs]; [|exact S2]. rewrite (invE_u _ _ U2). exact I1.
  - rewrite cview_log by reflexivity. rewrite <- V1. apply cmd_step_view. exact S1.
Qed.

Lemma nsvc_S : forall n w, nsvc D (S n) w = nsvc D n (svc D w).
Proof. reflexivity. Qed.

(* j steps along the chain *)
Fixpoint citer (j : nat) (v : cviewT) : cviewT :=
  match j with 0 => v | S j' => citer j' (cnext v) end.
Lemma citer_S : forall j v, citer (S j) v = cnext (citer j v).
Proof. induction j as [|j IH]; intros v; [reflexivity|]. cbn [citer] in *. rewrite <- IH. reflexivity. Qed.
Lemma citer_add : forall a b v, citer (a + b) v = citer b (citer a v).
Proof. induction a as [|a IH]; intros b v; [reflexivity|]. cbn [citer Nat.add]. apply IH. Qed.

Theorem run_view : forall n w, InvM w ->
  InvM (nsvc D n w) /\ exists j, j <= n /\ cview (nsvc D n w) = citer j (cview w).
Proof.
  induction n as [|n IH]; intros w I.
  - split; [exact I|]. exists 0. split; [lia|reflexivity].
  - rewrite nsvc_S. destruct (svc_view w I) as [I1 V].
    destruct (IH _ I1) as [I2 (j & Hj & E)]. split; [exact I2|].
    destruct V as [V|V]; rewrite V in E.
    + exists j. split; [lia|exact E].
    + exists (S j). split; [lia|]. exact E.
Qed.

(* two runs whose initial views agree stay on one chain, whatever the schedules and whatever the
   (quiet) events *)
Theorem C12_cmd_view_chain : forall w1 w2 n m, InvM w1 -> InvM w2 -> cview w1 = cview w2 ->
  exists j1 j2, j1 <= n /\ j2 <= m /\
    cview (nsvc D n w1) = citer j1 (cview w1) /\
    cview (nsvc D m w2) = citer j2 (cview w1).
Proof.
  intros w1 w2 n m I1 I2 E.
  destruct (run_view n w1 I1) as [_ (j1 & H1 & E1)].
  destruct (run_view m w2 I2) as [_ (j2 & H2 & E2)].
  exists j1, j2. rewrite E. rewrite <- E at 1. repeat split; assumption.
Qed.

Lemma InvM_eager : forall w, InvM w -> InvM (eager w).
Proof. intros [s x m h t] H. exact H. Qed.
Lemma cview_eager : forall w, cview (eager w) = cview w.
Proof. intros [s x m h t]. reflexivity. Qed.

(* the command-side sub-trace only grows along the chain *)
Definition vtrace (v : cviewT) : list event := snd v.

Lemma cnext_grows : forall v, exists evs, vtrace (cnext v) = evs ++ filter cvis (vtrace v).
Proof.
  intros [[[[s h] m] q] t]. unfold cnext.
  destruct (Lemmas_C11.cmd_service_writes D sio smu shs s_read s_write s_lock s_unlock s_call
              (canon (s, h, m, q, t))) as (evs & T & _).
  exists (filter cvis evs). unfold vtrace, cview. cbn [snd]. rewrite T, filter_app. reflexivity.
Qed.


Lemma citer_grows : forall j w, exists evs,
  vtrace (citer j (cview w)) = evs ++ filter cvis (tr w).
Proof.
  assert (G : forall j v, filter cvis (vtrace v) = vtrace v ->
            exists evs, vtrace (citer j v) = evs ++ vtrace v).
  { induction j as [|j IH]; intros v Hv; [exists []; reflexivity|].
    cbn [citer]. destruct (cnext_grows v) as [e2 E2].
    assert (Hn : filter cvis (vtrace (cnext v)) = vtrace (cnext v)).
    { unfold cnext, cview, vtrace. cbn [snd]. apply filter_idem. }
    destruct (IH (cnext v) Hn) as [e1 E1].
    exists (e1 ++ e2). rewrite E1, E2, Hv, app_assoc. reflexivity. }
  intros j w. apply (G j (cview w)). unfold cview, vtrace. cbn [snd]. apply filter_idem.
Qed.

(* the command-side sub-traces of two such runs are prefix-related (lists are newest first) *)
Theorem C12_cmd_trace_prefix : forall w1 w2 n m, InvM w1 -> InvM w2 -> cview w1 = cview w2 ->
  exists evs, filter cvis (tr (nsvc D n w1)) = evs ++ filter cvis (tr (nsvc D m w2)) \/
              filter cvis (tr (nsvc D m w2)) = evs ++ filter cvis (tr (nsvc D n w1)).
Proof.
  intros w1 w2 n m I1 I2 E.
  destruct (C12_cmd_view_chain w1 w2 n m I1 I2 E) as (j1 & j2 & _ & _ & E1 & E2).
  destruct (Nat.le_ge_cases j1 j2) as [L|L].
  - assert (Eb : cview (nsvc D m w2) = citer (j2 - j1) (cview (nsvc D n w1))).
    { rewrite E1, E2, <- citer_add. f_equal. lia. }
    destruct (citer_grows (j2 - j1) (nsvc D n w1)) as [evs G]. exists evs. right.
    rewrite <- G, <- Eb. reflexivity.
  - assert (Eb : cview (nsvc D n w1) = citer (j1 - j2) (cview (nsvc D m w2))).
    { rewrite E1, E2, <- citer_add. f_equal. lia. }
    destruct (citer_grows (j1 - j2) (nsvc D m w2)) as [evs G]. exists evs. left.
    rewrite <- G, <- Eb. reflexivity.
Qed.

(* ---- quiescence: the view is a fixed point of cnext ---- *)
Lemma quiet_fix : forall w, Lemmas_C15.quiet w -> cnext (cview w) = cview w.
Proof.
  intros w (RS & _ & _ & Q). unfold cnext.
  assert (RS' : reading_state (k_state (k (st (canon (cview w))))) = true).
  { destruct w as [s x m h t]. exact RS. }
  assert (Q' : inq (io (canon (cview w))) = []).
  { destruct w as [s x m h t]. exact Q. }
  destruct (Lemmas_C15.s_read_empty (io (canon (cview w))) Q') as (x' & Hrd & _).
  rewrite (C12_read_refused D sio smu shs s_read s_write s_lock s_unlock s_call _ x' RS' Hrd).
  cbn [fst]. rewrite cview_log by reflexivity.
  pose proof (s_read_none _ _ Hrd) as Qn.
  transitivity (cview (canon (cview w))); [|apply cview_canon].
  destruct (canon (cview w)) as [s x m h t]. unfold cview. cbn in *. rewrite Qn. reflexivity.
Qed.

Lemma citer_fix : forall j v, cnext v = v -> citer j v = v.
Proof. induction j as [|j IH]; intros v H; [reflexivity|]. cbn [citer]. rewrite H. apply IH. exact H. Qed.

(* at quiescence of both runs the views are EQUAL *)
Theorem C12_cmd_view_final : forall w1 w2 n m, InvM w1 -> InvM w2 -> cview w1 = cview w2 ->
  inq (io (nsvc D n w1)) = [] ->
  snd (do_op D sio smu shs s_read s_write s_lock s_unlock s_call (nsvc D n w1) OService) = ST_OK ->
  inq (io (nsvc D m w2)) = [] ->
  snd (do_op D sio smu shs s_read s_write s_lock s_unlock s_call (nsvc D m w2) OService) = ST_OK ->
  cview (nsvc D n w1) = cview (nsvc D m w2).
Proof.
  intros w1 w2 n m I1 I2 E Q1 O1 Q2 O2.
  pose proof (quiet_fix _ (Lemmas_C12c.ok_quiet D Hmx _ Q1 O1)) as F1.
  pose proof (quiet_fix _ (Lemmas_C12c.ok_quiet D Hmx _ Q2 O2)) as F2.
  destruct (C12_cmd_view_chain w1 w2 n m I1 I2 E) as (j1 & j2 & _ & _ & E1 & E2).
  rewrite E1, E2 in *. destruct (Nat.le_ge_cases j1 j2) as [L|L].
  - replace j2 with (j1 + (j2 - j1)) by lia. rewrite citer_add. symmetry. apply citer_fix. exact F1.
  - replace j1 with (j2 + (j1 - j2)) by lia. rewrite citer_add. apply citer_fix. exact F2.
Qed.

End View.

(* ------------------------------------------------------------------ *)
(* 4. what a user observes of the command side                          *)
(* ------------------------------------------------------------------ *)

(* accepted bytes of command responses, oldest first *)
Definition cmd_output (t : list event) : list N :=
  flat_map (fun e => match e with EWr ATCMD ch true => [ch] | _ => [] end) (rev t).
(* the command machine's handler calls: request with its arguments, return code; oldest first *)
Definition cmd_calls (t : list event) : list (hreq * Z) :=
  flat_map (fun e => match e with ECall q c => if cside q then [(q, c)] else [] | _ => [] end) (rev t).

Lemma filter_rev' : forall (A : Type) (f : A -> bool) l, filter f (rev l) = rev (filter f l).
Proof.
  intros A f. induction l as [|x l IH]; [reflexivity|]. cbn [rev filter]. rewrite filter_app, IH.
  cbn [filter]. destruct (f x); [reflexivity|]. rewrite app_nil_r. reflexivity.
Qed.

Lemma flat_map_filter : forall (A B : Type) (f : A -> bool) (g : A -> list B) l,
  (forall x, f x = false -> g x = []) -> flat_map g (filter f l) = flat_map g l.
Proof.
  intros A B f g l H. induction l as [|x l IH]; [reflexivity|]. cbn [filter flat_map].
  destruct (f x) eqn:E; [cbn [flat_map]; rewrite IH; reflexivity|]. rewrite (H x E). exact IH.
Qed.

Lemma proj_cvis : forall (B : Type) (g : event -> list B) t,
  (forall e, cvis e = false -> g e = []) ->
  flat_map g (rev (filter cvis t)) = flat_map g (rev t).
Proof. intros B g t H. rewrite <- filter_rev'. apply flat_map_filter. exact H. Qed.

Lemma consumed_cvis : forall t, Lemmas_C01s.consumed (filter cvis t) = Lemmas_C01s.consumed t.
Proof. intros t. apply proj_cvis. intros [[c|]|f ch [|]|ok|ok|q c|c z|o z|ci ty]; try reflexivity; try discriminate; destruct f; try reflexivity; discriminate. Qed.
Lemma cmd_output_cvis : forall t, cmd_output (filter cvis t) = cmd_output t.
Proof. intros t. apply proj_cvis. intros [[c|]|f ch [|]|ok|ok|q c|c z|o z|ci ty]; try reflexivity; try discriminate; destruct f; try reflexivity; discriminate. Qed.
Lemma cmd_calls_cvis : forall t, cmd_calls (filter cvis t) = cmd_calls t.
Proof.
  intros t. apply proj_cvis. intros [[c|]|f ch [|]|ok|ok|q c|c z|o z|ci ty]; try reflexivity; try discriminate.
  cbn [cvis]. intros E. rewrite E. reflexivity.
Qed.

Lemma proj_app : forall (B : Type) (g : event -> list B) e t,
  flat_map g (rev (e ++ t)) = flat_map g (rev t) ++ flat_map g (rev e).
Proof. intros. rewrite rev_app_distr, flat_map_app. reflexivity. Qed.

Section User.
Variable D : desc.
Hypothesis Hmx : d_mutex D = false.
Local Notation st := (Fsm.st sio smu shs).
Local Notation io := (Fsm.io sio smu shs).
Local Notation hs := (Fsm.hs sio smu shs).
Local Notation tr := (Fsm.tr sio smu shs).
Local Notation sdo := (do_op D sio smu shs s_read s_write s_lock s_unlock s_call).

(* what is read off a view *)
Lemma view_obs : forall a b : sworld, cview a = cview b ->
  Lemmas_C01s.consumed (tr a) = Lemmas_C01s.consumed (tr b) /\
  cmd_output (tr a) = cmd_output (tr b) /\ cmd_calls (tr a) = cmd_calls (tr b) /\
  k (st a) = k (st b) /\ cbuf (st a) = cbuf (st b) /\ mem (st a) = mem (st b) /\
  hs a = hs b /\ inq (io a) = inq (io b).
Proof.
  intros a b H. unfold cview in H.
  pose proof (f_equal (fun v : cviewT => fst (fst (fst (fst v)))) H) as Hs.
  pose proof (f_equal (fun v : cviewT => snd (fst (fst (fst v)))) H) as Hh.
  pose proof (f_equal (fun v : cviewT => snd (fst v)) H) as Hq.
  pose proof (f_equal (fun v : cviewT => snd v) H) as Ht. cbn [fst snd] in Hs, Hh, Hq, Ht. clear H.
  rewrite <- (consumed_cvis (tr a)), <- (consumed_cvis (tr b)).
  rewrite <- (cmd_output_cvis (tr a)), <- (cmd_output_cvis (tr b)).
  rewrite <- (cmd_calls_cvis (tr a)), <- (cmd_calls_cvis (tr b)). rewrite Ht.
  repeat split; try assumption.
  - exact (f_equal k Hs).
  - exact (f_equal cbuf Hs).
  - exact (f_equal mem Hs).
Qed.

(* MAIN, final form: scheduled run and always-ready run of the same world, both quiescent *)
Theorem C12_cmd_projection_independent : forall (w : sworld) n m,
  invE D (st w) = true -> script_ok res_no_trigger (hs w) = true ->
  inq (io (nsvc D n w)) = [] -> snd (sdo (nsvc D n w) OService) = ST_OK ->
  inq (io (nsvc D m (eager w))) = [] -> snd (sdo (nsvc D m (eager w)) OService) = ST_OK ->
  let a := nsvc D n w in let b := nsvc D m (eager w) in
  Lemmas_C01s.consumed (tr a) = Lemmas_C01s.consumed (tr b) /\
  cmd_output (tr a) = cmd_output (tr b) /\ cmd_calls (tr a) = cmd_calls (tr b) /\
  k (st a) = k (st b) /\ cbuf (st a) = cbuf (st b) /\ mem (st a) = mem (st b) /\
  hs a = hs b /\ inq (io a) = inq (io b).
Proof.
  intros w n m I S Q1 O1 Q2 O2 a b. apply view_obs.
  apply (C12_cmd_view_final D Hmx w (eager w) n m); try assumption.
  - split; assumption.
  - apply InvM_eager. split; assumption.
  - symmetry. apply cview_eager.
Qed.

(* before quiescence: prefix-related, for ANY n and m *)
Theorem C12_cmd_projection_prefix : forall (w1 w2 : sworld) n m,
  invE D (st w1) = true -> script_ok res_no_trigger (hs w1) = true ->
  invE D (st w2) = true -> script_ok res_no_trigger (hs w2) = true ->
  cview w1 = cview w2 ->
  let a := nsvc D n w1 in let b := nsvc D m w2 in
  (exists r1 r2 r3, Lemmas_C01s.consumed (tr a) = Lemmas_C01s.consumed (tr b) ++ r1 /\
                    cmd_output (tr a) = cmd_output (tr b) ++ r2 /\
                    cmd_calls (tr a) = cmd_calls (tr b) ++ r3) \/
  (exists r1 r2 r3, Lemmas_C01s.consumed (tr b) = Lemmas_C01s.consumed (tr a) ++ r1 /\
                    cmd_output (tr b) = cmd_output (tr a) ++ r2 /\
                    cmd_calls (tr b) = cmd_calls (tr a) ++ r3).
Proof.
  intros w1 w2 n m I1 S1 I2 S2 E a b.
  destruct (C12_cmd_trace_prefix D Hmx w1 w2 n m (conj I1 S1) (conj I2 S2) E) as [evs [G|G]].
  - left. rewrite <- (consumed_cvis (tr a)), <- (cmd_output_cvis (tr a)), <- (cmd_calls_cvis (tr a)).
    rewrite <- (consumed_cvis (tr b)), <- (cmd_output_cvis (tr b)), <- (cmd_calls_cvis (tr b)).
    unfold a, b. rewrite G. unfold Lemmas_C01s.consumed, cmd_output, cmd_calls. rewrite !proj_app.
    do 3 eexists. repeat split; reflexivity.
  - right. rewrite <- (consumed_cvis (tr a)), <- (cmd_output_cvis (tr a)), <- (cmd_calls_cvis (tr a)).
    rewrite <- (consumed_cvis (tr b)), <- (cmd_output_cvis (tr b)), <- (cmd_calls_cvis (tr b)).
    unfold a, b. rewrite G. unfold Lemmas_C01s.consumed, cmd_output, cmd_calls. rewrite !proj_app.
    do 3 eexists. repeat split; reflexivity.
Qed.

End User.
