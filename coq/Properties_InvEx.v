(* Properties_InvEx.v — non-vacuity examples for Properties_Inv.v (split off because they take most of the compile time). *)
From Coq Require Import List NArith ZArith Bool Arith Lia.
From CatV Require Import Bytes Defs Codec Fsm Script Skel SkelInv SkelSim TraceDefs ResolveDefs SchedDefs TermDefs.
From CatV Require Import Lemmas_Ctl Lemmas_C03 Lemmas_C13 Lemmas_C16 Lemmas_C17b Lemmas_C15c Lemmas_Inv.
Import ListNotations.
From CatV Require Import Properties_Inv.
From CatV Require Properties_C03 Properties_C15b Properties_C15c Properties_C16.

Module Examples.
Local Notation st := (Fsm.st sio smu shs).
Local Notation io := (Fsm.io sio smu shs).
Local Notation mu := (Fsm.mu sio smu shs).
Local Notation hs := (Fsm.hs sio smu shs).
Local Notation hist := (TraceDefs.hist sio smu shs).

(* ---- A. the world exW of Properties_C15b.v / exWf of Properties_C15c.v: one command "+X",
        input "AT+X?\n" pending, two read events queued by two API calls ---- *)
Definition exD := Properties_C15b.exD.
Definition exW := Properties_C15b.exW.
Definition exWf := Properties_C15c.exWf.             (* the same with refusing io schedules *)
Definition ex_script := Properties_C15c.ex_script.
Definition ex_ops : list op := [OTrigger 0 T_READ; OTrigger 0 T_READ].

Example exW_is_scripted_history :
  exW = srun exD (sinit exD [] (mkSio [65; 84; 43; 88; 63; 10]%N [] []) (mkSmu [] []) ex_script) (map SOp ex_ops) /\
  exWf = srun exD (sinit exD [] (mkSio [65; 84; 43; 88; 63; 10]%N Properties_C15c.ex_rd Properties_C15c.ex_wr)
                         (mkSmu [] []) ex_script) (map SOp ex_ops).
Proof. split; reflexivity. Qed.

(* the hypotheses on the initial data, all decided by computation *)
Example exW_hypotheses :
  d_mutex exD = false /\ wf_desc exD [] /\ Forall (valid_op exD) ex_ops /\
  no_rt_hold ex_script = true /\ script_ok (res_calls_valid exD) ex_script = true /\
  script_ok res_no_calls ex_script = true /\ unlock_never_fails (mkSmu [] []) = true.
Proof.
  split; [reflexivity|]. split; [exact Properties_C15c.ex_wf|]. split.
  { repeat constructor; cbn; lia. }
  repeat split; vm_compute; reflexivity.
Qed.

(* Safe, J, no fault for exW and exWf: by the theorem, not by unfolding the invariants *)
Example exW_safe :
  (fault (st exW) = false /\ Safe exD [] (st exW) /\ J (ctl_of (st exW))) /\
  (fault (st exWf) = false /\ Safe exD [] (st exWf) /\ J (ctl_of (st exWf))).
Proof.
  destruct exW_hypotheses as (_ & WF & F & A & B & _).
  split.
  - exact (C03_safe_scripted exD [] (mkSio [65; 84; 43; 88; 63; 10]%N [] []) (mkSmu [] []) ex_script ex_ops WF F A B).
  - exact (C03_safe_scripted exD [] (mkSio [65; 84; 43; 88; 63; 10]%N Properties_C15c.ex_rd Properties_C15c.ex_wr)
             (mkSmu [] []) ex_script ex_ops WF F A B).
Qed.

Example exW_queue :
  ring_wf exD (st exW) /\ accepted (hist exW) = popped (hist exW) ++ ring_items exD (st exW) /\
  ring_items exD (st exW) = [(0, T_READ); (0, T_READ)].
Proof.
  destruct (C13_exactly_once_scripted exD [] (mkSio [65; 84; 43; 88; 63; 10]%N [] []) (mkSmu [] []) ex_script ex_ops)
    as [A B]; [cbn; lia | left; reflexivity |].
  split; [exact A|]. split; [exact B | vm_compute; reflexivity].
Qed.

Example exW_locks : locks_ok false (locks (hist exW)) = true.
Proof.
  exact (C16_history_scripted exD [] (mkSio [65; 84; 43; 88; 63; 10]%N [] []) (mkSmu [] []) ex_script ex_ops
           (fun _ => eq_refl)).
Qed.

(* C15 from cat_init: exW (always ready) and exWf (13 refusing schedule bits) reach quiescence *)
Example exW_reaches_quiescence :
  (exists n, n <= C15_bound exD exW + sched_left exW /\ inq (io (nsvc exD n exW)) = [] /\
     snd (do_op exD sio smu shs s_read s_write s_lock s_unlock s_call (nsvc exD n exW) OService) = ST_OK) /\
  (exists n, n <= C15_bound exD exWf + sched_left exWf /\ inq (io (nsvc exD n exWf)) = [] /\
     snd (do_op exD sio smu shs s_read s_write s_lock s_unlock s_call (nsvc exD n exWf) OService) = ST_OK).
Proof.
  destruct exW_hypotheses as (M & WF & F & A & B & _).
  split.
  - apply (C15_reachable_reaches_quiescence exD [] (mkSio [65; 84; 43; 88; 63; 10]%N [] []) (mkSmu [] [])
             ex_script ex_ops M WF F A B); [vm_compute; discriminate | vm_compute; reflexivity].
  - apply (C15_reachable_reaches_quiescence exD []
             (mkSio [65; 84; 43; 88; 63; 10]%N Properties_C15c.ex_rd Properties_C15c.ex_wr) (mkSmu [] [])
             ex_script ex_ops M WF F A B); [vm_compute; discriminate | vm_compute; reflexivity].
Qed.

(* ---- B. the descriptor D1 of Properties_C03.v (three variables, a mutex, events), with
        scripts in which the WRITE handler holds the command (allowed), pokes a variable and
        triggers an event from inside; the read handler of +X triggers a test event; the event
        handler of +E releases the hold.  Input arrives by SFeed, the application stores into a
        variable by SPoke, the second lock is refused ---- *)
Definition D1 := Properties_C03.Examples.D1.
Definition m1 := Properties_C03.Examples.m1.
Definition inp1 := Properties_C03.Examples.inp1.
Definition hs2 : shs :=
  [ ((0,0,0), [mkHres RC_HOLD None [(0,[9%N])] [ITrigger 2 T_READ]]);
    ((1,0,0), [mkHres RC_DATA_NEXT (Some [111;107]%N) [] [ITrigger 0 T_TEST]; mkHres RC_OK None [] []]);
    ((2,1,0), [mkHres RC_PRINT_CMD_LIST_OK None [] []]);
    ((1,2,0), [mkHres RC_HOLD_EXIT_OK None [] [IHoldExit 0%Z]]) ].
Definition x2 := mkSio [] [] [true; false; true].
Definition mx2 := mkSmu [true; false] [].
Definition sops2 : list sop :=
  [SOp (OTrigger 2 T_READ); SFeed inp1; SOp (OTrigger 0 T_TEST)] ++
  repeat (SOp OService) 120 ++ [SPoke 1 [7; 7]%N; SOp (OHoldExit 0%Z)] ++ repeat (SOp OService) 700.
Definition r2 (n : nat) : sworld := srun D1 (sinit D1 m1 x2 mx2 hs2) (firstn n sops2).

Example ex2_hypotheses :
  wf_desc D1 m1 /\ Forall (valid_sop D1) sops2 /\ d_mutex D1 = true /\
  no_rt_hold hs2 = true /\ script_ok (res_calls_valid D1) hs2 = true /\
  unlock_never_fails mx2 = true /\
  script_ok no_hold_res hs2 = false.            (* a write script holds: allowed *)
Proof.
  split; [exact Properties_C03.Examples.ex_wf|]. split.
  { unfold sops2. repeat (apply Forall_app; split); try (apply Forall_forall; intros o Ho;
      apply repeat_spec in Ho; subst o; exact I); repeat constructor; cbn; lia. }
  repeat split; vm_compute; reflexivity.
Qed.

(* at every point of the scenario: no fault, Safe, J, the script conditions, the queue equation *)
Example ex2_invariants : forall n,
  let w := r2 n in
  fault (st w) = false /\ Safe D1 m1 (st w) /\ J (ctl_of (st w)) /\
  no_rt_hold (hs w) = true /\ script_ok (res_calls_valid D1) (hs w) = true /\
  ring_wf D1 (st w) /\ accepted (hist w) = popped (hist w) ++ ring_items D1 (st w).
Proof.
  intros n. destruct ex2_hypotheses as (WF & F & _ & A & B & U & _).
  assert (Fn : Forall (valid_sop D1) (firstn n sops2)) by exact (Lemmas_Inv.Forall_firstn _ _ n _ F).
  destruct (scenario_inv_scripted D1 m1 x2 mx2 hs2 (firstn n sops2) WF Fn A B) as (H1 & H2 & H3 & H4 & H5).
  destruct (C13_exactly_once_scenario D1 m1 x2 mx2 hs2 (firstn n sops2)) as [H6 H7];
    [cbn; lia | right; exact U | eapply Forall_impl; [|exact Fn]; intros [| | |] H; cbn in *; auto |].
  exact (conj H1 (conj H2 (conj H3 (conj H4 (conj H5 (conj H6 H7)))))).
Qed.

(* what happens: after 123 steps the command is held by the write handler; at the end all input
   is consumed, six result codes were sent, the variables hold 9, the poked 7 7, and "hi";
   three triggers were accepted (the API one refused by the failing lock is not) and delivered *)
Example ex2_run :
  k_state (k (st (r2 123))) = CS_HOLD /\
  (fault (st (r2 825)), k_state (k (st (r2 825))), u_state (u (st (r2 825))), gR (st (r2 825)),
   inq (io (r2 825)), mem (st (r2 825))) =
    (false, CS_IDLE, US_IDLE, 6, [], [[9]; [7; 7]; [104; 105; 0; 0]; []]%N) /\
  accepted (hist (r2 825)) = [(2, T_READ); (2, T_READ); (0, T_TEST)] /\
  popped (hist (r2 825)) = [(2, T_READ); (2, T_READ); (0, T_TEST)] /\
  script_left (hs (r2 825)) = 0.
Proof. vm_compute. repeat split; reflexivity. Qed.

(* ---- C. what the scripted conditions exclude ---- *)
(* the script hs1 of Properties_C03.v lets the READ handler of +X answer HOLD (to the command
   machine, legitimately); the key does not say who asks, so no_rt_hold rejects it *)
Example ex_read_script_with_hold :
  no_rt_hold Properties_C03.Examples.hs1 = false /\
  script_ok (res_calls_valid D1) Properties_C03.Examples.hs1 = true.
Proof. split; vm_compute; reflexivity. Qed.

(* and it has to: a read script with HOLD consumed by the EVENT machine suspends the command
   machine in the middle of a line (here after the A of AT): CS_HOLD with no line terminated,
   so J fails (C14_flag_is_state would give gL = S gR) although there is no fault *)
Definition hH : shs := [((1, 0, 0), [mkHres RC_HOLD None [] []])].
Definition wH : sworld :=
  srun exD (sinit exD [] (mkSio [65; 84; 10]%N [] []) (mkSmu [] []) hH)
       (map SOp [OTrigger 0 T_READ; OService; OService]).
Example cex_event_side_hold :
  no_rt_hold hH = false /\ fault (st wH) = false /\
  k_state (k (st wH)) = CS_HOLD /\ gL (st wH) = 0 /\ gR (st wH) = 0 /\ ~ J (ctl_of (st wH)).
Proof.
  split; [reflexivity|]. split; [reflexivity|]. split; [reflexivity|]. split; [reflexivity|].
  split; [reflexivity|]. intro HJ.
  assert (X := J_held_no_result (st wH) HJ eq_refl). destruct X as [X _]. vm_compute in X. discriminate.
Qed.

(* the mutex of Properties_C16.exW refuses an unlock: not covered by C13_exactly_once_scripted
   (and rightly so, see Properties_C13.C13_cex_unlock) *)
Example ex_failing_unlock : unlock_never_fails (mkSmu [true; false; true; true] [true; false; true]) = false.
Proof. reflexivity. Qed.

End Examples.
