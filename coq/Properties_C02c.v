(* Properties_C02c.v — property C02, the part after the lookup: WHICH HANDLER RUNS.
   Properties_C02.v / Properties_C02e.v establish that the lookup ends in CS_COMMAND_FOUND with
   k_cmd = Spec.resolve ... and k_type = the request type announced by the suffix.  This file adds:
     1. the selection is stable: k_cmd is assigned only in six states (character parsing, the two sweeps,
        the wait for the line end of a read request, the reset, the list printer); from every other
        state — in particular between CS_COMMAND_FOUND and the reset of the line — no operation of the
        public API, with arbitrary oracles, changes k_cmd;
     2. the request type in the handler loops (history invariant, in the domain);
     3. every callback of the command machine is made for the command in k_cmd (claimed from
        EvSkelSim.v), and its kind matches the request type: run handler only in T_RUN, write handler and
        variable write callbacks only in T_WRITE, read handler and variable read callbacks only in
        T_READ, test handler only in T_TEST; at most one callback per step;
     4. histories: every command-side callback recorded in the trace was made inside one cat_service
        operation that found the machine in the callback's state, with k_cmd = its command and k_type =
        its kind's request type; and that selection goes back, without any reset in between, to a
        CS_COMMAND_FOUND state of the history with the same k_cmd.
   What remains prose: that k_cmd in that CS_COMMAND_FOUND state is Spec.resolve of the name typed on
   the current line is C02_resolve (iterated step functions, any state) / C02_dispatch (scripted
   always-ready environment); the two are not composed here for arbitrary oracles.
   Proofs are in Lemmas_Calls.v. *)
From Coq Require Import List NArith ZArith Bool Arith Lia.
From CatV Require Import Bytes Defs Codec Spec Fsm Script Skel SkelSim EvSkelSim Lemmas_C03.
From CatV Require Lemmas_Calls.
Import ListNotations.
Local Open Scope nat_scope.

(* ------------------------------------------------------------------ *)
(* definitions used in the statements                                   *)
(* ------------------------------------------------------------------ *)
(* states whose step may assign k_cmd: prepare_search_command (from PARSE_COMMAND_CHAR, WAIT_READ_ACK
   and, for an implicit write, UPDATE_COMMAND_STATE), search_command, reset_state, print_cmd_list *)
Definition writes_cmd (x : cstate) : bool :=
  match x with
  | CS_PARSE_COMMAND_CHAR | CS_UPDATE_COMMAND_STATE | CS_WAIT_READ_ACK | CS_SEARCH_COMMAND
  | CS_AFTER_RESET | CS_PRINT_CMD => true
  | _ => false
  end.

(* states in which the command machine uses k_cmd (as in Properties_C09.v) *)
Definition uses_cmd (x : cstate) : bool :=
  match x with
  | CS_COMMAND_FOUND | CS_PARSE_COMMAND_ARGS | CS_PARSE_WRITE_ARGS | CS_FORMAT_READ_ARGS
  | CS_WAIT_TEST_ACK | CS_FORMAT_TEST_ARGS | CS_WRITE_LOOP | CS_READ_LOOP | CS_TEST_LOOP
  | CS_RUN_LOOP | CS_AFTER_FMT_READ | CS_AFTER_FMT_TEST => true
  | _ => false
  end.
Definition is_flush (x : cstate) : bool :=
  match x with CS_FLUSH_WAIT | CS_FLUSH => true | _ => false end.
Definition fmt_cont (wa : cstate) : bool :=
  match wa with CS_AFTER_FMT_READ | CS_AFTER_FMT_TEST => true | _ => false end.
(* ... including a flush whose continuation comes back to the selected command *)
Definition needs_cmd (s : state) : bool :=
  uses_cmd (k_state (k s)) || (is_flush (k_state (k s)) && fmt_cont (k_wafter (k s))).

(* which machine a request comes from (true = the event machine) *)
Definition ev_side (q : hreq) : bool :=
  match q with HRead UNSOL _ _ _ _ | HTest UNSOL _ _ _ _ | VRead UNSOL _ _ => true | _ => false end.
(* the request type a callback kind belongs to *)
Definition kind_type (q : hreq) : ctype :=
  match q with
  | HRun _ => T_RUN
  | HWrite _ _ _ _ | VWrite _ _ _ _ => T_WRITE
  | HRead _ _ _ _ _ | VRead _ _ _ => T_READ
  | HTest _ _ _ _ _ => T_TEST
  end.
(* the state of the command machine in which a callback kind is made *)
Definition call_state (q : hreq) : cstate :=
  match q with
  | HRun _ => CS_RUN_LOOP
  | HWrite _ _ _ _ => CS_WRITE_LOOP
  | VWrite _ _ _ _ => CS_PARSE_WRITE_ARGS
  | HRead _ _ _ _ _ => CS_READ_LOOP
  | VRead _ _ _ => CS_FORMAT_READ_ARGS
  | HTest _ _ _ _ _ => CS_TEST_LOOP
  end.

(* the request type of the line, per state (P2) *)
Definition loop_type (s : state) : Prop :=
  match k_state (k s) with
  | CS_RUN_LOOP => k_type (k s) = T_RUN
  | CS_PARSE_COMMAND_ARGS | CS_PARSE_WRITE_ARGS | CS_WRITE_LOOP => k_type (k s) = T_WRITE
  | CS_FORMAT_READ_ARGS | CS_READ_LOOP | CS_AFTER_FMT_READ => k_type (k s) = T_READ
  | CS_WAIT_TEST_ACK | CS_FORMAT_TEST_ARGS | CS_TEST_LOOP | CS_AFTER_FMT_TEST => k_type (k s) = T_TEST
  | CS_FLUSH_WAIT | CS_FLUSH =>
    (k_wafter (k s) = CS_AFTER_RESET \/ k_wafter (k s) = CS_AFTER_OK \/ k_wafter (k s) = CS_AFTER_FMT_READ \/
     k_wafter (k s) = CS_AFTER_FMT_TEST \/ k_wafter (k s) = CS_PRINT_CMD) /\
    (k_wafter (k s) = CS_AFTER_FMT_READ -> k_type (k s) = T_READ) /\
    (k_wafter (k s) = CS_AFTER_FMT_TEST -> k_type (k s) = T_TEST)
  | _ => True
  end.

Section C02c.
Variable D : desc.
Variables ioS muS hS : Type.
Variable io_read : ioS -> ioS * option N.
Variable io_write : ioS -> N -> ioS * bool.
Variable mu_lock : muS -> muS * bool.
Variable mu_unlock : muS -> muS * bool.
Variable h_call : hS -> hreq -> hS * hres.

Local Notation world := (Fsm.world ioS muS hS).
Local Notation st := (Fsm.st ioS muS hS).
Local Notation tr := (Fsm.tr ioS muS hS).
Local Notation mkWorld := (Fsm.mkWorld ioS muS hS).
Local Notation unsolicited_events_service :=
  (Fsm.unsolicited_events_service D ioS muS hS io_write mu_lock mu_unlock h_call).
Local Notation cmd_service := (Fsm.cmd_service D ioS muS hS io_read io_write mu_lock mu_unlock h_call).
Local Notation service_body := (Fsm.service_body D ioS muS hS io_read io_write mu_lock mu_unlock h_call).
Local Notation do_op := (Fsm.do_op D ioS muS hS io_read io_write mu_lock mu_unlock h_call).
Local Notation run := (Fsm.run D ioS muS hS io_read io_write mu_lock mu_unlock h_call).

(* ------------------------------------------------------------------ *)
(* 1. the selection is stable (any world, any oracles, faults and event-side HOLD included)          *)
(* ------------------------------------------------------------------ *)
Theorem C02_selection_stable : forall w : world,
  writes_cmd (k_state (k (st w))) = false ->
  k_cmd (k (st (fst (service_body w)))) = k_cmd (k (st w)).
Proof. exact (Lemmas_Calls.service_body_keeps_cmd D ioS muS hS io_read io_write mu_lock mu_unlock h_call). Qed.

(* the same for the two machines separately and for every operation of the public API *)
Theorem C02_selection_stable_cmd : forall w : world,
  writes_cmd (k_state (k (st w))) = false ->
  k_cmd (k (st (fst (cmd_service w)))) = k_cmd (k (st w)).
Proof. exact (Lemmas_Calls.cmd_service_keeps_cmd D ioS muS hS io_read io_write mu_lock mu_unlock h_call). Qed.

Theorem C02_selection_stable_events : forall w : world,
  k_cmd (k (st (fst (unsolicited_events_service w)))) = k_cmd (k (st w)).
Proof. exact (Lemmas_Calls.uns_keeps_cmd D ioS muS hS io_write mu_lock mu_unlock h_call). Qed.

Theorem C02_selection_stable_op : forall (w : world) o,
  writes_cmd (k_state (k (st w))) = false ->
  k_cmd (k (st (fst (do_op w o)))) = k_cmd (k (st w)).
Proof. exact (Lemmas_Calls.do_op_keeps_cmd D ioS muS hS io_read io_write mu_lock mu_unlock h_call). Qed.

(* between CS_COMMAND_FOUND and the reset: none of the states that need the command assigns it *)
Theorem C02_needs_not_writer : forall s, needs_cmd s = true -> writes_cmd (k_state (k s)) = false.
Proof. exact Lemmas_Calls.needs_not_writer. Qed.

(* ------------------------------------------------------------------ *)
(* 3a. one step of the command machine (claimed from EvSkelSim.v; any world, any oracles)             *)
(* ------------------------------------------------------------------ *)
Theorem C02_callbacks_concern_selected_cmd : forall (w : world) evs q code,
  tr (fst (cmd_service w)) = evs ++ tr w -> In (ECall q code) evs ->
  k_cmd (k (st w)) = Some (req_cmd q).
Proof.
  exact (EvSkelSim.callbacks_concern_selected_cmd D ioS muS hS io_read io_write mu_lock mu_unlock h_call).
Qed.

Theorem C02_one_callback_per_step : forall (w : world) evs,
  tr (fst (cmd_service w)) = evs ++ tr w ->
  length (filter (fun e => match e with ECall _ _ => true | _ => false end) evs) <= 1.
Proof.
  exact (EvSkelSim.one_callback_per_step D ioS muS hS io_read io_write mu_lock mu_unlock h_call).
Qed.

(* 3b. ... and its kind: made in the state of that kind, for the request type of that kind *)
Theorem C02_calls_of_step : forall (w : world) evs q code,
  loop_type (st w) ->
  tr (fst (cmd_service w)) = evs ++ tr w -> In (ECall q code) evs ->
  k_cmd (k (st w)) = Some (req_cmd q) /\ k_state (k (st w)) = call_state q /\
  k_type (k (st w)) = kind_type q /\ ev_side q = false.
Proof.
  intros w evs q code H.
  apply (Lemmas_Calls.calls_of_step D ioS muS hS io_read io_write mu_lock mu_unlock h_call).
  apply Lemmas_Calls.loop_type_JT. exact H.
Qed.

(* ------------------------------------------------------------------ *)
(* 2, 4. histories in the domain                                        *)
(* ------------------------------------------------------------------ *)
(* D3: event-side handlers do not return HOLD; events triggered from handlers name pool commands *)
Hypothesis no_uhold : forall hs q, unsol_req q = true -> r_code (snd (h_call hs q)) <> RC_HOLD.
Hypothesis handlers_valid : forall hs q, Forall (valid_icall D) (r_calls (snd (h_call hs q))).

(* 2. the request type in the argument, formatting and handler-loop states *)
Theorem C02_loop_type : forall m x mx h ops,
  wf_desc D m -> Forall (valid_op D) ops ->
  loop_type (st (run (mkWorld (init_state D m) x mx h []) ops)).
Proof.
  intros m x mx h ops WF F. apply Lemmas_Calls.JT_loop_type.
  exact (Lemmas_Calls.JT_in_domain D ioS muS hS io_read io_write mu_lock mu_unlock h_call
           no_uhold handlers_valid m x mx h ops WF F).
Qed.

(* 4a. every command-side callback of a history: the cat_service operation that made it found the
   command machine in the callback's state, with that command selected and the matching request type *)
Theorem C02_calls_history : forall m x mx h ops q code,
  wf_desc D m -> Forall (valid_op D) ops ->
  let w0 := mkWorld (init_state D m) x mx h [] in
  In (ECall q code) (tr (run w0 ops)) -> ev_side q = false ->
  exists ops1 ops2 evs, ops = ops1 ++ OService :: ops2 /\
    tr (run w0 (ops1 ++ [OService])) = evs ++ tr (run w0 ops1) /\ In (ECall q code) evs /\
    let s := st (run w0 ops1) in
    k_cmd (k s) = Some (req_cmd q) /\ k_state (k s) = call_state q /\ k_type (k s) = kind_type q.
Proof.
  exact (Lemmas_Calls.calls_history D ioS muS hS io_read io_write mu_lock mu_unlock h_call
           no_uhold handlers_valid).
Qed.

(* 4b. a state that needs the selected command got it in CS_COMMAND_FOUND, on the same line: the
   history splits at a CS_COMMAND_FOUND state with the same k_cmd, and every state since needs it
   (so no reset, no new lookup, no list printer in between) *)
Theorem C02_selection_origin : forall m x mx h ops,
  wf_desc D m -> Forall (valid_op D) ops ->
  let w0 := mkWorld (init_state D m) x mx h [] in
  needs_cmd (st (run w0 ops)) = true ->
  exists ops1 ops2, ops = ops1 ++ ops2 /\
    k_state (k (st (run w0 ops1))) = CS_COMMAND_FOUND /\
    k_cmd (k (st (run w0 ops1))) = k_cmd (k (st (run w0 ops))) /\
    forall n, n <= length ops2 -> needs_cmd (st (run w0 (ops1 ++ firstn n ops2))) = true.
Proof.
  exact (Lemmas_Calls.selection_origin D ioS muS hS io_read io_write mu_lock mu_unlock h_call
           no_uhold handlers_valid).
Qed.

(* 4c. composed: the command whose handler or variable callback runs is the one that was in k_cmd when
   CS_COMMAND_FOUND was entered on this line; the callback's kind is the one of the line's request type *)
Theorem C02_calls_selected : forall m x mx h ops q code,
  wf_desc D m -> Forall (valid_op D) ops ->
  let w0 := mkWorld (init_state D m) x mx h [] in
  In (ECall q code) (tr (run w0 ops)) -> ev_side q = false ->
  exists ops0 opsm ops2, ops = ops0 ++ opsm ++ OService :: ops2 /\
    k_state (k (st (run w0 ops0))) = CS_COMMAND_FOUND /\
    k_cmd (k (st (run w0 ops0))) = Some (req_cmd q) /\
    (forall n, n <= length opsm -> needs_cmd (st (run w0 (ops0 ++ firstn n opsm))) = true) /\
    let s := st (run w0 (ops0 ++ opsm)) in
    k_cmd (k s) = Some (req_cmd q) /\ k_state (k s) = call_state q /\ k_type (k s) = kind_type q.
Proof.
  exact (Lemmas_Calls.calls_selected D ioS muS hS io_read io_write mu_lock mu_unlock h_call
           no_uhold handlers_valid).
Qed.

End C02c.

(* 4d. without the domain (any oracles, any descriptor, faults allowed): the state and the selected
   command at the start of the cat_service operation that made a command-side callback; an event-side
   callback is made for the event being processed *)
Theorem C02_calls_history_any : forall (D : desc) (ioS muS hS : Type)
  (io_read : ioS -> ioS * option N) (io_write : ioS -> N -> ioS * bool)
  (mu_lock mu_unlock : muS -> muS * bool) (h_call : hS -> hreq -> hS * hres)
  (w0 : world ioS muS hS) ops q code,
  tr ioS muS hS w0 = [] ->
  In (ECall q code) (tr ioS muS hS (run D ioS muS hS io_read io_write mu_lock mu_unlock h_call w0 ops)) ->
  exists ops1 ops2, ops = ops1 ++ OService :: ops2 /\
    let s := st ioS muS hS (run D ioS muS hS io_read io_write mu_lock mu_unlock h_call w0 ops1) in
    if ev_side q then u_cmd (u s) = Some (req_cmd q)
    else k_cmd (k s) = Some (req_cmd q) /\ k_state (k s) = call_state q.
Proof. exact Lemmas_Calls.calls_history_any. Qed.

Print Assumptions C02_selection_stable.
Print Assumptions C02_selection_stable_cmd.
Print Assumptions C02_selection_stable_events.
Print Assumptions C02_selection_stable_op.
Print Assumptions C02_needs_not_writer.
Print Assumptions C02_callbacks_concern_selected_cmd.
Print Assumptions C02_one_callback_per_step.
Print Assumptions C02_calls_of_step.
Print Assumptions C02_loop_type.
Print Assumptions C02_calls_history.
Print Assumptions C02_selection_origin.
Print Assumptions C02_calls_selected.
Print Assumptions C02_calls_history_any.

(* ------------------------------------------------------------------ *)
(* non-vacuity                                                          *)
(* ------------------------------------------------------------------ *)
Module Examples.

(* command 0 "+SET": one uint8 variable with a write callback, a write handler and a read handler;
   command 1 "+GO": a run handler and a test handler *)
Definition v_set := mkVar None VUint 1 RW true true 0.
Definition exD : desc :=
  mkDesc [[mkCmd [43; 83; 69; 84]%N None true true false false [v_set] false false false;
           mkCmd [43; 71; 79]%N None false false true true [] false false false]]
         [] 32 None 0%N 2 false.
Definition exM : list (list N) := [[7%N]].

(* handlers that satisfy the two oracle hypotheses in EVERY handler state: they count their calls and
   answer OK / 0, with no API call from inside *)
Definition ex_call (n : nat) (q : hreq) : nat * hres := (S n, default_res q).

Example ex_no_uhold : forall hs q, unsol_req q = true -> r_code (snd (ex_call hs q)) <> RC_HOLD.
Proof. intros hs q _. destruct q; discriminate. Qed.
Example ex_handlers_valid : forall hs q, Forall (valid_icall exD) (r_calls (snd (ex_call hs q))).
Proof. intros hs q. destruct q; constructor. Qed.
Example ex_wf : wf_desc exD exM.
Proof.
  unfold wf_desc. cbn. repeat split; try lia;
    repeat constructor; unfold wf_var, hexbuf_nonempty; cbn; eauto; try discriminate; try lia.
Qed.

(* AT+SET=5  AT+GO  AT+SET?  AT+GO=? *)
Definition exLine : list N :=
  [65;84;43;83;69;84;61;53;10; 65;84;43;71;79;10; 65;84;43;83;69;84;63;10; 65;84;43;71;79;61;63;10]%N.
Definition exOps (n : nat) : list op := repeat OService n.
Definition exW0 : world sio smu nat :=
  mkWorld sio smu nat (init_state exD exM) (mkSio exLine [] []) (mkSmu [] []) 0 [].
Definition exRun (n : nat) : world sio smu nat :=
  run exD sio smu nat s_read s_write s_lock s_unlock ex_call exW0 (exOps n).
Definition ex_calls (w : world sio smu nat) : list hreq :=
  flat_map (fun e => match e with ECall q _ => [q] | _ => [] end) (rev (tr _ _ _ w)).

Example ex_valid_ops : Forall (valid_op exD) (exOps 400).
Proof. apply Forall_forall. intros o H. apply repeat_spec in H. subst o. exact I. Qed.

(* the write line calls the variable's write callback, then the write handler; the run line the run
   handler; the read line the variable's read callback, then the read handler; the test line the test
   handler: one kind per request type, always for the command named on the line *)
Example ex_trace :
  ex_calls (exRun 400) =
  [VWrite 0 0 1 [5%N]; HWrite 0 [53; 0]%N 1 1; HRun 1; VRead ATCMD 0 0;
   HRead ATCMD 0 [43; 83; 69; 84; 61; 53; 0]%N 6 16; HTest ATCMD 1 [43; 71; 79; 61; 0]%N 4 16] /\
  k_state (k (st _ _ _ (exRun 400))) = CS_IDLE /\ fault (st _ _ _ (exRun 400)) = false.
Proof. vm_compute. repeat split; reflexivity. Qed.

(* an instance of the hypotheses and of the witnesses of C02_calls_selected: the write handler's call
   was made by service call number 21; CS_COMMAND_FOUND was entered by call number 16 with k_cmd = 0 *)
Example ex_selected :
  In (ECall (HWrite 0 [53; 0]%N 1 1) RC_OK) (tr _ _ _ (exRun 21)) /\
  (let s := st _ _ _ (exRun 20) in
   k_cmd (k s) = Some 0 /\ k_state (k s) = CS_WRITE_LOOP /\ k_type (k s) = T_WRITE) /\
  (let s := st _ _ _ (exRun 16) in k_state (k s) = CS_COMMAND_FOUND /\ k_cmd (k s) = Some 0) /\
  forallb (fun n => needs_cmd (st _ _ _ (exRun n))) (seq 16 5) = true /\
  ex_calls (exRun 20) = [VWrite 0 0 1 [5%N]] /\
  ex_calls (exRun 21) = [VWrite 0 0 1 [5%N]; HWrite 0 [53; 0]%N 1 1].
Proof. vm_compute. repeat split; try reflexivity. repeat (first [left; reflexivity | right]). Qed.

(* the stability hypothesis: writes_cmd is false in all the states of the write line from
   CS_COMMAND_FOUND to the final flush, and k_cmd stays 0 *)
Example ex_stable :
  map (fun n => k_cmd (k (st _ _ _ (exRun n)))) (seq 16 13) = repeat (Some 0) 13 /\
  forallb (fun n => negb (writes_cmd (k_state (k (st _ _ _ (exRun n)))))) (seq 16 13) = true.
Proof. vm_compute. split; reflexivity. Qed.

End Examples.
