(* driver.ml — runs the extracted Coq model (catmodel_ext) on scenario files and
   prints the canonical trace, in exactly the format of harness/cdriver.c.
   Only glue: parsing, number conversion, printing.  All behaviour comes from
   the extracted definitions. *)
open Catmodel_ext

(* ---------- number conversions ---------- *)
let rec nat_of_int (i : int) : nat = if i <= 0 then O else S (nat_of_int (i - 1))
let rec int_of_nat (n : nat) : int = match n with O -> 0 | S m -> 1 + int_of_nat m

let rec pos_of_int (i : int) : positive =
  if i <= 1 then XH
  else if i land 1 = 0 then XO (pos_of_int (i lsr 1))
  else XI (pos_of_int (i lsr 1))
let rec int_of_pos (p : positive) : int =
  match p with XH -> 1 | XO q -> 2 * int_of_pos q | XI q -> 2 * int_of_pos q + 1
let n_of_int (i : int) : n = if i = 0 then N0 else Npos (pos_of_int i)
let int_of_n (x : n) : int = match x with N0 -> 0 | Npos p -> int_of_pos p
let z_of_int (i : int) : z =
  if i = 0 then Z0 else if i > 0 then Zpos (pos_of_int i) else Zneg (pos_of_int (-i))
let int_of_z (x : z) : int =
  match x with Z0 -> 0 | Zpos p -> int_of_pos p | Zneg p -> - (int_of_pos p)

(* ---------- hex strings ---------- *)
let hexval c =
  match c with
  | '0' .. '9' -> Char.code c - 48
  | 'a' .. 'f' -> Char.code c - 87
  | 'A' .. 'F' -> Char.code c - 55
  | _ -> failwith "bad hex"
let bytes_of_hex (s : string) : n list =
  if s = "E" || s = "-" then []
  else begin
    let l = ref [] in
    let len = String.length s / 2 in
    for i = len - 1 downto 0 do
      l := n_of_int (hexval s.[2 * i] * 16 + hexval s.[2 * i + 1]) :: !l
    done;
    !l
  end
let opt_bytes_of_hex (s : string) : n list option =
  if s = "-" then None else Some (bytes_of_hex s)
let hex_of_bytes (l : n list) : string =
  if l = [] then "E"
  else String.concat "" (List.map (fun b -> Printf.sprintf "%02x" (int_of_n b)) l)
let bits_of_string (s : string) : bool list =
  if s = "-" then []
  else List.init (String.length s) (fun i -> s.[i] = '1')

(* ---------- enumerations ---------- *)
let vtype_of_int = function
  | 0 -> VInt | 1 -> VUint | 2 -> VHex | 3 -> VBufHex | 4 -> VBufStr | _ -> failwith "vtype"
let vaccess_of_int = function 0 -> RW | 1 -> RO | 2 -> WO | _ -> failwith "access"
let ctype_of_int = function
  | -1 -> T_NONE | 0 -> T_RUN | 1 -> T_READ | 2 -> T_WRITE | 3 -> T_TEST | 4 -> T_TOTAL
  | _ -> failwith "ctype"
let int_of_ctype = function
  | T_NONE -> -1 | T_RUN -> 0 | T_READ -> 1 | T_WRITE -> 2 | T_TEST -> 3 | T_TOTAL -> 4
let fsm_of_int = function 0 -> ATCMD | _ -> UNSOL
let int_of_fsm = function ATCMD -> 0 | UNSOL -> 1
let b01 b = if b then 1 else 0

(* ---------- scenario ---------- *)
type vline = { vl_type : int; vl_size : int; vl_access : int; vl_hr : bool; vl_hw : bool;
               vl_name : n list option; vl_init : n list }

type scn = {
  mutable name : string;
  mutable cap : int;
  mutable buf_size : int;
  mutable ubuf_size : int;       (* -1 = shared *)
  mutable fill : int;
  mutable mutex : bool;
  mutable vars : vline list;     (* reversed *)
  mutable groups : cmd list list; (* reversed groups, each reversed *)
  mutable gnames : n list option list; (* reversed: optional name of each group *)
  mutable extra : cmd list;      (* reversed *)
  mutable scripts : (hkey * hres list) list; (* reversed *)
  mutable rd : bool list; mutable wr : bool list; mutable lk : bool list; mutable ul : bool list;
}

let new_scn () = { name = ""; cap = 1; buf_size = 64; ubuf_size = -1; fill = 0; mutex = false;
                   vars = []; groups = []; gnames = []; extra = []; scripts = [];
                   rd = []; wr = []; lk = []; ul = [] }

let split_ws (s : string) : string list =
  List.filter (fun x -> x <> "") (String.split_on_char ' ' (String.trim s))

let ios = int_of_string

let mk_cmd (sc : scn) (toks : string list) : cmd =
  match toks with
  | name :: descr :: hw :: hr :: hrun :: ht :: na :: ot :: imp :: nv :: slots ->
    let vars_arr = Array.of_list (List.rev sc.vars) in
    let nvars = ios nv in
    let slots = List.filteri (fun i _ -> i < nvars) slots in
    let mkv slot_s =
      let slot = ios slot_s in
      let v = vars_arr.(slot) in
      { v_name = v.vl_name; v_type = vtype_of_int v.vl_type; v_size = nat_of_int v.vl_size;
        v_access = vaccess_of_int v.vl_access; v_hread = v.vl_hr; v_hwrite = v.vl_hw;
        v_slot = nat_of_int slot } in
    { c_name = bytes_of_hex name; c_descr = opt_bytes_of_hex descr;
      c_hwrite = (hw = "1"); c_hread = (hr = "1"); c_hrun = (hrun = "1"); c_htest = (ht = "1");
      c_vars = List.map mkv slots;
      c_need_all = (na = "1"); c_only_test = (ot = "1"); c_implicit = (imp = "1") }
  | _ -> failwith "cmd line"

(* res <code> <edit> <npokes> (<slot> <hex>)* <ncalls> (T <ci> <type> | X <status>)* *)
let parse_res (toks : string list) : hres =
  match toks with
  | code :: edit :: rest ->
    let np, rest = (match rest with x :: r -> (ios x, r) | [] -> (0, [])) in
    let rec pokes k rest acc =
      if k = 0 then (List.rev acc, rest)
      else match rest with
        | slot :: hx :: r -> pokes (k - 1) r ((nat_of_int (ios slot), bytes_of_hex hx) :: acc)
        | _ -> failwith "poke" in
    let pk, rest = pokes np rest [] in
    let nc, rest = (match rest with x :: r -> (ios x, r) | [] -> (0, [])) in
    let rec calls k rest acc =
      if k = 0 then List.rev acc
      else match rest with
        | "T" :: ci :: ty :: r -> calls (k - 1) r (ITrigger (nat_of_int (ios ci), ctype_of_int (ios ty)) :: acc)
        | "X" :: st :: r -> calls (k - 1) r (IHoldExit (z_of_int (ios st)) :: acc)
        | _ -> failwith "icall" in
    { r_code = z_of_int (ios code); r_edit = opt_bytes_of_hex edit; r_pokes = pk;
      r_calls = calls nc rest [] }
  | _ -> failwith "res line"

(* ---------- printing ---------- *)
let out = Buffer.create 65536

let pr fmt = Printf.bprintf out fmt

let ghost = ref false

let print_event (e : event) : unit =
  match e with
  | ERd None -> pr "R -\n"
  | ERd (Some b) -> pr "R %02x\n" (int_of_n b)
  | EWr (_, ch, ok) -> pr "W %02x %d\n" (int_of_n ch) (b01 ok)
  | ELock ok -> pr "L %d\n" (b01 ok)
  | EUnlock ok -> pr "U %d\n" (b01 ok)
  | ECall (q, code) ->
    (match q with
     | HWrite (ci, data, len, an) ->
       pr "H w %d %s %d %d -> %d\n" (int_of_nat ci) (hex_of_bytes data) (int_of_nat len)
         (int_of_nat an) (int_of_z code)
     | HRead (f, ci, text, pos, cp) ->
       pr "H r %d %d %s %d %d -> %d\n" (int_of_fsm f) (int_of_nat ci) (hex_of_bytes text)
         (int_of_nat pos) (int_of_nat cp) (int_of_z code)
     | HTest (f, ci, text, pos, cp) ->
       pr "H t %d %d %s %d %d -> %d\n" (int_of_fsm f) (int_of_nat ci) (hex_of_bytes text)
         (int_of_nat pos) (int_of_nat cp) (int_of_z code)
     | HRun ci -> pr "H n %d -> %d\n" (int_of_nat ci) (int_of_z code)
     | VRead (_, ci, vi) ->
       pr "V r %d %d -> %d\n" (int_of_nat ci) (int_of_nat vi) (int_of_z code)
     | VWrite (ci, vi, ws, stored) ->
       pr "V w %d %d %d %s -> %d\n" (int_of_nat ci) (int_of_nat vi) (int_of_nat ws)
         (hex_of_bytes stored) (int_of_z code))
  | EInner (c, r) ->
    (match c with
     | ITrigger (ci, t) -> pr "I t %d %d = %d\n" (int_of_nat ci) (int_of_ctype t) (int_of_z r)
     | IHoldExit s -> pr "I x %d = %d\n" (int_of_z s) (int_of_z r))
  | EPop (ci, t) -> if !ghost then pr "# pop %d %d\n" (int_of_nat ci) (int_of_ctype t)
  | ERet (o, r) ->
    let code = match o with
      | OService -> "s" | OTrigger _ -> "t" | OHoldExit _ -> "x" | OIsBusy -> "b" | OIsHold -> "h"
      | OIsFull -> "u" | OIsBuffered _ -> "q" | OGetProcessed _ -> "g"
      | OSetCmdDisable _ -> "dc" | OSetGroupDisable _ -> "dg" in
    pr "= %s %d\n" code (int_of_z r)


(* run one operation; print new events and memory changes; return the status of the op *)
let executed : sop list ref = ref []
let exec (d : desc) (w : sworld ref) (o : sop) : int =
  executed := o :: !executed;
  let before = !w in
  let w' = sstep d before o in
  let old_len = List.length (tr before) and new_len = List.length (tr w') in
  let rec take k l acc = if k = 0 then acc else match l with x :: r -> take (k - 1) r (x :: acc) | [] -> acc in
  let fresh = take (new_len - old_len) (tr w') [] in   (* oldest first *)
  List.iter print_event fresh;
  let m0 = (st before).mem and m1 = (st w').mem in
  List.iteri (fun i d1 -> let d0 = List.nth m0 i in if d0 <> d1 then pr "M %d %s\n" i (hex_of_bytes d1)) m1;
  if (st w').fault && not (st before).fault then pr "FAULT\n";
  if !ghost then
    pr "# L=%d S=%d R=%d\n" (int_of_nat (st w').gL) (int_of_nat (st w').gS) (int_of_nat (st w').gR);
  w := w';
  match (match tr w' with ERet (_, r) :: _ when new_len > old_len -> Some r | _ -> None) with
  | Some r -> int_of_z r
  | None -> 0


(* ---------- Coq term printers (for the in-Coq cross-check of extraction, --coq FILE) ---------- *)
let coq_out : out_channel option ref = ref None
let coq_count = ref 0
let coq_max = ref 0
let cN (x : n) = Printf.sprintf "%d%%N" (int_of_n x)
let cZ (x : z) = Printf.sprintf "(%d)%%Z" (int_of_z x)
let cnat (x : nat) = Printf.sprintf "%d" (int_of_nat x)
let cbool b = if b then "true" else "false"
let clist f l = "[" ^ String.concat "; " (List.map f l) ^ "]"
let copt f = function None -> "None" | Some x -> "(Some " ^ f x ^ ")"
let cbytes l = clist cN l
let cvtype = function VInt -> "VInt" | VUint -> "VUint" | VHex -> "VHex" | VBufHex -> "VBufHex" | VBufStr -> "VBufStr"
let cacc = function RW -> "RW" | RO -> "RO" | WO -> "WO"
let cctype = function T_NONE -> "T_NONE" | T_RUN -> "T_RUN" | T_READ -> "T_READ" | T_WRITE -> "T_WRITE" | T_TEST -> "T_TEST" | T_TOTAL -> "T_TOTAL"
let cfsm = function ATCMD -> "ATCMD" | UNSOL -> "UNSOL"
let cvar (v : var) = Printf.sprintf "(mkVar %s %s %s %s %s %s %s)" (copt cbytes v.v_name) (cvtype v.v_type)
    (cnat v.v_size) (cacc v.v_access) (cbool v.v_hread) (cbool v.v_hwrite) (cnat v.v_slot)
let ccmd (c : cmd) = Printf.sprintf "(mkCmd %s %s %s %s %s %s %s %s %s %s)" (cbytes c.c_name) (copt cbytes c.c_descr)
    (cbool c.c_hwrite) (cbool c.c_hread) (cbool c.c_hrun) (cbool c.c_htest) (clist cvar c.c_vars)
    (cbool c.c_need_all) (cbool c.c_only_test) (cbool c.c_implicit)
let cdesc (d : desc) = Printf.sprintf "(mkDesc %s %s %s %s %s %s %s)" (clist (clist ccmd) d.d_groups) (clist ccmd d.d_extra)
    (cnat d.d_buf_size) (copt cnat d.d_ubuf_size) (cN d.d_fill) (cnat d.d_cap) (cbool d.d_mutex)
let cicall = function
  | ITrigger (ci, t) -> Printf.sprintf "(ITrigger %s %s)" (cnat ci) (cctype t)
  | IHoldExit z -> Printf.sprintf "(IHoldExit %s)" (cZ z)
let chres (r : hres) = Printf.sprintf "(mkHres %s %s %s %s)" (cZ r.r_code) (copt cbytes r.r_edit)
    (clist (fun (sl, b) -> Printf.sprintf "(%s, %s)" (cnat sl) (cbytes b)) r.r_pokes) (clist cicall r.r_calls)
let cop = function
  | OService -> "OService" | OTrigger (ci, t) -> Printf.sprintf "(OTrigger %s %s)" (cnat ci) (cctype t)
  | OHoldExit z -> Printf.sprintf "(OHoldExit %s)" (cZ z) | OIsBusy -> "OIsBusy" | OIsHold -> "OIsHold"
  | OIsFull -> "OIsFull" | OIsBuffered (ci, t) -> Printf.sprintf "(OIsBuffered %s %s)" (cnat ci) (cctype t)
  | OGetProcessed f -> Printf.sprintf "(OGetProcessed %s)" (cfsm f)
  | OSetCmdDisable (i, b) -> Printf.sprintf "(OSetCmdDisable %s %s)" (cnat i) (cbool b)
  | OSetGroupDisable (i, b) -> Printf.sprintf "(OSetGroupDisable %s %s)" (cnat i) (cbool b)
let csop = function
  | SOp o -> "(SOp " ^ cop o ^ ")" | SFeed b -> "(SFeed " ^ cbytes b ^ ")"
  | SPoke (sl, b) -> Printf.sprintf "(SPoke %s %s)" (cnat sl) (cbytes b) | SReinit -> "SReinit"
let chreq = function
  | HWrite (ci, d, l, a) -> Printf.sprintf "(HWrite %s %s %s %s)" (cnat ci) (cbytes d) (cnat l) (cnat a)
  | HRead (f, ci, t, p, c) -> Printf.sprintf "(HRead %s %s %s %s %s)" (cfsm f) (cnat ci) (cbytes t) (cnat p) (cnat c)
  | HTest (f, ci, t, p, c) -> Printf.sprintf "(HTest %s %s %s %s %s)" (cfsm f) (cnat ci) (cbytes t) (cnat p) (cnat c)
  | HRun ci -> Printf.sprintf "(HRun %s)" (cnat ci)
  | VRead (f, ci, vi) -> Printf.sprintf "(VRead %s %s %s)" (cfsm f) (cnat ci) (cnat vi)
  | VWrite (ci, vi, ws, st) -> Printf.sprintf "(VWrite %s %s %s %s)" (cnat ci) (cnat vi) (cnat ws) (cbytes st)
let cevent = function
  | ERd r -> "(ERd " ^ copt cN r ^ ")"
  | EWr (f, ch, ok) -> Printf.sprintf "(EWr %s %s %s)" (cfsm f) (cN ch) (cbool ok)
  | ELock ok -> "(ELock " ^ cbool ok ^ ")" | EUnlock ok -> "(EUnlock " ^ cbool ok ^ ")"
  | ECall (q, c) -> Printf.sprintf "(ECall %s %s)" (chreq q) (cZ c)
  | EInner (c, r) -> Printf.sprintf "(EInner %s %s)" (cicall c) (cZ r)
  | ERet (o, r) -> Printf.sprintf "(ERet %s %s)" (cop o) (cZ r)
  | EPop (ci, t) -> Printf.sprintf "(EPop %s %s)" (cnat ci) (cctype t)
let ckey ((a, b), c) = Printf.sprintf "(%s, %s, %s)" (cnat a) (cnat b) (cnat c)
let emit_coq (sc_name : string) (d : desc) mem (x : sio) (mx : smu) (h : shs) (ops : sop list) (w : sworld) : unit =
  match !coq_out with
  | Some oc when !coq_count < !coq_max ->
    incr coq_count;
    let i = !coq_count in
    Printf.fprintf oc "(* %s *)\nDefinition D%d := %s.\n" sc_name i (cdesc d);
    Printf.fprintf oc "Definition w%d := sinit D%d %s (mkSio [] %s %s) (mkSmu %s %s) %s.\n" i i
      (clist cbytes mem) (clist cbool x.rd_sched) (clist cbool x.wr_sched)
      (clist cbool mx.lock_sched) (clist cbool mx.unlock_sched)
      (clist (fun (k, l) -> Printf.sprintf "(%s, %s)" (ckey k) (clist chres l)) h);
    Printf.fprintf oc "Definition ops%d : list sop := %s.\n" i (clist csop ops);
    Printf.fprintf oc "Goal let w := srun D%d w%d ops%d in (tr _ _ _ w, mem (st _ _ _ w), (gL (st _ _ _ w), gS (st _ _ _ w), gR (st _ _ _ w)), fault (st _ _ _ w)) = (%s, %s, (%s, %s, %s), %s).\nProof. vm_compute. reflexivity. Qed.\n\n"
      i i i (clist cevent (tr w)) (clist cbytes (st w).mem) (cnat (st w).gL) (cnat (st w).gS) (cnat (st w).gR) (cbool (st w).fault)
  | _ -> ()

let run_scenario (sc : scn) (ops : string list list) : unit =
  let groups = List.rev_map List.rev sc.groups in
  let d = { d_groups = groups; d_extra = List.rev sc.extra;
            d_buf_size = nat_of_int sc.buf_size;
            d_ubuf_size = (if sc.ubuf_size < 0 then None else Some (nat_of_int sc.ubuf_size));
            d_fill = n_of_int sc.fill; d_cap = nat_of_int sc.cap; d_mutex = sc.mutex } in
  let mem = List.map (fun v -> v.vl_init) (List.rev sc.vars) in
  let x0 = { inq = []; rd_sched = sc.rd; wr_sched = sc.wr } in
  let mx0 = { lock_sched = sc.lk; unlock_sched = sc.ul } in
  let h0 = List.rev sc.scripts in
  let w = ref (sinit d mem x0 mx0 h0) in
  executed := [];
  pr "scn %s\n" sc.name;
  List.iter (fun toks ->
      pr "> %s\n" (String.concat " " toks);
      match toks with
      | [ "s" ] -> ignore (exec d w (SOp OService))
      | [ "S"; k ] -> for _ = 1 to ios k do ignore (exec d w (SOp OService)) done
      | [ "D"; k ] ->
        (* drain: call service until it returns OK (0) with no unread input left, at most k times *)
        let rec go i =
          if i < ios k then begin
            let st = exec d w (SOp OService) in
            if not (st = 0 && (io !w).inq = []) then go (i + 1)
          end in
        go 0
      | [ "f"; hx ] -> ignore (exec d w (SFeed (bytes_of_hex hx)))
      | [ "t"; ci; ty ] -> ignore (exec d w (SOp (OTrigger (nat_of_int (ios ci), ctype_of_int (ios ty)))))
      | [ "x"; s ] -> ignore (exec d w (SOp (OHoldExit (z_of_int (ios s)))))
      | [ "b" ] -> ignore (exec d w (SOp OIsBusy))
      | [ "h" ] -> ignore (exec d w (SOp OIsHold))
      | [ "u" ] -> ignore (exec d w (SOp OIsFull))
      | [ "q"; ci; ty ] -> ignore (exec d w (SOp (OIsBuffered (nat_of_int (ios ci), ctype_of_int (ios ty)))))
      | [ "g"; f ] -> ignore (exec d w (SOp (OGetProcessed (fsm_of_int (ios f)))))
      | [ "dc"; i; b ] -> ignore (exec d w (SOp (OSetCmdDisable (nat_of_int (ios i), b = "1"))))
      | [ "dg"; i; b ] -> ignore (exec d w (SOp (OSetGroupDisable (nat_of_int (ios i), b = "1"))))
      | [ "p"; slot; hx ] -> ignore (exec d w (SPoke (nat_of_int (ios slot), bytes_of_hex hx)))
      | [ "N" ] | [ "NI" ] -> ignore (exec d w SReinit)
      | [ "sc"; hx ] ->
        (match search_command_by_name d (bytes_of_hex hx) with
         | Some i -> pr "= sc %d\n" (int_of_nat i) | None -> pr "= sc -1\n")
      | [ "sg"; hx ] ->
        (match search_group_by_name (List.rev sc.gnames) (bytes_of_hex hx) with
         | Some i -> pr "= sg %d\n" (int_of_nat i) | None -> pr "= sg -1\n")
      | [ "sv"; ci; hx ] ->
        (match List.nth_opt (List.concat d.d_groups @ d.d_extra) (ios ci) with
         | Some c -> (match search_variable_by_name c (bytes_of_hex hx) with
                      | Some i -> pr "= sv %d\n" (int_of_nat i) | None -> pr "= sv -1\n")
         | None -> pr "= sv -2\n")
      | [ "B" ] -> pr "B %s %s\n" (hex_of_bytes (st !w).cbuf) (hex_of_bytes (st !w).ubuf)
      | _ -> failwith ("bad op: " ^ String.concat " " toks))
    ops;
  emit_coq sc.name d mem x0 mx0 h0 (List.rev !executed) !w;
  pr "end\n"

let () =
  Array.iteri (fun i a ->
      if a = "--ghost" then ghost := true;
      if a = "--coq" && i + 2 < Array.length Sys.argv then begin
        let oc = open_out Sys.argv.(i + 1) in
        output_string oc "From Coq Require Import List NArith ZArith Bool Arith.\nFrom CatV Require Import Bytes Defs Codec Fsm Script.\nImport ListNotations.\n\n";
        coq_out := Some oc; coq_max := int_of_string Sys.argv.(i + 2)
      end) Sys.argv;
  let sc = ref (new_scn ()) in
  let in_ops = ref false in
  let ops = ref [] in
  let cur_script : (hkey * hres list) option ref = ref None in
  let flush_script () =
    match !cur_script with
    | Some (k, l) -> !sc.scripts <- (k, List.rev l) :: !sc.scripts; cur_script := None
    | None -> () in
  (try
     while true do
       let line = input_line stdin in
       let toks = split_ws line in
       (match toks with
        | [] -> ()
        | "scn" :: nm :: _ -> sc := new_scn (); !sc.name <- nm; in_ops := false; ops := []
        | [ "end" ] ->
          flush_script ();
          run_scenario !sc (List.rev !ops);
          Stdlib.print_string (Buffer.contents out); Buffer.clear out
        | _ when !in_ops -> ops := toks :: !ops
        | [ "cap"; c ] -> !sc.cap <- ios c
        | [ "buf"; b; u; f ] -> !sc.buf_size <- ios b; !sc.ubuf_size <- ios u; !sc.fill <- ios f
        | [ "mutex"; m ] -> !sc.mutex <- (m = "1")
        | [ "var"; _slot; ty; sz; acc; hr; hw; nm; init ] ->
          !sc.vars <- { vl_type = ios ty; vl_size = ios sz; vl_access = ios acc; vl_hr = (hr = "1");
                        vl_hw = (hw = "1"); vl_name = opt_bytes_of_hex nm;
                        vl_init = bytes_of_hex init } :: !sc.vars
        | [ "grp" ] -> !sc.groups <- [] :: !sc.groups; !sc.gnames <- None :: !sc.gnames
        | [ "grp"; nm ] -> !sc.groups <- [] :: !sc.groups; !sc.gnames <- opt_bytes_of_hex nm :: !sc.gnames
        | "cmd" :: rest ->
          (match !sc.groups with
           | g :: gs -> !sc.groups <- (mk_cmd !sc rest :: g) :: gs
           | [] -> !sc.groups <- [ [ mk_cmd !sc rest ] ]; !sc.gnames <- [ None ])
        | "xcmd" :: rest -> !sc.extra <- mk_cmd !sc rest :: !sc.extra
        | [ "script"; kind; ci; vi ] ->
          flush_script ();
          cur_script := Some (((nat_of_int (ios kind), nat_of_int (ios ci)), nat_of_int (ios vi)), [])
        | "res" :: rest ->
          (match !cur_script with
           | Some (k, l) -> cur_script := Some (k, parse_res rest :: l)
           | None -> failwith "res without script")
        | [ "rd"; b ] -> !sc.rd <- bits_of_string b
        | [ "wr"; b ] -> !sc.wr <- bits_of_string b
        | [ "lk"; b ] -> !sc.lk <- bits_of_string b
        | [ "ul"; b ] -> !sc.ul <- bits_of_string b
        | [ "ops" ] -> flush_script (); in_ops := true
        | _ -> failwith ("bad line: " ^ line))
     done
   with End_of_file -> ());
  (match !coq_out with Some oc -> close_out oc | None -> ());
  Stdlib.print_string (Buffer.contents out)
