#!/usr/bin/env python3
"""format_translate.py -- translator for the five typed argument FORMATTERS of cat.c
(format_int_decimal, format_uint_decimal, format_num_hexadecimal, format_buffer_hexadecimal,
format_buffer_string) and the three bounded printing helpers they use (print_format_num,
print_nstring_to_buf, print_string_to_buf), and driver of the "format tie": a Coq proof,
re-checked on every run, that the Gallina definitions GENERATED from the C source equal the
HAND-WRITTEN model functions of coq/Codec.v (fmt_var and what it is made of: fmt_int_text,
fmt_uint_text, fmt_hex_text, fmt_bufhex_pieces, str_body_pieces / fmt_bufstr_pieces,
print_nstring, print_num, print_pieces, print_nums).

    python3 tools/format_translate.py /repo/src /verif/build/format /verif/coq

It complements tools/codec_translate.py (the five DECODERS and the two validators), from which
it imports the AST utilities, the C integer semantics (Val / convert / arith) and the statement
translator in continuation-passing style; nothing of codec_translate.py is modified.

Pipeline (all offline: python3 stdlib + clang + coqc)

  cat.c --clang -ast-dump=json--> typed AST --translate_parts()--> FormatGen.v
  coq/FormatTieLib.v  (static: vocabulary, the printf table `render`, the model functions in
                       normal form, run_for and the two DRIVER LEMMAS, the tactic format_tie,
                       the test families)
  coq/FormatTie.v.in  (template) --assemble--> FormatTie_<fn>.v   (theorems tie_*)
  coqc FormatTieLib.v ; coqc FormatGen.v ; coqc FormatTie_<fn>.v (in parallel)
  a tie that fails -> FormatDiag_<fn>.v: generated and model evaluated (vm_compute) on a
  deterministic family of concrete inputs; the first one on which they differ is the WITNESS.

What is generated, and what is proved (coq/FormatTie.v.in)
  * Every function works on the working buffer of ONE machine, chosen by its parameter `fsm`.
    The generated functions take that buffer and its position as (buf : list N) (pos : nat) and
    return FormatTieLib.fres: FFault (undefined behaviour: a store or a load outside an object,
    the position behind the buffer) or FRet buf pos ok (ok = true: the C function returned 0;
    false: -1).  A formatter also takes the selector f : fsm and BOTH variables oa ou : vobj
    (self->var and self->unsolicited_fsm.var, each with its storage), so that code which looks
    at the wrong one differs from the model.
  * helpers (loop-free, translated whole):
        g_print_format_num fmt val buf pos      = m_print_num (render fmt val) buf pos
        g_print_nstring_to_buf str len buf pos  = m_print_nstring (firstn len str) buf pos
                                                  (when len <= length str)
        g_print_string_to_buf str buf pos       = if c_has_nul str then m_print_nstring (..) ..
  * numeric formatters (loop-free, translated whole): under "the variable has the type this
    formatter is dispatched for" (and, for %d, "the storage holds bytes"),
        g_format_int_decimal f oa ou buf pos = m_format (sel f oa ou) buf pos      (= fmt_var)
  * buffer formatters: the `for (i = a; i < b; i++)` loop is FormatTieLib.run_for; its BODY is
    translated into a per-byte step function g_step_<f> f oa ou i buf pos : lres, which is tied to
    the canonical step "print the piece of byte i, return -1 when that fails" (step_num /
    step_piece of the model's per-byte piece); the driver lemmas (proved once) turn that into
    print_nums / print_pieces over the list of pieces, hence again g_<fn> = m_format.
  * Calls of one of the three helpers inside another function are translated to the MODEL
    function of the helper (m_print_num, m_print_nstring): every tie is relative to the
    contracts of its callees, which are tied by their own blocks.  The report lists, for every
    proved function, the callees whose own tie did not succeed in this run
    ('contracts_unverified').

Trusted in this tie: clang's parser/type checker; the MAPPING TABLE (section 1), in particular
the printf table PRINTF_CONVERSIONS <-> FormatTieLib.render, and the C semantics written down in
this file and in sections 3-6 of codec_translate.py; the statements of FormatTie.v.in and the
definitions of sections 1, 2, 4 of FormatTieLib.v (fres, fobs, render, run_for); Coq.
NOT trusted: the model functions (they are compared), the tactic (Coq checks its proofs).

C semantics made explicit (in addition to the module docstring of codec_translate.py)
  * size_t objects are nat (no wrap-around) EXCEPT a subtraction, which is computed in N modulo
    2^64 (c_size_sub); a comparison between a nat and such a value is made in N.
  * `*(intN_t *)var->data` is le_value_signed (N/8) data, `*(uintN_t *)var->data` is
    le_value (firstn (N/8) data) (little endian; alignment / effective type not modelled), guarded
    by "the storage has that many bytes" (else FFault); `buf[i]` after `buf = var->data` is
    nth i data 0 guarded by i < length data.  A guard that arises in a conditionally evaluated
    operand of ?: (or in a branch of an if that only assigns) is made conditional.
  * An `if` whose branches only assign locals is translated as one `let x := if c then a else b`
    per assigned local (no duplication of what follows); every other `if` / `switch` duplicates
    the continuation per branch, as in codec_translate.py.
  * Locals: any integer / char / bool local is a let-bound name; reading one before it was
    assigned on the path is refused.  In a loop body, the locals assigned in the body are
    unassigned at the head of every iteration (nothing is carried from one iteration to the
    next), the locals assigned before the loop must be pure (functions of f, oa, ou only) and
    are re-bound at the head of the step function.
  * The loop: exactly `for (i = A; (i < B) [&& C..]; i++) BODY` with i a size_t local not assigned
    in BODY and B not depending on anything assigned in BODY; further conjuncts C of the
    condition are `if (!(C)) break;` at the head of BODY.
  * snprintf never fails (no negative result) and its result fits an int.
Everything else makes the function 'unsupported' with a reason; nothing is approximated.

Report (run_format_tie): same keys and exit-code convention as codec_translate.run_codec_tie:
translated / unsupported{fn: why} / missing / proved / failed{fn: {'witness': ..}} / lines / notes
/ library / files / wall_s, plus depends_on and contracts_unverified.  Exit status 1 iff some tie
failed with a witness.
"""

import json
import os
import re
import shutil
import subprocess
import sys
import time
from concurrent.futures import ThreadPoolExecutor

sys.path.insert(0, os.path.dirname(os.path.abspath(__file__)))
from codec_translate import (                                   # noqa: E402  (reused, not edited)
    Unsupported, refuse, strip, strip_casts, walk, is_assert, node_line,
    load_function_definitions, char_is_unsigned, C_TYPES, T_INT, CHAR_LIKE, ctype_named, ctype_of,
    nlit, zlit, blit, Val, int_const, convert, arith, shift, cmp_term, Binding,
    StatementTranslator, Ctx, ind, parse_template, assemble, all_closed, write)

# ======================================================================================
# 1. THE MAPPING TABLE  (trusted: C vocabulary <-> vocabulary of coq/Codec.v + FormatTieLib.v)
# ======================================================================================

# ---- the printf table: a format string is <literal prefix without %> <one conversion>; the
#      variadic argument must be a 32-bit unsigned int.  FormatTieLib.render gives the text:
#        "%d"    CvD     print_dec_z of the argument reinterpreted as a 32-bit int
#        "%u"    CvU     print_dec
#        "%0wX"  CvX w   print_hex_pad w          (w = 2, 4, 8)
PRINTF_CONVERSIONS = {
    "%d":   "CvD",
    "%u":   "CvU",
    "%02X": "(CvX 2)",
    "%04X": "(CvX 4)",
    "%08X": "(CvX 8)",
}

# ---- the formatters: C function -> short name (g_step_<short>), the model's variable type it is
#      dispatched for (hypothesis of its tie), whether it must contain the per-byte loop ----
FORMATTERS = {
    "format_int_decimal":        {"short": "int",    "vtype": "VInt",    "loop": False},
    "format_uint_decimal":       {"short": "uint",   "vtype": "VUint",   "loop": False},
    "format_num_hexadecimal":    {"short": "hex",    "vtype": "VHex",    "loop": False},
    "format_buffer_hexadecimal": {"short": "bufhex", "vtype": "VBufHex", "loop": True},
    "format_buffer_string":      {"short": "bufstr", "vtype": "VBufStr", "loop": True},
}
# ---- the helpers: C function -> parameters after `self` and before `fsm`:
#        (C name, kind, Coq binder, Coq type)
#      kinds: cobj = a `const char *`: the bytes of the object it points to (terminator included)
#             nat  = a size_t;  fmt = a format string (FormatTieLib.fmtspec);  u32 = a uint32_t
HELPERS = {
    "print_nstring_to_buf": [("str", "cobj", "str", "list N"), ("len", "nat", "len", "nat")],
    "print_string_to_buf":  [("str", "cobj", "str", "list N")],
    "print_format_num":     [("fmt", "fmt", "fmt", "fmtspec"), ("val", "u32", "val", "N")],
}
FORMAT_FUNCTIONS = list(HELPERS) + list(FORMATTERS)

# ---- calls of the helpers inside the translated functions -> their MODEL (the contract):
#        print_format_num(self, FMT, VAL, fsm)       m_print_num (render FMT VAL) buf pos
#        print_nstring_to_buf(self, S, LEN, fsm)     m_print_nstring (firstn LEN S) buf pos
#                                                    (LEN <= size of S: checked here, or guarded)
#        print_string_to_buf(self, S, fsm)           m_print_nstring (firstn (c_strlen S) S) buf pos
#                                                    (guard: S has a terminator)
#      the status (int: 0 / -1) may only be used as `call != 0`, `call == 0`, `return call;` or
#      be discarded.
PRINT_CALLS = ("print_format_num", "print_nstring_to_buf", "print_string_to_buf")

# ---- the per-machine accessors of cat.c (ASSUMED: listed in every report).  The `fsm` argument
#      must be the function's own parameter `fsm`; (buf, pos) is the buffer / position of it.
#        get_var_by_fsm(self, fsm)                   sel f oa ou
#        get_left_buffer_space_by_fsm(self, fsm)     length buf - pos      guard pos <= length buf
#                                                    (the position behind the buffer: FFault)
#        get_current_buffer_by_fsm(self, fsm)        &buf[pos]; only as the destination of
#                                                    memcpy / snprintf and in  X[k] = c
#        move_position_by_fsm(self, n, fsm)          pos := pos + n
#      self->var / self->unsolicited_fsm.var         oa / ou  (the two variables, by machine)
VAR_GETTER = "get_var_by_fsm"
LEFT_SPACE = "get_left_buffer_space_by_fsm"
CURRENT_BUFFER = "get_current_buffer_by_fsm"
MOVE_POSITION = "move_position_by_fsm"
ASSUMED_HELPERS = [VAR_GETTER, LEFT_SPACE, CURRENT_BUFFER, MOVE_POSITION]

# ---- fields of struct cat_variable read through a variable X : vobj ----
#        X->data_size    v_size (o_var X) : nat
#        X->access == CAT_VAR_ACCESS_<A>   vaccess_beq (v_access (o_var X)) <A>
#        X->data         o_data X  (only in the load idioms and in `p = X->data`)
ACCESS_ENUMERATORS = {"CAT_VAR_ACCESS_READ_WRITE": "RW", "CAT_VAR_ACCESS_READ_ONLY": "RO",
                      "CAT_VAR_ACCESS_WRITE_ONLY": "WO"}

# ---- library calls (the callee must be declared but NOT defined in the translation unit) ----
#        memcpy(get_current_buffer_by_fsm(self, fsm), S, n)    c_store_list buf pos (firstn n S)
#        snprintf(get_current_buffer_by_fsm(self, fsm), n, FMT, v)
#                                  text := render FMT v; c_snprintf buf pos n text; = length text
#        strlen(S)                 c_strlen S   (guard: c_has_nul S)
#        strcpy(a, "literal")      a local char array becomes that format (it must fit)
#        snprintf(a, n, FMT, v)    a local char array of >= n bytes then holds the DEFINED bytes
#                                  c_snprintf_obj n text (first n - 1 characters and a terminator)
#        sizeof(a)                 the size of a local char array
LIBRARY_CALLS = ("memcpy", "snprintf", "strlen", "strcpy")

# ---- returned status: return 0 -> FRet buf pos true     return -1 -> FRet buf pos false ----

TEMPLATE_NAME = "FormatTie.v.in"
LIB_NAME = "FormatTieLib.v"
GEN_LOGICAL_PATH = "FormatTieGen"
COQC_TIMEOUT_S = 300
INT_MAX = 2 ** 31 - 1

# ======================================================================================
# 2. Small utilities
# ======================================================================================

SIMPLE_ESCAPES = {"n": 10, "t": 9, "r": 13, "0": 0, "\\": 92, '"': 34, "'": 39, "a": 7, "b": 8,
                  "f": 12, "v": 11, "?": 63}


def string_literal_bytes(node):
    """The bytes of a C string literal (terminator included), from clang's source spelling."""
    spelled = node.get("value", "")
    if len(spelled) < 2 or spelled[0] != '"' or spelled[-1] != '"':
        refuse(node, "string literal with a prefix or of an unexpected spelling")
    out, i, body = [], 0, spelled[1:-1]
    while i < len(body):
        c = body[i]
        if c != "\\":
            if ord(c) > 127:
                refuse(node, "non-ASCII character in a string literal")
            out.append(ord(c))
            i += 1
            continue
        i += 1
        if i >= len(body):
            refuse(node, "dangling backslash in a string literal")
        e = body[i]
        if e == "x":
            m = re.match(r"[0-9a-fA-F]{1,2}", body[i + 1:])
            if not m:
                refuse(node, "bad \\x escape")
            out.append(int(m.group(0), 16))
            i += 1 + len(m.group(0))
        elif e in "01234567" and re.match(r"[0-7]{2,3}", body[i:]):
            m = re.match(r"[0-7]{1,3}", body[i:])
            out.append(int(m.group(0), 8) % 256)
            i += len(m.group(0))
        elif e in SIMPLE_ESCAPES:
            out.append(SIMPLE_ESCAPES[e])
            i += 1
        else:
            refuse(node, "escape sequence \\%s in a string literal" % e)
    return out + [0]


def coq_list(terms):
    return "[%s]" % "; ".join(terms)


def nbytes(bs):
    return coq_list("%d" % b for b in bs)


def format_of_literal(node, bs):
    """bytes of a literal (with terminator) -> Coq term of FormatTieLib.fmtspec (PRINTF table)."""
    text = bytes(bs[:bs.index(0)]).decode("latin-1")
    k = text.find("%")
    if k < 0:
        refuse(node, "format string \"%s\" has no conversion" % text)
    prefix, conv = text[:k], text[k:]
    if conv not in PRINTF_CONVERSIONS:
        refuse(node, "format string \"%s\": conversion \"%s\" is not in the printf table %s"
               % (text, conv, sorted(PRINTF_CONVERSIONS)))
    return "(mkFmt %s %s)" % (nbytes([ord(c) for c in prefix]), PRINTF_CONVERSIONS[conv])


def tokens(term):
    return set(re.findall(r"[A-Za-z_][A-Za-z0-9_']*", term))


class FEnv:
    """Immutable environment: variables (clang decl id -> Binding), the Coq names of the working
    buffer and of the position, and the pure let-lines emitted so far (re-emitted at the head of
    a step function).  data / wsize / ret exist only because inherited code looks at them."""
    data = wsize = ret = None

    def __init__(self, vars_, buf="buf", pos="pos", lets=()):
        self.vars, self.buf, self.pos, self.lets = vars_, buf, pos, tuple(lets)

    def bind(self, decl_id, binding):
        v = dict(self.vars)
        v[decl_id] = binding
        return FEnv(v, self.buf, self.pos, self.lets)

    def replace(self, **kw):
        e = FEnv(self.vars, self.buf, self.pos, self.lets)
        for k, v in kw.items():
            setattr(e, k, v)
        return e

    def with_let(self, line):
        return FEnv(self.vars, self.buf, self.pos, self.lets + (line,))


# ======================================================================================
# 3. Expressions and statements (on top of codec_translate.StatementTranslator)
# ======================================================================================

SCALAR_KINDS = ("N", "Z", "flag", "nat", "byte")
POINTEES = {"char": "char", "unsigned char": "unsigned char", "uint8_t": "unsigned char",
            "signed char": "signed char", "int8_t": "signed char"}


class Fallback(Exception):
    """An `if` cannot be translated as a conditional assignment; use the general rule."""


def binding_value(b):
    """The current value of a scalar local as a lifted value."""
    if b.kind == "N":
        return Val("int", ctype=b.ctype, lo=b.lo, hi=b.hi, tN=b.name)
    if b.kind == "Z":
        return Val("int", ctype=b.ctype, lo=b.lo, hi=b.hi,
                   tN="(Z.to_N %s)" % b.name if b.lo >= 0 else None, tZ=b.name)
    return Val(b.kind, term=b.name)


def unassigned(b):
    nb = Binding(b.kind, None, b.ctype, b.lo, b.hi, b.base)
    if b.kind in ("N", "Z"):
        nb.lo, nb.hi = b.ctype.lo, b.ctype.hi
    for extra in ("size",):
        if hasattr(b, extra):
            setattr(nb, extra, getattr(b, extra))
    return nb


class FormatTranslator(StatementTranslator):

    def __init__(self, fn, self_id, fsm_id, defs, is_formatter):
        super().__init__(fn, self_id, None, None, defs)
        self.fsm_id, self.is_formatter = fsm_id, is_formatter
        self.impure = {"buf", "pos"}          # Coq names that depend on the buffer / position
        self.aux, self.callees, self.in_loop = [], set(), False

    # ---- recognisers ---------------------------------------------------------------------
    def callee_name(self, node):
        node = strip(node)
        if node.get("kind") != "CallExpr":
            return None
        callee = node["inner"][0]
        while callee.get("kind") in ("ImplicitCastExpr", "ParenExpr"):
            callee = callee["inner"][0]
        if callee.get("kind") != "DeclRefExpr":
            return None
        return callee.get("referencedDecl", {}).get("name")

    def is_fsm(self, node):
        node = strip(node)
        if node.get("kind") == "ImplicitCastExpr" and node.get("castKind") == "LValueToRValue":
            node = strip(node["inner"][0])
        return node.get("kind") == "DeclRefExpr" and \
            node.get("referencedDecl", {}).get("id") == self.fsm_id

    def machine_call_args(self, node, nargs):
        """node = F(self, .., fsm) with nargs arguments -> the arguments between self and fsm."""
        args = node["inner"][1:]
        name = self.callee_name(node)
        if len(args) != nargs:
            refuse(node, "call of %s with %d arguments" % (name, len(args)))
        if not self.is_self(args[0]) or not self.is_fsm(args[-1]):
            refuse(node, "call of %s whose first / last argument is not `self` / the function's "
                         "own parameter `fsm`" % name)
        return args[1:-1]

    def library(self, node, name):
        if name in self.defs:
            refuse(node, "%s is defined in the translation unit: not the C library's" % name)

    def var_expr(self, node, env):
        """node denotes a `struct cat_variable *` -> Coq term of the vobj, else None."""
        n = strip(node)
        kind = n.get("kind")
        if kind in ("ImplicitCastExpr", "CStyleCastExpr") and \
                n.get("castKind") in ("LValueToRValue", "NoOp", "BitCast"):
            if n.get("castKind") != "LValueToRValue" and \
                    "struct cat_variable" not in n.get("type", {}).get("qualType", ""):
                return None
            return self.var_expr(n["inner"][0], env)
        term = None
        if kind == "DeclRefExpr":
            b = env.vars.get(n.get("referencedDecl", {}).get("id"))
            if b is None or b.kind != "varptr":
                return None
            if b.name is None:
                refuse(n, "pointer '%s' may be used before it is assigned" % b.base)
            term = b.name
        elif kind == "MemberExpr" and n.get("name") == "var":
            if n.get("isArrow") and self.is_self(n["inner"][0]):
                term = "oa"
            elif not n.get("isArrow"):
                base = strip(n["inner"][0])
                if base.get("kind") == "MemberExpr" and base.get("name") == "unsolicited_fsm" \
                        and base.get("isArrow") and self.is_self(base["inner"][0]):
                    term = "ou"
        elif kind == "CallExpr" and self.callee_name(n) == VAR_GETTER:
            self.machine_call_args(n, 2)
            term = "(sel f oa ou)"
        if term is not None and not self.is_formatter:
            refuse(n, "access to a variable in a printing helper")
        return term

    def var_member(self, node, env):
        """node = X->data_size | X->access | X->data -> (Coq term of X, field), else None."""
        n = strip(node)
        if n.get("kind") == "MemberExpr" and n.get("isArrow") \
                and n.get("name") in ("data_size", "access", "data"):
            v = self.var_expr(n["inner"][0], env)
            if v is not None:
                return v, n["name"]
        return None

    def data_of(self, node, env):
        """node = (casts of) X->data as an rvalue -> Coq term of the storage, else None."""
        n = strip(node)
        while n.get("kind") in ("ImplicitCastExpr", "CStyleCastExpr") \
                and n.get("castKind") in ("BitCast", "NoOp"):
            n = strip(n["inner"][0])
        if n.get("kind") == "ImplicitCastExpr" and n.get("castKind") == "LValueToRValue":
            vm = self.var_member(n["inner"][0], env)
            if vm and vm[1] == "data":
                return "(o_data %s)" % vm[0]
        return None

    def add_guard(self, node, G, term, what):
        if G is None:
            refuse(node, "%s in an operand that C evaluates conditionally (&&, ||)" % what)
        if term not in G:
            G.append(term)

    def nat_of(self, node, v):
        """A lifted value used as a size_t -> Coq term : nat."""
        if v.kind == "nat":
            return v.term
        if v.kind == "int" and v.point is not None and v.point >= 0:
            return "%d%%nat" % v.point
        if v.kind == "int" and v.lo >= 0:
            return "(N.to_nat %s)" % v.tN if v.tN is not None else "(Z.to_nat %s)" % v.tZ
        refuse(node, "a %s that may be negative is used as a size" % v.kind)

    def to_flag(self, node, v):
        if v.kind in ("flag", "truth"):
            return Val("flag", term=v.term)
        if v.kind == "int":
            if v.point is not None:
                return Val("flag", term="true" if v.point else "false")
            t = "(negb (%s =? 0)%%Z)" % v.as_Z() if v.ctype.signed else \
                "(negb (%s =? 0)%%N)" % v.as_N()
            return Val("flag", term=t)
        refuse(node, "conversion of a %s to bool" % v.kind)

    # ---- objects passed by pointer ------------------------------------------------------------
    def cobj(self, node, env):
        """A `const char *` argument -> ('bytes', [ints]) for a literal (terminator included),
        ('terms', [Coq terms]) for &<char local>, ('var', Coq name) for a pointer parameter."""
        n = strip(node)
        while n.get("kind") in ("ImplicitCastExpr", "CStyleCastExpr") \
                and n.get("castKind") in ("ArrayToPointerDecay", "NoOp", "BitCast"):
            n = strip(n["inner"][0])
        if n.get("kind") == "StringLiteral":
            return "bytes", string_literal_bytes(n)
        if n.get("kind") == "ImplicitCastExpr" and n.get("castKind") == "LValueToRValue":
            d = strip(n["inner"][0])
            b = env.vars.get(d.get("referencedDecl", {}).get("id")) \
                if d.get("kind") == "DeclRefExpr" else None
            if b is not None and b.kind == "cobj":
                return "var", b.name
        if n.get("kind") == "DeclRefExpr":                      # a local array (decayed)
            b = env.vars.get(n.get("referencedDecl", {}).get("id"))
            if b is not None and b.kind == "carr":
                return "var", b.name
        if n.get("kind") == "UnaryOperator" and n.get("opcode") == "&":
            d = strip(n["inner"][0])
            b = env.vars.get(d.get("referencedDecl", {}).get("id")) \
                if d.get("kind") == "DeclRefExpr" else None
            if b is not None and b.kind == "byte":
                if b.name is None:
                    refuse(n, "'%s' may be read before it is assigned" % b.base)
                return "terms", [b.name]
        refuse(node, "argument is not a string literal, a `const char *` parameter or "
                     "&<char local>")

    def fmt_arg(self, node, env):
        """A format-string argument -> Coq term : fmtspec."""
        n = strip(node)
        while n.get("kind") in ("ImplicitCastExpr", "CStyleCastExpr") \
                and n.get("castKind") in ("ArrayToPointerDecay", "NoOp", "LValueToRValue"):
            n = strip(n["inner"][0])
        if n.get("kind") == "StringLiteral":
            return format_of_literal(n, string_literal_bytes(n))
        if n.get("kind") == "DeclRefExpr":
            b = env.vars.get(n.get("referencedDecl", {}).get("id"))
            if b is not None and b.kind == "fmt":
                if b.name is None:
                    refuse(n, "format buffer '%s' may be used before it is filled" % b.base)
                return b.name
        refuse(node, "format argument is not a string literal, the parameter `fmt` or a local "
                     "array filled by strcpy")

    def u32_arg(self, node, v, what):
        if v.kind != "int" or v.ctype.bits != 32 or v.ctype.signed:
            refuse(node, "%s is not a 32-bit unsigned int (the printf table is for uint32_t)" % what)
        return v.as_N()

    def print_call_term(self, node, env, G):
        """A call of one of the three printing helpers -> Coq term : fres (the callee's MODEL)."""
        name = self.callee_name(node)
        self.callees.add(name)
        if name == "print_format_num":
            a = self.machine_call_args(node, 4)
            fmt = self.fmt_arg(a[0], env)
            val = self.u32_arg(a[1], self.lift(a[1], env, G), "the value passed to print_format_num")
            return "m_print_num (render %s %s) %s %s" % (fmt, val, env.buf, env.pos)
        if name == "print_nstring_to_buf":
            a = self.machine_call_args(node, 4)
            kind, obj = self.cobj(a[0], env)
            ln = self.lift(a[1], env, G)
            if kind == "var":
                n = self.nat_of(a[1], ln)
                if n != "(c_strlen %s)" % obj:
                    self.add_guard(node, G, "(%s <=? length %s)%%nat" % (n, obj),
                                   "a read of `len` bytes from `str`")
                text = "(firstn %s %s)" % (n, obj)
            else:
                if ln.kind != "int" or ln.point is None or not 0 <= ln.point <= len(obj):
                    refuse(node, "print_nstring_to_buf on an object of %d byte(s) with a length "
                                 "that is not a constant within it" % len(obj))
                text = nbytes(obj[:ln.point]) if kind == "bytes" else coq_list(obj[:ln.point])
            return "m_print_nstring %s %s %s" % (text, env.buf, env.pos)
        a = self.machine_call_args(node, 3)                       # print_string_to_buf
        kind, obj = self.cobj(a[0], env)
        if kind == "bytes":
            text = nbytes(obj[:obj.index(0)])
        elif kind == "var":
            self.add_guard(node, G, "c_has_nul %s" % obj, "strlen")
            text = "(firstn (c_strlen %s) %s)" % (obj, obj)
        else:
            refuse(node, "print_string_to_buf on the address of a char (no terminator)")
        return "m_print_nstring %s %s %s" % (text, env.buf, env.pos)

    def call_condition(self, cond):
        """cond = CALL != 0 | CALL == 0 | CALL | !CALL (CALL one of the printing helpers)
        -> (call node, True iff the condition holds when the call FAILED), else None."""
        c = strip(cond)
        if c.get("kind") == "BinaryOperator" and c.get("opcode") in ("==", "!="):
            for x, y in (c["inner"], c["inner"][::-1]):
                y = strip_casts(y)
                if self.callee_name(x) in PRINT_CALLS and y.get("kind") == "IntegerLiteral" \
                        and int(y.get("value", "1")) == 0:
                    return strip(x), c["opcode"] == "!="
        if self.callee_name(c) in PRINT_CALLS:
            return c, True
        if c.get("kind") == "UnaryOperator" and c.get("opcode") == "!" \
                and self.callee_name(c["inner"][0]) in PRINT_CALLS:
            return strip(c["inner"][0]), False
        return None

    def effect_match(self, term, env, ctx, body):
        """match <term : fres> with FFault => fault | FRet b p ok => body(env', ok) end."""
        nb, np_, ok = self.fresh("buf"), self.fresh("pos"), self.fresh("ok")
        self.impure.update((nb, np_, ok))
        inner = body(env.replace(buf=nb, pos=np_), ok)
        return self.budget("match %s with\n| FFault => %s\n| FRet %s %s %s =>\n%s\nend" % (
            term, ctx.fault, nb, np_, ok, ind(inner)))

    # ---- values -----------------------------------------------------------------------------------
    def read_lv(self, node, env, G):
        n = strip(node)
        kind = n.get("kind")
        if kind == "DeclRefExpr":
            b = env.vars.get(n.get("referencedDecl", {}).get("id"))
            if b is None:
                refuse(n, "read of '%s', which is not a mapped local or parameter"
                       % n.get("referencedDecl", {}).get("name"))
            if b.kind not in SCALAR_KINDS:
                refuse(n, "'%s' (a %s) is used as a value" % (b.base, b.kind))
            return self.read_binding(n, b)
        vm = self.var_member(n, env)
        if vm is not None:
            if vm[1] == "data_size":
                return Val("nat", term="(v_size (o_var %s))" % vm[0])
            refuse(n, "member '%s' of a variable used as a value" % vm[1])
        if kind == "ArraySubscriptExpr":                       # p[i] after p = X->data
            base, idx = strip(n["inner"][0]), n["inner"][1]
            b = None
            if base.get("kind") == "ImplicitCastExpr" and base.get("castKind") == "LValueToRValue":
                d = strip(base["inner"][0])
                if d.get("kind") == "DeclRefExpr":
                    b = env.vars.get(d.get("referencedDecl", {}).get("id"))
            if b is None or b.kind != "dataptr":
                refuse(n, "array read whose base is not a local pointer to the variable's storage")
            if b.name is None:
                refuse(n, "pointer '%s' may be used before it is assigned" % b.base)
            iv = self.lift(idx, env, G)
            if iv.kind != "nat":
                refuse(n, "array index that is not a size_t")
            self.add_guard(n, G, "(%s <? length %s)%%nat" % (iv.term, b.name), "a load")
            term = "(nth %s %s 0%%N)" % (iv.term, b.name)
            if b.ctype.name == "char":
                return Val("byte", term=term)
            if b.ctype.name == "unsigned char":
                return Val("int", ctype=b.ctype, lo=0, hi=255, tN=term)
            refuse(n, "array read through a pointer to %s" % b.ctype.name)
        if kind == "UnaryOperator" and n.get("opcode") == "*":  # *(T *)X->data
            ptr = strip(n["inner"][0])
            data = self.data_of(ptr, env) if ptr.get("kind") == "CStyleCastExpr" else None
            pointee = ctype_named(n.get("type", {}))
            if data is None or pointee is None or pointee.bits not in (8, 16, 32):
                refuse(n, "load through a pointer that is not (intN_t *)X->data, N = 8, 16, 32")
            k = pointee.bits // 8
            self.add_guard(n, G, "(%d <=? length %s)%%nat" % (k, data), "a load")
            if pointee.signed:
                return Val("int", ctype=pointee, lo=pointee.lo, hi=pointee.hi,
                           tZ="(le_value_signed %d %s)" % (k, data))
            return Val("int", ctype=pointee, lo=0, hi=pointee.hi,
                       tN="(le_value (firstn %d %s))" % (k, data))
        refuse(n, "read of an lvalue of kind %s" % kind)

    def is_bool_type(self, node):
        t = node.get("type", {})
        return t.get("desugaredQualType", t.get("qualType")) in ("_Bool", "bool")   # clang's spelling

    def lift(self, node, env, G):
        node = strip(node)
        kind = node.get("kind")
        if kind in ("ImplicitCastExpr", "CStyleCastExpr"):
            ck, sub = node.get("castKind"), node["inner"][0]
            if ck == "LValueToRValue":
                return self.read_lv(sub, env, G)
            if ck == "IntegralToBoolean" or (ck in ("IntegralCast", "NoOp")
                                             and self.is_bool_type(node)):
                return self.to_flag(node, self.lift(sub, env, G))
            if ck in ("IntegralCast", "NoOp"):
                v, tgt = self.lift(sub, env, G), ctype_of(node, "cast")
                if v.kind in ("flag", "truth"):
                    return v                                   # 0 / 1 in any integer type
                if v.kind == "nat":
                    if tgt.bits == 64 and not tgt.signed:
                        return v
                    refuse(node, "conversion of a size_t to %s" % tgt.name)
                if v.kind == "byte":
                    if tgt.name in CHAR_LIKE:
                        return v
                    promoted = Val("int", ctype=C_TYPES["char"], lo=-128, hi=127,
                                   tZ="(c_int_of_char %s)" % v.term)
                    return convert(node, promoted, tgt)
                return convert(node, v, tgt)
            refuse(node, "conversion of kind %s" % ck)
        if kind == "BinaryOperator" and node.get("opcode") in ("+", "-", "*", "/"):
            op = node["opcode"]
            a, b = self.lift(node["inner"][0], env, G), self.lift(node["inner"][1], env, G)
            if a.kind == "nat" or b.kind == "nat":
                x, y = self.nat_of(node, a), self.nat_of(node, b)
                if op == "+":
                    return Val("nat", term="(%s + %s)%%nat" % (x, y))
                if op == "-":
                    if b.kind == "int" and b.point == 0:
                        return Val("nat", term=x)
                    ty = C_TYPES["unsigned long"]
                    return Val("int", ctype=ty, lo=0, hi=ty.hi, tN="(c_size_sub %s %s)" % (x, y))
                refuse(node, "'%s' on a size_t" % op)
            return arith(node, op, a, b, ctype_of(node), G)
        if kind == "UnaryExprOrTypeTraitExpr" and node.get("name") == "sizeof":
            e = strip(node["inner"][0]) if node.get("inner") else {}
            b = env.vars.get(e.get("referencedDecl", {}).get("id")) \
                if e.get("kind") == "DeclRefExpr" else None
            if b is None or not hasattr(b, "size"):
                refuse(node, "sizeof of something that is not a local char array")
            return int_const(b.size, ctype_of(node, "sizeof"))
        if kind == "ConditionalOperator":
            c, x, y = node["inner"]
            ct = self.cond(c, env, G)
            Ga, Gb = [], []
            a, b = self.lift(x, env, Ga), self.lift(y, env, Gb)
            self.conditional_guards(node, G, ct, Ga, Gb)
            if a.kind == "nat" or b.kind == "nat":
                return Val("nat", term="(if %s then %s else %s)"
                           % (ct, self.nat_of(node, a), self.nat_of(node, b)))
            if a.kind == "int" and b.kind == "int" and a.ctype == b.ctype == ctype_of(node):
                return self.phi_int(ct, a, b)
            refuse(node, "branches of ?: of kinds %s / %s" % (a.kind, b.kind))
        return super().lift(node, env, G)

    def conditional_guards(self, node, G, ct, Ga, Gb):
        for g in Ga:
            self.add_guard(node, G, "(negb %s || %s)" % (ct, g), "a bounds check")
        for g in Gb:
            self.add_guard(node, G, "(%s || %s)" % (ct, g), "a bounds check")

    @staticmethod
    def phi_int(ct, a, b):
        lo, hi = min(a.lo, b.lo), max(a.hi, b.hi)
        tN = "(if %s then %s else %s)" % (ct, a.as_N(), b.as_N()) if lo >= 0 else None
        tZ = "(if %s then %s else %s)" % (ct, a.as_Z(), b.as_Z()) \
            if (a.ctype.signed or tN is None) else None
        return Val("int", ctype=a.ctype, lo=lo, hi=hi, tN=tN, tZ=tZ)

    def call(self, node, env, G):
        name = self.callee_name(node)
        if name == LEFT_SPACE:
            self.machine_call_args(node, 2)
            self.add_guard(node, G, "(%s <=? length %s)%%nat" % (env.pos, env.buf),
                           "the space left in the buffer")
            return Val("nat", term="(length %s - %s)%%nat" % (env.buf, env.pos))
        if name == "strlen":
            self.library(node, name)
            args = node["inner"][1:]
            if len(args) != 1:
                refuse(node, "strlen with %d arguments" % len(args))
            kind, obj = self.cobj(args[0], env)
            if kind == "bytes":
                return int_const(obj.index(0), C_TYPES["unsigned long"])
            if kind == "var":
                self.add_guard(node, G, "c_has_nul %s" % obj, "strlen")
                return Val("nat", term="(c_strlen %s)" % obj)
            refuse(node, "strlen of the address of a char")
        if name in PRINT_CALLS:
            refuse(node, "the status of %s is used in an expression (supported: `!= 0`, `== 0` "
                         "as a whole condition, `return`)" % name)
        if name in (CURRENT_BUFFER, MOVE_POSITION, VAR_GETTER) + LIBRARY_CALLS:
            refuse(node, "%s used inside an expression" % name)
        return super().call(node, env, G)

    def byte_operand(self, node, env, G=None):
        n = strip(node)
        if n.get("kind") == "ImplicitCastExpr" and n.get("castKind") == "IntegralCast":
            tmp = []
            try:
                v = self.lift(n["inner"][0], env, tmp)
            except Unsupported:
                return None
            if v.kind == "byte":
                for g in tmp:
                    self.add_guard(node, G, g, "a load")
                return v.term
        return None

    def comparison(self, node, op, env, G):
        lhs, rhs = node["inner"]
        for x, y in ((lhs, rhs), (rhs, lhs)):                   # X->access ==/!= enumerator
            vm = self.var_member(strip_casts(x), env)
            if vm is not None and vm[1] == "access":
                ye = strip_casts(y)
                enum = ye.get("referencedDecl", {})
                if ye.get("kind") != "DeclRefExpr" or enum.get("kind") != "EnumConstantDecl" \
                        or enum.get("name") not in ACCESS_ENUMERATORS:
                    refuse(node, "access compared with something that is not an enumerator of "
                                 "cat_var_access")
                if op not in ("==", "!="):
                    refuse(node, "ordering comparison on access")
                t = "vaccess_beq (v_access (o_var %s)) %s" % (vm[0], ACCESS_ENUMERATORS[enum["name"]])
                return t if op == "==" else "(negb (%s))" % t
        if op in ("==", "!="):                                   # char ==/!= constant 0..127
            for x, y in ((lhs, rhs), (rhs, lhs)):
                try:
                    c = self.lift(y, env, []).point
                except Unsupported:
                    c = None
                if c is not None and 0 <= c <= 127:
                    bt = self.byte_operand(x, env, G)
                    if bt is not None:
                        return cmp_term(op, bt, blit(c), "N")
        a, b = self.lift(lhs, env, G), self.lift(rhs, env, G)
        for x, y in ((a, b), (b, a)):
            if x.kind in ("flag", "truth") and y.kind == "int" and y.point is not None:
                if op in ("==", "!=") and y.point == 0:
                    return "(negb %s)" % x.term if op == "==" else x.term
                if op in ("==", "!=") and y.point == 1 and x.kind == "flag":
                    return x.term if op == "==" else "(negb %s)" % x.term
                refuse(node, "a truth value may only be compared with == / != against 0 (or 1)")
        if a.kind == "nat" and b.kind == "int" and b.point is not None and b.point >= 0:
            b = Val("nat", term="%d%%nat" % b.point)
        if b.kind == "nat" and a.kind == "int" and a.point is not None and a.point >= 0:
            a = Val("nat", term="%d%%nat" % a.point)
        if a.kind == "nat" and b.kind == "nat":
            return cmp_term(op, a.term, b.term, "nat")
        for x in (a, b):                                         # size_t against a wrapped value
            if x.kind == "int" and (x.ctype.bits != 64 or x.ctype.signed) \
                    and "nat" in (a.kind, b.kind):
                refuse(node, "comparison of a size_t with a %s" % x.ctype.name)
        if a.kind == "nat" and b.kind == "int":
            return cmp_term(op, "(N.of_nat %s)" % a.term, b.as_N(), "N")
        if b.kind == "nat" and a.kind == "int":
            return cmp_term(op, a.as_N(), "(N.of_nat %s)" % b.term, "N")
        if a.kind == "int" and b.kind == "int":
            if a.ctype != b.ctype or a.ctype.bits < 32:
                refuse(node, "comparison operands not converted to a common type >= int")
            if a.ctype.signed:
                return cmp_term(op, a.as_Z(), b.as_Z(), "Z")
            return cmp_term(op, a.as_N(), b.as_N(), "N")
        refuse(node, "comparison of a %s with a %s" % (a.kind, b.kind))

    # ---- assignments ------------------------------------------------------------------------------
    def coerce_for(self, node, b, v):
        """v as a value of the representation of the local b."""
        if b.kind in ("N", "Z"):
            if v.kind in ("flag", "truth"):
                v = Val("int", ctype=T_INT, lo=0, hi=1, tN="(if %s then 1 else 0)%%N" % v.term,
                        tZ="(if %s then 1 else 0)%%Z" % v.term)
            return convert(node, v, b.ctype)
        if b.kind == "flag":
            return self.to_flag(node, v)
        if b.kind == "nat":
            return Val("nat", term=self.nat_of(node, v))
        if b.kind == "byte":
            if v.kind == "byte":
                return v
            if v.kind == "int" and v.point is not None and 0 <= v.point <= 127:
                return Val("byte", term=blit(v.point))
            refuse(node, "a char is assigned something other than a char or a constant 0..127")
        refuse(node, "assignment to a variable of kind %s" % b.kind)

    def assign_local(self, node, b, did, v, env):
        if b.kind not in SCALAR_KINDS:
            refuse(node, "assignment to '%s' (a %s) outside the supported idioms" % (b.base, b.kind))
        v = self.coerce_for(node, b, v)
        let, env2 = super().assign_local(node, b, did, v, env)
        m = re.match(r"let (\w+) := (.*) in\n$", let, re.S)
        if tokens(m.group(2)) & self.impure:
            self.impure.add(m.group(1))
        else:
            env2 = env2.with_let(let)
        return let, env2

    def state_store(self, ctx, expr, env, k):
        """match <expr : option (list N)> with None => fault | Some buf' => k end."""
        nb = self.fresh("buf")
        self.impure.add(nb)
        return "match %s with\n| None => %s\n| Some %s =>\n%s\nend" % (
            expr, ctx.fault, nb, ind(k(env.replace(buf=nb))))

    def expression_statement(self, s, env, ctx, k):
        kind, op, G = s.get("kind"), s.get("opcode"), []
        name = self.callee_name(s) if kind == "CallExpr" else None

        if name in PRINT_CALLS:                                 # status discarded
            term = self.print_call_term(s, env, G)
            return self.guarded(G, self.effect_match(term, env, ctx, lambda e, ok: k(e)), ctx)

        if name == "memcpy":                                    # memcpy(&buf[pos], S, n)
            self.library(s, name)
            a = s["inner"][1:]
            if len(a) != 3 or self.callee_name(strip_casts(a[0])) != CURRENT_BUFFER:
                refuse(s, "memcpy whose destination is not %s(self, fsm)" % CURRENT_BUFFER)
            self.machine_call_args(strip_casts(a[0]), 2)
            okind, obj = self.cobj(a[1], env)
            ln = self.lift(a[2], env, G)
            if okind == "var":
                n = self.nat_of(a[2], ln)
                self.add_guard(s, G, "(%s <=? length %s)%%nat" % (n, obj), "a read of n bytes")
                data = "(firstn %s %s)" % (n, obj)
            else:
                if ln.kind != "int" or ln.point is None or not 0 <= ln.point <= len(obj):
                    refuse(s, "memcpy from an object of %d byte(s) with a length that is not a "
                              "constant within it" % len(obj))
                data = nbytes(obj[:ln.point]) if okind == "bytes" else coq_list(obj[:ln.point])
            text = self.state_store(ctx, "c_store_list %s %s %s" % (env.buf, env.pos, data), env, k)
            return self.guarded(G, text, ctx)

        if name == MOVE_POSITION:                               # position += n
            a = self.machine_call_args(s, 3)
            n = self.nat_of(a[0], self.lift(a[0], env, G))
            np_ = self.fresh("pos")
            self.impure.add(np_)
            text = "let %s := (%s + %s)%%nat in\n%s" % (np_, env.pos, n, k(env.replace(pos=np_)))
            return self.guarded(G, text, ctx)

        if name == "strcpy":                                    # strcpy(a, "format")
            self.library(s, name)
            a = s["inner"][1:]
            d = strip_casts(a[0]) if len(a) == 2 else {}
            b = env.vars.get(d.get("referencedDecl", {}).get("id")) \
                if d.get("kind") == "DeclRefExpr" else None
            lit = strip_casts(a[1]) if len(a) == 2 else {}
            if b is None or b.kind not in ("fmt", "carr") or not hasattr(b, "size") \
                    or lit.get("kind") != "StringLiteral":
                refuse(s, "strcpy that is not strcpy(<local char array>, \"literal\")")
            bs = string_literal_bytes(lit)
            if len(bs) > b.size:
                refuse(s, "strcpy of %d bytes into an array of %d" % (len(bs), b.size))
            nb = Binding("fmt", format_of_literal(lit, bs), base=b.base)
            nb.size = b.size
            return k(env.bind(d["referencedDecl"]["id"], nb))

        if kind == "BinaryOperator" and op == "=":
            lhs, rhs = strip(s["inner"][0]), s["inner"][1]
            # ---- get_current_buffer_by_fsm(self, fsm)[c] = v ----
            if lhs.get("kind") == "ArraySubscriptExpr" \
                    and self.callee_name(strip_casts(lhs["inner"][0])) == CURRENT_BUFFER:
                self.machine_call_args(strip_casts(lhs["inner"][0]), 2)
                iv = self.lift(lhs["inner"][1], env, G)
                if iv.kind == "int" and iv.point == 0:
                    index = env.pos
                else:
                    index = "(%s + %s)%%nat" % (env.pos, self.nat_of(s, iv))
                v = self.lift(rhs, env, G)
                if v.kind == "byte":
                    value = v.term
                elif v.kind == "int" and v.point is not None and -128 <= v.point <= 255:
                    value = "%d%%N" % (v.point % 256)
                elif v.kind == "int" and v.ctype.bits == 8 and not v.ctype.signed:
                    value = v.as_N()
                else:
                    refuse(s, "value stored into the buffer is not a char")
                text = self.state_store(ctx, "c_store %s %s %s" % (env.buf, index, value), env, k)
                return self.guarded(G, text, ctx)
            if lhs.get("kind") == "DeclRefExpr":
                did = lhs.get("referencedDecl", {}).get("id")
                b = env.vars.get(did)
                # ---- p = X->data ----
                if b is not None and b.kind == "dataptr":
                    data = self.data_of(rhs, env)
                    if data is None:
                        refuse(s, "pointer '%s' is assigned something other than X->data" % b.base)
                    return k(env.bind(did, Binding("dataptr", data, b.ctype, base=b.base)))
                # ---- var = get_var_by_fsm(self, fsm) | self->var | .. ----
                if b is not None and b.kind == "varptr":
                    term = self.var_expr(rhs, env)
                    if term is None:
                        refuse(s, "pointer '%s' is assigned something that is not a variable of "
                                  "the object" % b.base)
                    nm = self.fresh(b.base)
                    line = "let %s := %s in\n" % (nm, term)
                    return line + k(env.bind(did, Binding("varptr", nm, base=b.base)).with_let(line))
                # ---- written = snprintf(&buf[pos], n, FMT, val) ----
                if self.callee_name(rhs) == "snprintf":
                    return self.snprintf(s, strip(rhs), b, did, env, ctx, k)
        return super().expression_statement(s, env, ctx, k)

    def snprintf(self, s, call, b, did, env, ctx, k):
        self.library(s, "snprintf")
        a, G = call["inner"][1:], []
        if b is None or b.kind != "Z" or b.ctype != T_INT:
            refuse(s, "the result of snprintf is not assigned to an int local")
        dst = strip_casts(a[0]) if a else {}
        arr = env.vars.get(dst.get("referencedDecl", {}).get("id")) \
            if dst.get("kind") == "DeclRefExpr" else None
        if arr is not None and (arr.kind not in ("fmt", "carr") or not hasattr(arr, "size")):
            arr = None
        if len(a) != 4 or (arr is None and self.callee_name(dst) != CURRENT_BUFFER):
            refuse(s, "snprintf that is not snprintf(%s(self, fsm) or a local char array, n, FMT, "
                      "one value)" % CURRENT_BUFFER)
        if arr is not None:
            return self.snprintf_local(s, a, arr, dst["referencedDecl"]["id"], b, did, env, ctx, k)
        self.machine_call_args(dst, 2)
        n = self.nat_of(a[1], self.lift(a[1], env, G))
        fmt = self.fmt_arg(a[2], env)
        val = self.u32_arg(a[3], self.lift(a[3], env, G), "the value printed by snprintf")
        text = self.fresh("text")
        self.impure.add(text)          # (pure, but never needed outside: keep it out of steps)

        def after(env2):
            v = Val("int", ctype=T_INT, lo=0, hi=INT_MAX, tZ="(Z.of_nat (length %s))" % text)
            let, env3 = self.assign_local(s, b, did, v, env2)
            return let + k(env3)
        out = "let %s := render %s %s in\n" % (text, fmt, val) + self.state_store(
            ctx, "c_snprintf %s %s %s %s" % (env.buf, env.pos, n, text), env, after)
        return self.guarded(G, out, ctx)

    def snprintf_local(self, s, a, arr, arr_id, b, did, env, ctx, k):
        """written = snprintf(<local char array>, n, FMT, val), n a constant <= its size: the array
        then holds c_snprintf_obj n text, the DEFINED bytes (reading behind them is refused by the
        guards of whoever reads: they are indeterminate)."""
        G = []
        nv = self.lift(a[1], env, G)
        if nv.kind != "int" or nv.point is None or not 0 <= nv.point <= arr.size:
            refuse(s, "snprintf into a local array of %d bytes with a size that is not a constant "
                      "within it" % arr.size)
        fmt = self.fmt_arg(a[2], env)
        val = self.u32_arg(a[3], self.lift(a[3], env, G), "the value printed by snprintf")
        text, obj = self.fresh("text"), self.fresh(arr.base)
        self.impure.update((text, obj))
        nb = Binding("carr", obj, base=arr.base)
        nb.size = arr.size
        env2 = env.bind(arr_id, nb)
        v = Val("int", ctype=T_INT, lo=0, hi=INT_MAX, tZ="(Z.of_nat (length %s))" % text)
        let, env3 = self.assign_local(s, b, did, v, env2)
        out = "let %s := render %s %s in\nlet %s := c_snprintf_obj %d%%nat %s in\n%s%s" % (
            text, fmt, val, obj, nv.point, text, let, k(env3))
        return self.guarded(G, out, ctx)

    # ---- declarations ---------------------------------------------------------------------------
    def declarations(self, decls, env, ctx, k):
        if not decls:
            return k(env)
        v, rest = decls[0], decls[1:]
        nxt = lambda e: self.declarations(rest, e, ctx, k)
        if v.get("kind") != "VarDecl" or v.get("storageClass"):
            refuse(v, "declaration that is not a plain local variable")
        name, did = v.get("name"), v["id"]
        base = re.sub(r"[^A-Za-z0-9_]", "_", name)
        qt = v.get("type", {}).get("qualType", "")
        init = v["inner"][0] if v.get("init") == "c" and len(v.get("inner", [])) == 1 else None
        if v.get("init") and init is None:
            refuse(v, "local '%s' has an initialiser that is not a plain expression" % name)
        words = [w for w in qt.replace("*", " * ").split() if w not in ("const", "volatile")]
        if words == ["struct", "cat_variable", "*"]:
            env2 = env.bind(did, Binding("varptr", None, base=base))
            if init is None:
                return nxt(env2)
            term = self.var_expr(init, env)
            if term is None:
                refuse(v, "'%s' is initialised with something that is not a variable of the "
                          "object" % name)
            nm = self.fresh(base)
            line = "let %s := %s in\n" % (nm, term)
            return line + nxt(env.bind(did, Binding("varptr", nm, base=base)).with_let(line))
        if len(words) >= 2 and words[-1] == "*" and " ".join(words[:-1]) in POINTEES:
            elem = C_TYPES[POINTEES[" ".join(words[:-1])]]
            if init is None:
                return nxt(env.bind(did, Binding("dataptr", None, elem, base=base)))
            data = self.data_of(init, env)
            if data is None:
                refuse(v, "pointer '%s' is initialised with something other than X->data" % name)
            return nxt(env.bind(did, Binding("dataptr", data, elem, base=base)))
        m = re.match(r"^char ?\[(\d+)\]$", qt)
        if m:
            if init is not None:
                refuse(v, "char array '%s' with an initialiser" % name)
            b = Binding("fmt", None, base=base)
            b.size = int(m.group(1))
            return nxt(env.bind(did, b))
        if self.is_bool_type(v):
            b = Binding("flag", None, base=base)
        else:
            ct = ctype_named(v.get("type", {}))
            if ct is None:
                refuse(v, "local '%s' of type '%s' is not supported" % (name, qt))
            if ct.name == "char":
                b = Binding("byte", None, base=base)
            elif ct.bits == 64 and not ct.signed:
                b = Binding("nat", None, base=base)
            else:
                b = Binding("Z" if ct.signed else "N", None, ct, ct.lo, ct.hi, base)
        env2 = env.bind(did, b)
        if init is None:
            return nxt(env2)
        G = []
        let, env3 = self.assign_local(v, b, did, self.lift(init, env, G), env2)
        return self.guarded(G, let + nxt(env3), ctx)

    # ---- `if` whose branches only assign: one conditional let per local -----------------------
    def simple_assignments(self, stmt, env):
        if stmt is None:
            return []
        items = stmt.get("inner", []) if stmt.get("kind") == "CompoundStmt" else [stmt]
        out = []
        for it in items:
            it = strip(it)
            if it.get("kind") == "NullStmt":
                continue
            if it.get("kind") != "BinaryOperator" or it.get("opcode") != "=":
                return None
            lhs = strip(it["inner"][0])
            did = lhs.get("referencedDecl", {}).get("id")
            b = env.vars.get(did)
            if lhs.get("kind") != "DeclRefExpr" or b is None or b.kind not in SCALAR_KINDS:
                return None
            if any(c.get("kind") == "CallExpr" and
                   self.callee_name(c) in PRINT_CALLS + LIBRARY_CALLS + (MOVE_POSITION,)
                   for c in walk(it["inner"][1])):
                return None
            if did in [d for d, _, _ in out]:
                return None
            out.append((did, it, it["inner"][1]))
        assigned = {d for d, _, _ in out}
        for _, _, rhs in out:
            if any(c.get("kind") == "DeclRefExpr" and c.get("referencedDecl", {}).get("id") in assigned
                   for c in walk(rhs)):
                return None
        return out

    def if_conversion(self, s, env, ctx, k):
        parts = s["inner"]
        then_a = self.simple_assignments(parts[1], env)
        else_a = self.simple_assignments(parts[2] if len(parts) == 3 else None, env)
        if then_a is None or else_a is None or not (then_a or else_a):
            return None
        saved = dict(self.counter), set(self.impure), self.emitted
        try:
            G = []
            ct = self.cond(parts[0], env, G)
            order = [d for d, _, _ in then_a] + [d for d, _, _ in else_a
                                                 if d not in [x for x, _, _ in then_a]]
            text, env2 = "", env
            for did in order:
                b = env.vars[did]
                vals = []
                for assigns, Gx in ((then_a, []), (else_a, [])):
                    hit = [(n, r) for d, n, r in assigns if d == did]
                    if hit:
                        vals.append((self.coerce_for(hit[0][0], b, self.lift(hit[0][1], env, Gx)), Gx))
                    elif b.name is None:
                        raise Fallback()
                    else:
                        vals.append((binding_value(b), Gx))
                (va, Ga), (vb, Gb) = vals
                self.conditional_guards(s, G, ct, Ga, Gb)
                if b.kind in ("N", "Z"):
                    phi = self.phi_int(ct, va, vb)
                else:
                    phi = Val(b.kind, term="(if %s then %s else %s)" % (ct, va.term, vb.term))
                let, env2 = self.assign_local(s, b, did, phi, env2)
                text += let
            return self.guarded(G, text + k(env2), ctx)
        except Fallback:
            self.counter, self.impure, self.emitted = saved[0], saved[1], saved[2]
            return None

    # ---- the loop ---------------------------------------------------------------------------------
    @staticmethod
    def assigned_in(node):
        out = set()
        for c in walk(node):
            tgt = None
            if c.get("kind") == "BinaryOperator" and c.get("opcode") == "=":
                tgt = c["inner"][0]
            elif c.get("kind") == "CompoundAssignOperator":
                tgt = c["inner"][0]
            elif c.get("kind") == "UnaryOperator" and c.get("opcode") in ("++", "--", "&"):
                tgt = c["inner"][0]                          # (&x: x may be written through it)
            if tgt is not None:
                tgt = strip(tgt)
                if tgt.get("kind") == "DeclRefExpr":
                    out.add(tgt.get("referencedDecl", {}).get("id"))
        return out

    def for_loop(self, s, env, ctx, k):
        if not self.is_formatter:
            refuse(s, "loop in a printing helper")
        if self.in_loop:
            refuse(s, "nested loop")
        parts = s.get("inner", [])
        if len(parts) != 5 or parts[1] or not parts[0] or not parts[2] or not parts[3]:
            refuse(s, "the loop is not `for (i = A; i < B; i++)`")
        init, cond, inc, body = strip(parts[0]), strip(parts[2]), strip(parts[3]), parts[4]
        # init: i = A
        if init.get("kind") != "BinaryOperator" or init.get("opcode") != "=":
            refuse(s, "the loop does not start with `i = A`")
        cnt = strip(init["inner"][0])
        did_i = cnt.get("referencedDecl", {}).get("id")
        bi = env.vars.get(did_i)
        if cnt.get("kind") != "DeclRefExpr" or bi is None or bi.kind != "nat":
            refuse(s, "the loop counter is not a size_t local")
        start = self.nat_of(init, self.lift(init["inner"][1], env, None))
        # condition: (i < B) [&& C ..]
        conj = []

        def flatten(c):
            c = strip(c)
            if c.get("kind") == "BinaryOperator" and c.get("opcode") == "&&":
                flatten(c["inner"][0])
                flatten(c["inner"][1])
            else:
                conj.append(c)
        flatten(cond)
        first = conj[0]
        lhs = strip_casts(first["inner"][0]) if first.get("kind") == "BinaryOperator" else {}
        if first.get("opcode") != "<" or lhs.get("kind") != "DeclRefExpr" \
                or lhs.get("referencedDecl", {}).get("id") != did_i:
            refuse(s, "the loop condition does not begin with `i < B`")
        bound = self.nat_of(first, self.lift(first["inner"][1], env, None))
        # increment: i++
        ok_inc = inc.get("kind") == "UnaryOperator" and inc.get("opcode") == "++" and \
            strip(inc["inner"][0]).get("referencedDecl", {}).get("id") == did_i
        if not ok_inc:
            refuse(s, "the loop increment is not `i++`")
        assigned = self.assigned_in(body) | set().union(*[self.assigned_in(c) for c in conj[1:]] or [set()])
        if did_i in assigned:
            refuse(s, "the loop counter is assigned in the loop body")
        if any(c.get("kind") == "DeclRefExpr" and c.get("referencedDecl", {}).get("id") in assigned
               for c in walk(first["inner"][1])):
            refuse(s, "the loop bound depends on something assigned in the loop body")
        if tokens(bound) & self.impure or tokens(start) & self.impure:
            refuse(s, "the loop bounds depend on the state of the buffer")
        # the locals at the head of an iteration
        vars_ = {}
        for did, b in env.vars.items():
            if did == did_i:
                vars_[did] = Binding("nat", "i", base=bi.base)
            elif did in assigned:
                vars_[did] = unassigned(b)
            elif b.name is not None and tokens(b.name) & self.impure:
                vars_[did] = unassigned(b)
                self.notes.append("local '%s' depends on the buffer state before the loop: not "
                                  "available in the loop body" % b.base)
            else:
                vars_[did] = b
        benv = FEnv(vars_, "buf", "pos", env.lets)
        wrap = lambda t: "LRet (%s)" % t
        bctx = Ctx("LRet FFault",
                   lambda e: "LNext %s %s" % (e.buf, e.pos),
                   lambda e: "LBreak %s %s" % (e.buf, e.pos),
                   lambda e: "LNext %s %s" % (e.buf, e.pos), None)
        bctx.on_return = lambda st, e: self.return_text(st, e, bctx, wrap)

        def body_text(conds, e):
            if not conds:
                return self.block([body], e, bctx)
            G = []
            c = self.cond(conds[0], e, G)
            return self.guarded(G, "if %s then\n%s\nelse\n%s" % (
                c, ind(body_text(conds[1:], e)), "LBreak %s %s" % (e.buf, e.pos)), bctx)
        self.in_loop = True
        text = body_text(conj[1:], benv)
        self.in_loop = False
        short = FORMATTERS[self.fn]["short"]
        name = "g_step_%s" % short
        first_l, last_l = node_line(s), s.get("range", {}).get("end", {}).get("line")
        step = "(* cat.c:%s-%s  %s: the body of its per-byte `for` loop *)\n" % (first_l, last_l, self.fn)
        step += "Definition %s (f : fsm) (oa ou : vobj) (i : nat) (buf : list N) (pos : nat) : lres :=\n%s.\n" % (
            name, ind("".join(env.lets) + text))
        for n2, t2 in self.aux:
            if n2 == name and t2 != step:
                refuse(s, "the loop is reached along two paths on which it is not the same")
        if (name, step) not in self.aux:
            self.aux.append((name, step))
        # what follows the loop
        after = {}
        for did, b in env.vars.items():
            after[did] = unassigned(b) if (did == did_i or did in assigned) else b
        nb, np_ = self.fresh("buf"), self.fresh("pos")
        self.impure.update((nb, np_))
        rest = k(FEnv(after, nb, np_, env.lets))
        return self.budget("run_for (%s f oa ou) (%s - %s)%%nat %s %s %s (fun %s %s =>\n%s)" % (
            name, bound, start, start, env.buf, env.pos, nb, np_, ind(rest)))

    # ---- blocks -------------------------------------------------------------------------------------
    def return_text(self, s, env, ctx, wrap=lambda t: t):
        if not s.get("inner"):
            refuse(s, "return without a value")
        e = strip(s["inner"][0])
        if self.callee_name(e) in PRINT_CALLS:                 # return <printing call>;
            G = []
            term = self.print_call_term(e, env, G)
            return self.guarded(G, wrap(term), ctx)
        n = self.lift(e, env, None)
        if n.kind == "int" and n.point == 0:
            return wrap("FRet %s %s true" % (env.buf, env.pos))
        if n.kind == "int" and n.point == -1:
            return wrap("FRet %s %s false" % (env.buf, env.pos))
        refuse(s, "returned value is not the constant 0 or -1 or the status of a printing call")

    def block(self, todo, env, ctx):
        if not todo:
            return ctx.on_end(env)
        s, rest = todo[0], todo[1:]
        kind = s.get("kind")
        k = lambda e: self.block(rest, e, ctx)
        if kind == "DeclStmt":
            return self.declarations(list(s.get("inner", [])), env, ctx, k)
        if kind == "ForStmt":
            return self.for_loop(s, env, ctx, k)
        if kind == "IfStmt" and not (s.get("hasInit") or s.get("hasVar")) \
                and len(s.get("inner", [])) in (2, 3):
            cc = self.call_condition(s["inner"][0])
            if cc is not None:
                call, when_failed = cc
                G = []
                term = self.print_call_term(call, env, G)

                def body(e, ok):
                    inner = ctx.with_(on_end=k)
                    t = self.block([s["inner"][1]], e, inner)
                    f = self.block([s["inner"][2]] if len(s["inner"]) == 3 else [], e, inner)
                    c = "negb %s" % ok if when_failed else ok
                    return "if %s then\n%s\nelse\n%s" % (c, ind(t), f)
                return self.guarded(G, self.effect_match(term, env, ctx, body), ctx)
            t = self.if_conversion(s, env, ctx, k)
            if t is not None:
                return t
        return super().block(todo, env, ctx)


# ======================================================================================
# 4. Functions and the generated file
# ======================================================================================

PARAM_TYPES = {      # kind of a helper parameter -> accepted C types (desugared, without const)
    "cobj": ("char *",), "fmt": ("char *",), "nat": ("unsigned long",), "u32": ("unsigned int",),
}


def plain_type(t):
    spelled = t.get("desugaredQualType", t.get("qualType", ""))
    return " ".join(w for w in spelled.replace("*", " * ").split() if w not in ("const", "volatile")) \
        .replace(" *", " *")


def translate_function(fn, d, defs):
    """One function -> (Coq text of its definitions, report entry)."""
    is_fmt = fn in FORMATTERS
    params = [c for c in d["inner"] if c.get("kind") == "ParmVarDecl"]
    body = [c for c in d["inner"] if c.get("kind") == "CompoundStmt"]
    spec = [] if is_fmt else HELPERS[fn]
    if d.get("variadic") or len(params) != 2 + len(spec) or len(body) != 1:
        refuse(d, "%s does not have exactly %d parameters" % (fn, 2 + len(spec)))
    if params[0].get("type", {}).get("qualType") != "struct cat_object *":
        refuse(d, "first parameter is not `struct cat_object *`")
    if params[-1].get("type", {}).get("qualType") != "cat_fsm_type":
        refuse(d, "last parameter is not `cat_fsm_type`")
    if not d.get("type", {}).get("qualType", "").startswith("int ("):
        refuse(d, "%s does not return int" % fn)
    tr = FormatTranslator(fn, params[0]["id"], params[-1]["id"], defs, is_fmt)
    vars_, binders = {params[-1]["id"]: Binding("fsm", "f", base="f")}, []
    for (c_name, kind, coq, coq_ty), prm in zip(spec, params[1:-1]):
        got = plain_type(prm.get("type", {}))
        if got not in PARAM_TYPES[kind]:
            refuse(prm, "parameter %s of %s has type '%s', the mapping table expects %s"
                   % (c_name, fn, got, " or ".join(PARAM_TYPES[kind])))
        if kind == "u32":
            ct = C_TYPES["unsigned int"]
            vars_[prm["id"]] = Binding("N", coq, ct, ct.lo, ct.hi, coq)
        elif kind == "nat":
            vars_[prm["id"]] = Binding("nat", coq, base=coq)
        else:
            vars_[prm["id"]] = Binding(kind, coq, base=coq)
        binders.append("(%s : %s)" % (coq, coq_ty))

    def on_end(env):
        raise Unsupported("control can reach the end of %s without a return" % fn)
    ctx = Ctx("FFault", on_end, None, None, None)
    ctx.on_return = lambda s, e: tr.return_text(s, e, ctx)
    term = tr.block(list(body[0].get("inner", [])), FEnv(vars_), ctx)
    if is_fmt and FORMATTERS[fn]["loop"] != bool(tr.aux):
        refuse(d, "%s %s" % (fn, "has no per-byte `for` loop" if FORMATTERS[fn]["loop"]
                             else "contains a loop"))
    first, last = node_line(d), d.get("range", {}).get("end", {}).get("line")
    head = "(f : fsm) (oa ou : vobj) " if is_fmt else " ".join(binders) + " "
    text = "".join(t + "\n" for _, t in tr.aux)
    text += "(* cat.c:%s-%s  %s *)\n" % (first, last, fn)
    text += "Definition g_%s %s(buf : list N) (pos : nat) : fres :=\n%s.\n" % (fn, head, ind(term))
    return text, {"status": "translated", "lines": [first, last], "notes": tr.notes,
                  "coq_names": [n for n, _ in tr.aux] + ["g_" + fn],
                  "callees": sorted(tr.callees)}


GEN_HEADER = """\
(* GENERATED by tools/format_translate.py from %(source)s -- do not edit, regenerated on every run.
   g_<fn> : a formatter / printing helper of cat.c on the working buffer (buf, pos) of the machine
   chosen by its parameter `fsm`; g_step_<f> : the body of the per-byte `for` loop of a buffer
   formatter (LNext = next iteration, LBreak = break, LRet = return).  Calls of the printing
   helpers are their MODEL functions (m_print_num, m_print_nstring).  C semantics explicit:
   unsigned values are N, signed values are Z, size_t is nat; see the tool's docstring. *)
From Coq Require Import List NArith ZArith Bool Arith.
From CatV Require Import Bytes Defs Codec.
From FormatTieGen Require Import FormatTieLib.
Import ListNotations.
Local Open Scope N_scope.
"""


def translate_parts(repo_src_dir):
    """-> (header, {fn: Coq text of its definitions}, report)."""
    src = os.path.join(repo_src_dir, "cat.c")
    header = GEN_HEADER % {"source": src}
    report, texts = {}, {}
    if char_is_unsigned():
        why = "plain char is unsigned for this compiler (or clang cannot be run); " \
              "the tie models signed char"
        return header, {}, {fn: {"status": "unsupported", "why": why} for fn in FORMAT_FUNCTIONS}
    defs, err = load_function_definitions(repo_src_dir)
    for fn in FORMAT_FUNCTIONS:
        if err:
            report[fn] = {"status": "unsupported", "why": err}
            continue
        if fn not in defs:
            report[fn] = {"status": "missing"}
            continue
        try:
            if len(defs[fn]) != 1:
                raise Unsupported("several definitions named %s" % fn)
            texts[fn], report[fn] = translate_function(fn, defs[fn][0], defs)
        except Unsupported as e:
            report[fn] = {"status": "unsupported", "why": str(e)}
        except (KeyError, IndexError, TypeError, ValueError, AttributeError, AssertionError) as e:
            report[fn] = {"status": "unsupported", "why": "unexpected AST shape: %r" % (e,)}
    return header, texts, report


def translate(repo_src_dir):
    """-> (coq_text, report); report[fn]['status'] in {'translated','unsupported','missing'}."""
    header, texts, report = translate_parts(repo_src_dir)
    return header + "\n" + "\n".join(texts[f] for f in FORMAT_FUNCTIONS if f in texts), report


# ======================================================================================
# 5. The tie: assemble FormatTie_<fn>.v from the template, compile, diagnose
# ======================================================================================

def coqc(path, coq_dir, workdir):
    """Compile one file of the work directory. -> (ok, stdout, tail of the error output)."""
    cmd = ["timeout", str(COQC_TIMEOUT_S), "coqc", "-q", "-Q", coq_dir, "CatV",
           "-Q", workdir, GEN_LOGICAL_PATH, path]
    try:
        p = subprocess.run(cmd, capture_output=True, text=True, cwd=workdir)
    except OSError as e:
        return False, "", "could not run coqc: %r" % (e,)
    tail = (p.stderr.strip() or p.stdout.strip())[-700:]
    if p.returncode == 124:
        tail = "coqc timed out after %d s; %s" % (COQC_TIMEOUT_S, tail)
    return p.returncode == 0, p.stdout, tail


def lib_is_in_project(coq_dir):
    """FormatTieLib is compiled in <coq_dir> and up to date: the generated files then import
    CatV.FormatTieLib instead of a private copy."""
    v, vo = os.path.join(coq_dir, LIB_NAME), os.path.join(coq_dir, LIB_NAME + "o")
    try:
        return os.path.getmtime(vo) >= os.path.getmtime(v)
    except OSError:
        return False


def use_project_lib(text):
    return text.replace("From %s Require Import FormatTieLib." % GEN_LOGICAL_PATH,
                        "From CatV Require Import FormatTieLib.")


INPUT_SHAPE = {
    "print_nstring_to_buf": "input = ((str, len), (buf, pos))",
    "print_string_to_buf": "input = (str, (buf, pos))",
    "print_format_num": "input = ((fmt, val), (buf, pos))",
    "formatter": "input = ((fsm, (self->var, self->unsolicited_fsm.var)), (buf, pos)); the "
                 "variable formatted is the one of machine fsm",
    "step": "input = (((fsm, (self->var, self->unsolicited_fsm.var)), i), (buf, pos)): one "
            "iteration of the loop at byte i",
}


def witness_names(fn):
    """The wit_* definitions of the CHECK block of fn: (name, what it compares, input shape)."""
    if fn in FORMATTERS and FORMATTERS[fn]["loop"]:
        return [("wit_step_" + fn, "the loop body (one iteration)", INPUT_SHAPE["step"]),
                ("wit_" + fn, "the whole function", INPUT_SHAPE["formatter"])]
    return [("wit_" + fn, "the whole function",
             INPUT_SHAPE["formatter" if fn in FORMATTERS else fn])]


def find_witness(segs, fn, coq_dir, workdir, fix):
    """Evaluate the wit_* definitions of fn with vm_compute in a file of its own.
    -> dict describing the first differing input, or None."""
    path = os.path.join(workdir, "FormatDiag_%s.v" % fn)
    names = witness_names(fn)
    evals = "".join("\nEval vm_compute in %s.\n" % n for n, _, _ in names)
    write(path, fix(assemble(segs, [fn], with_theorems=False)) + evals)
    ok, out, _ = coqc(path, coq_dir, workdir)
    if not ok:
        return None
    found = re.findall(r"=\s*(None|Some\s*\{\|.*?\|\})\s*:\s*option", out, re.S)
    if len(found) != len(names):
        return None
    for (name, what, shape), rec in zip(names, found):
        if rec == "None":
            continue
        rec = re.sub(r"\s+", " ", rec[4:].strip())
        w = {"what": what, "definition": name}
        for key, nxt in (("w_input", "w_generated"), ("w_generated", "w_model"), ("w_model", None)):
            pat = r"%s := (.*?)%s" % (key, r";\s*%s :=" % nxt if nxt else r"\s*\|\}$")
            mm = re.search(pat, rec)
            w[key[2:]] = mm.group(1).strip() if mm else None
        w["note"] = "as printed by Coq; " + shape
        return w
    return None


INDEX_HEADER = """\
(* GENERATED by tools/format_translate.py -- the format tie of this run: one module per C function
   whose tie theorems (coq/FormatTie.v.in) were all accepted by Coq, axiom-free. *)
"""


def run_format_tie(repo_src_dir, workdir, coq_dir, template_path=None):
    """Regenerate FormatGen.v from the C source, assemble the ties, compile, diagnose.
    -> dict: translated / unsupported / missing / proved / failed / wall_s (see module doc)."""
    t0 = time.time()
    repo_src_dir, workdir, coq_dir = (os.path.abspath(p) for p in (repo_src_dir, workdir, coq_dir))
    template_path = template_path or os.path.join(coq_dir, TEMPLATE_NAME)
    os.makedirs(workdir, exist_ok=True)
    for name in os.listdir(workdir):                  # never reuse anything from an older run
        if re.match(r"\.?Format(Gen|Tie|Diag|TieLib|GenProbe)", name):
            os.remove(os.path.join(workdir, name))

    header, texts, report = translate_parts(repo_src_dir)
    fns = list(report)
    translated = [f for f in fns if report[f]["status"] == "translated"]
    in_project = lib_is_in_project(coq_dir)
    if in_project:                                    # usable? (a stale .vo is not: private copy)
        probe = os.path.join(workdir, "FormatTieLibProbe.v")
        write(probe, "From CatV Require Import FormatTieLib.\n")
        in_project = coqc(probe, coq_dir, workdir)[0]
    fix = use_project_lib if in_project else (lambda t: t)
    res = {
        "source": os.path.join(repo_src_dir, "cat.c"),
        "translated": translated,
        "unsupported": {f: report[f]["why"] for f in fns if report[f]["status"] == "unsupported"},
        "missing": [f for f in fns if report[f]["status"] == "missing"],
        "proved": [], "failed": {},
        "lines": {f: report[f]["lines"] for f in translated},
        "notes": {f: report[f]["notes"] for f in translated if report[f].get("notes")},
        "depends_on": {f: report[f]["callees"] for f in translated if report[f].get("callees")},
        "contracts_unverified": {},
        "assumed_helpers": ASSUMED_HELPERS,
        "printf_table": dict(PRINTF_CONVERSIONS),
        "library": "CatV.FormatTieLib (compiled in %s)" % coq_dir if in_project
                   else "private copy of %s compiled in the work directory" % LIB_NAME,
        "files": {"generated": os.path.join(workdir, "FormatGen.v"),
                  "tie": os.path.join(workdir, "FormatTie.v"),
                  "per_function": os.path.join(workdir, "FormatTie_<fn>.v")},
    }

    def done():
        for f in res["proved"]:
            bad = [c for c in res["depends_on"].get(f, []) if c not in res["proved"]]
            if bad:
                res["contracts_unverified"][f] = bad
        res["wall_s"] = round(time.time() - t0, 2)
        return res

    def fail_all(todo, what, tail):
        for f in todo:
            res["failed"][f] = {"witness": None, "error": what, "coqc": tail}
        return done()

    def gen_text(skip=()):
        return header + "\n" + "\n".join(texts[f] for f in FORMAT_FUNCTIONS
                                         if f in texts and f not in skip)

    write(res["files"]["generated"], fix(gen_text()))
    with open(template_path) as f:
        segs = parse_template(f.read())
    known = {fn for fn, _, _ in segs if fn}
    for f in translated:
        if f not in known:
            res["failed"][f] = {"witness": None,
                                "error": "no block for this function in " + template_path}
    todo = [f for f in translated if f in known]

    if not in_project:
        lib = os.path.join(workdir, LIB_NAME)
        shutil.copyfile(os.path.join(coq_dir, LIB_NAME), lib)
        ok, _, tail = coqc(lib, coq_dir, workdir)
        if not ok:
            return fail_all(todo, LIB_NAME + " does not compile", tail)
    ok, _, tail = coqc(res["files"]["generated"], coq_dir, workdir)
    if not ok:                                        # a translator bug, not a difference:
        bad = []                                      # find the definitions Coq rejects ...
        for f in list(texts):
            probe = os.path.join(workdir, "FormatGenProbe_%s.v" % f)
            write(probe, fix(header + "\n" + texts[f]))
            ok1, _, tail1 = coqc(probe, coq_dir, workdir)
            if not ok1:
                bad.append(f)
                res["failed"][f] = {"witness": None, "coqc": tail1,
                                    "error": "the generated definition is not accepted by Coq "
                                             "(a translator bug, not a difference)"}
        todo = [f for f in todo if f not in bad]      # ... and go on without them
        write(res["files"]["generated"], fix(gen_text(bad)))
        ok, _, tail = coqc(res["files"]["generated"], coq_dir, workdir)
        if not ok or not bad:
            return fail_all(todo, "generated FormatGen.v does not compile", tail)
    if not todo:
        return done()

    def check_one(f):
        path = os.path.join(workdir, "FormatTie_%s.v" % f)
        text1 = fix(assemble(segs, [f]))
        write(path, text1)
        ok1, out1, tail1 = coqc(path, coq_dir, workdir)
        if ok1 and all_closed(out1, text1):
            return f, None
        w = find_witness(segs, f, coq_dir, workdir, fix)
        return f, {"witness": w,
                   "coqc": tail1 if not ok1 else "Print Assumptions not closed: " + out1[-400:]}

    with ThreadPoolExecutor(max_workers=min(8, (os.cpu_count() or 1))) as pool:
        singles = list(pool.map(check_one, todo))
    for f, failure in singles:
        if failure is None:
            res["proved"].append(f)
        else:
            if failure["witness"] is None:
                failure["error"] = ("tie theorem not accepted, but generated and model agree on "
                                    "the whole test family (or the diagnosis could not be run): "
                                    "the proof script no longer applies")
            res["failed"][f] = failure
    text = INDEX_HEADER + "".join("From %s Require Export FormatTie_%s.\n" % (GEN_LOGICAL_PATH, f)
                                  for f in res["proved"])
    write(res["files"]["tie"], text)
    ok, _, tail = coqc(res["files"]["tie"], coq_dir, workdir)
    if not ok:
        for f in res["proved"]:
            res["failed"][f] = {"witness": None, "coqc": tail,
                                "error": "proved alone but FormatTie.v does not compile"}
        res["proved"] = []
    return done()


def main(argv):
    if len(argv) != 4:
        sys.stderr.write("usage: format_translate.py <repo_src_dir> <workdir> <coq_dir>\n")
        return 2
    res = run_format_tie(argv[1], argv[2], argv[3])
    print(json.dumps(res, indent=2))
    return 1 if any(v.get("witness") for v in res["failed"].values()) else 0


if __name__ == "__main__":
    sys.exit(main(sys.argv))
