#!/usr/bin/env python3
"""codec_translate.py -- loop-body translator for the five typed argument DECODERS of cat.c
(parse_int_decimal, parse_uint_decimal, parse_num_hexadecimal, parse_buffer_hexadecimal,
parse_buffer_string) and the two range VALIDATORS (validate_int_range, validate_uint_range), and
driver of the "codec tie": a Coq proof, re-checked on every run, that the Gallina definitions
GENERATED from the C source equal the HAND-WRITTEN model functions of coq/Codec.v.

    python3 tools/codec_translate.py /repo/src /verif/build/codec /verif/coq

It complements tools/leaf_translate.py (five character functions, finite sweep) and
tools/handler_translate.py (38 loop-free state handlers).  Nothing is imported from those two
modules (they are edited independently); the few AST utilities that are the same are copied.

Pipeline (all offline: python3 stdlib + clang + coqc)

  cat.c --clang -ast-dump=json--> typed AST --translate()--> CodecGen.v
  coq/CodecTieLib.v  (static: the loop driver run_scan, the model scanners as step functions
                      m_step_* with the lemma "parse_*_go IS run_scan m_step_*" proved once, the
                      loop invariants, the tactic codec_tie, the test families)
  coq/CodecTie.v.in  (template) --assemble--> CodecTie.v   (theorems tie_*)
  coqc CodecTieLib.v ; coqc CodecGen.v ; coqc CodecTie.v
  a tie that fails -> CodecDiag_<fn>.v: generated and model evaluated (vm_compute) on a
  deterministic family of concrete (locals, character); the first one on which they differ is
  the WITNESS.

Scheme (loop body = step function).  Each decoder must have the shape

      <asserts>  <declarations of the locals, with constant initialisers>
      while (1) {                                                   (or `for (;;) {`)
              ch = get_atcmd_buf(self)[self->position++];          <- the FETCH
              BODY
      }
      <at most one unreachable `return <constant>;`>

(anything else is refused).  The loop is Coq's CodecTieLib.run_scan: one character of the text
behind the cursor per iteration, counted; running off the text = fault.  BODY is translated into
      g_step_<f> : L -> N -> sres L R        (L = the model's tuple of locals, N = ch)
`return e;` becomes `Return r`, falling out of BODY (or `continue`) becomes `Continue locals`;
a `break` that would leave the loop is refused.  Three things a refactoring typically introduces
are accepted because they need no guess: a local `char *buf = get_atcmd_buf(self);` used in the
FETCH instead of the call; locals that are NOT in the model, declared without initialiser, as
temporaries of one iteration (reading one before it is assigned in the iteration is refused, so
nothing is carried across iterations through them); calls of one-line helpers of cat.c
(`T f(params by value) { return e; }`), whose `e` is translated in place (section 4,
inline_call) and thus belongs to the generated side.
What is PROVED per decoder (CodecTie.v.in): g_step_<f> = m_step_<f> pointwise under the loop
invariant, g_init_<f> = the model's initial locals, hence (CodecTieLib.run_scan_ext + the static
lemma) run_scan g_step_<f> .. text 0 = the observable result of Codec.parse_<f> text, for ALL texts.
The validators are loop-free and translated whole: g_validate_<f> = vobs (Codec.validate_<f>).

Trusted in this tie: clang's parser/type checker (every implicit conversion is in the AST); the
MAPPING TABLE (section 1) and the C semantics written down in sections 3-6 of this file; the
statements of CodecTie.v.in and the definitions run_scan / nobs / bobs / vobs of CodecTieLib.v; Coq.
NOT trusted: the model functions (they are compared), the tactic (Coq checks its proofs).

C semantics made explicit (target: x86-64 Linux, LP64, little endian; `char` signed -- checked)
  * An unsigned C value is a Coq N, a signed one a Coq Z (the mathematical value).  Every integer
    expression carries its C type (from the AST) and a conservative interval of its values.
  * Unsigned arithmetic wraps: (a op b) mod 2^bits, the `mod` being omitted only when the interval
    shows that it is the identity.  Conversions: value preserving when the interval fits the
    target, otherwise to unsigned = modulo (c_wrap_u, C11 6.3.1.3p2), to signed = two's complement
    wrap (c_wrap_s, implementation-defined, what clang/gcc do).  `x << k`, k literal = x * 2^k in
    the type of x; `x >> k` on unsigned = N.shiftr x k.  `/`: divisor interval must exclude 0;
    signed division is Z.quot (truncation), written `/` when both operands are shown non-negative.
  * Signed arithmetic (+ - * unary- <<) is plain Z arithmetic.  When the interval does NOT show
    that the result is representable, the statement is guarded: `if c_in lo hi e then .. else
    <fault>` -- signed overflow is undefined behaviour, and Codec.v turns a would-be overflow into
    SFault (parse_int_go); the equality proof then has to show that the guard never fires where
    the model does not fault.  Guards are refused where C evaluates conditionally (right operand
    of && ||, branches of ?:).
  * Abstractions shared with the model (same as in handler_translate.py): a `char` object is the
    byte it holds (N; a text is a list of bytes < 256), so chars are only compared with == / != /
    switch against literals 0..127 (true for either signedness); when a char is used in
    arithmetic it is promoted as a SIGNED char (c_int_of_char).  size_t objects (size,
    data_size, write_size) are nat: no wrap-around (size is bounded by data_size).  An `int` local
    that the model keeps as a bool (ok; state of parse_buffer_hexadecimal) may only be assigned
    0, 1, !x or a comparison and only be tested; one that the model keeps as a nat (state) may
    only be assigned literals >= 0.  `self`, `self->var`, `ret` are never NULL.
  * Out-parameters: `*ret = e` and `self->write_size = e` are tracked as option values (None = not
    written); they may only be written on a path that returns in the same iteration.  The model
    functions are compared through CodecTieLib.nobs / bobs / vobs, which forget the components
    a caller must not look at (the value after an error, everything after a fault).
  * Stores: ((uint8_t *)(self->var->data))[i] = v is c_store data i v (None = outside the storage:
    fault); *(intN_t *)(self->var->data) = v is Codec.store_prefix data (le_bytes[_signed] N/8 v):
    little endian, alignment and effective-type rules not modelled.
  * A local of the model with no C counterpart (a mutation may delete one) is carried through the
    step unchanged and reported in 'notes'; a C local that is not in the table is refused.
  * The parameter `val` of a validator arrives as a 64-bit pattern: if its C type has the other
    signedness than the model's carrier (N for validate_uint, Z for validate_int), the generated
    code reinterprets the pattern (c_wrap_s / c_wrap_u) as the call does.
Everything else makes the function 'unsupported' with a reason; nothing is approximated.

Files written to the work directory: CodecGen.v (all generated definitions), one
CodecTie_<fn>.v per translated function (the template's common part + the blocks of that
function; compiled in parallel), CodecDiag_<fn>.v for a failed one, and CodecTie.v, which
re-exports the CodecTie_<fn> whose theorems were all accepted (`Print Assumptions`: closed).

Report (run_codec_tie): translated / unsupported{fn: why} / missing / proved / failed.
failed[fn] = {'witness': {...}} when generated and model DIFFER on a concrete input (both results
printed), or {'witness': None, 'coqc': ...} when they agree on the whole test family: then only
the proof script no longer applies (or they differ outside the family).  Exit status 1 iff some
tie failed with a witness.
"""

import json
import os
import re
import shutil
import subprocess
import sys
import time
from concurrent.futures import ThreadPoolExecutor

# ======================================================================================
# 1. THE MAPPING TABLE  (trusted: C vocabulary  <->  vocabulary of coq/Codec.v + CodecTieLib.v)
# ======================================================================================
# Kinds of locals = the Coq carrier the model uses for them:
#   N     an unsigned C integer (its value)          Z   a C integer (its value)
#   flag  an int only used as a truth value (bool)   nat a size_t / a small non-negative int
#   byte  a char (N, the byte)
COQ_TYPE = {"N": "N", "Z": "Z", "flag": "bool", "nat": "nat", "byte": "N"}

# ---- the decoders: C function -> model step function m_step_<short> of CodecTieLib.v ----
#   locals : the model's tuple L, in order: (C name, kind, Coq binder, model's initial value)
#   out    : the out-parameter `*ret` (C name, carrier) of the numeric decoders; buffer decoders
#            have the storage `data` as last component of L and write self->write_size instead
SCANNERS = {
    "parse_uint_decimal": {
        "short": "uint", "buffer": False, "out": ("ret", "N"),
        "locals": [("val", "N", "val", "0%N"), ("ok", "flag", "ok", "false")]},
    "parse_int_decimal": {
        "short": "int", "buffer": False, "out": ("ret", "Z"),
        "locals": [("val", "Z", "val", "0%Z"), ("sign", "Z", "sign", "0%Z"),
                   ("ok", "flag", "ok", "false")]},
    "parse_num_hexadecimal": {
        "short": "hex", "buffer": False, "out": ("ret", "N"),
        "locals": [("val", "N", "val", "0%N"), ("state", "nat", "st", "0%nat")]},
    "parse_buffer_hexadecimal": {
        "short": "bufhex", "buffer": True, "out": None,
        "locals": [("byte", "N", "byte", "0%N"), ("state", "flag", "st", "false"),
                   ("size", "nat", "size", "0%nat")]},
    "parse_buffer_string": {
        "short": "bufstr", "buffer": True, "out": None,
        "locals": [("state", "nat", "st", "0%nat"), ("size", "nat", "size", "0%nat")]},
}
# ---- the validators: C function -> (short name, carrier of the parameter `val`) ----
VALIDATORS = {"validate_int_range": ("int", "Z"), "validate_uint_range": ("uint", "N")}
CODEC_FUNCTIONS = list(SCANNERS) + list(VALIDATORS)

# ---- the character fetched in an iteration: `char ch;`, assigned by the FETCH ----
FETCH_LOCAL = "ch"
FETCH_BUFFER_GETTER = "get_atcmd_buf"         # the working buffer; text = what is behind position
FETCH_CURSOR_FIELD = "position"

# ---- what the object gives access to (everything else under `self` is refused) ----
#   self->var->access == CAT_VAR_ACCESS_READ_ONLY   <->  ro : bool   (!= : negb ro)
#   self->var->data_size                            <->  dsz : nat
#   self->var->data                                 <->  data : list N   (only in the store idioms)
#   self->write_size = e                            <->  the write_size component (option nat)
READ_ONLY_ENUMERATOR = "CAT_VAR_ACCESS_READ_ONLY"

# ---- helper calls -> model functions of Bytes.v (tied by tools/leaf_translate.py on all bytes)
#      C name: (result kind, C result type as desugared by clang, model term); one char argument
LEAF_CALLS = {
    "to_upper":                  ("byte",  "char",          "to_upper {0}"),
    "is_valid_dec_char":         ("truth", "int",           "is_dec {0}"),
    "is_valid_hex_char":         ("truth", "int",           "is_hex {0}"),
    "convert_hex_char_to_value": ("u8",    "unsigned char", "hexval {0}"),
}

# ---- returned status -> Codec.pstat / vres ----
#   decoders:   return -1 -> SErr    return 0 -> SOk false    return 1 -> SOk true
#               return c ? 1 : 0 -> SOk c      (c ? 0 : 1 -> SOk (negb c))
#   validators: return 0 -> GVOk data write_size            return -1 -> GVErr
#   undefined behaviour (guarded signed overflow, store outside the storage) -> the fault result

# ---- characters / constants with a name in coq/Bytes.v (others are written as numerals) ----
CHAR_NAMES = {0: "0", 34: "ch_QUOTE", 43: "ch_PLUS", 44: "ch_COMMA", 45: "ch_MINUS", 48: "ch_0",
              88: "ch_X", 92: "ch_BSL", 110: "ch_n", 10: "ch_LF"}
N_NAMES = {2 ** 64 - 1: "max_u64", 2 ** 64: "two64"}
Z_NAMES = {2 ** 63 - 1: "max_i64", -2 ** 63: "min_i64"}

TEMPLATE_NAME = "CodecTie.v.in"
LIB_NAME = "CodecTieLib.v"
GEN_LOGICAL_PATH = "CodecTieGen"
COQC_TIMEOUT_S = 300
CLANG_TIMEOUT_S = 60


class Unsupported(Exception):
    """Raised inside the translation of ONE function; becomes report[fn] = unsupported/why."""


# ======================================================================================
# 2. Getting the AST out of clang   (same utilities as in handler_translate.py)
# ======================================================================================

def char_is_unsigned():
    """True iff the compiler's plain `char` is unsigned on this target (we then refuse)."""
    try:
        p = subprocess.run(["clang", "-dM", "-E", "-x", "c", os.devnull],
                           capture_output=True, text=True, timeout=CLANG_TIMEOUT_S)
    except (OSError, subprocess.TimeoutExpired):
        return True
    return p.returncode != 0 or "__CHAR_UNSIGNED__" in p.stdout


def _fill_locations(obj, last):
    """clang's JSON omits 'line'/'file' in a location when equal to the previously printed one;
    fill them in (document order) so that every location is self-contained."""
    if isinstance(obj, dict):
        if "offset" in obj:
            for key in ("file", "line"):
                if key in obj:
                    last[key] = obj[key]
                elif key in last:
                    obj[key] = last[key]
        for v in obj.values():
            _fill_locations(v, last)
    elif isinstance(obj, list):
        for v in obj:
            _fill_locations(v, last)


def load_function_definitions(src_dir):
    """-> (dict name -> list of FunctionDecl nodes WITH a body, error text or None)."""
    cat_c = os.path.join(src_dir, "cat.c")
    try:
        p = subprocess.run(["clang", "-fsyntax-only", "-Xclang", "-ast-dump=json",
                            "-I" + src_dir, cat_c],
                           capture_output=True, text=True, timeout=CLANG_TIMEOUT_S)
    except (OSError, subprocess.TimeoutExpired) as e:
        return {}, "could not run clang: %r" % (e,)
    if p.returncode != 0:
        return {}, "clang failed (exit %d): %s" % (p.returncode, p.stderr.strip()[-800:])
    try:
        tu = json.loads(p.stdout)
    except ValueError as e:
        return {}, "cannot parse clang's JSON output: %s" % (e,)
    _fill_locations(tu, {})
    defs = {}
    for d in tu.get("inner", []):
        if d.get("kind") == "FunctionDecl" and \
                any(c.get("kind") == "CompoundStmt" for c in d.get("inner", [])):
            defs.setdefault(d.get("name"), []).append(d)
    return defs, None


def node_line(node):
    for loc in (node.get("range", {}).get("begin", {}), node.get("loc", {})):
        loc = loc.get("expansionLoc", loc)
        if "line" in loc:
            return loc["line"]
    return None


def refuse(node, why):
    line = node_line(node) if isinstance(node, dict) else None
    raise Unsupported(why + (" (line %d)" % line if line else ""))


def strip(node):
    """Remove parentheses and value-preserving wrappers that carry no meaning here."""
    while node.get("kind") in ("ParenExpr", "ConstantExpr"):
        node = node["inner"][0]
    return node


def walk(node):
    yield node
    for c in node.get("inner", []) or []:
        if isinstance(c, dict):
            yield from walk(c)


def strip_casts(node):
    while node.get("kind") in ("ImplicitCastExpr", "ParenExpr", "CStyleCastExpr", "ConstantExpr"):
        node = node["inner"][0]
    return node


def is_assert(node):
    """The expansion of glibc's assert(e): a parenthesised comma expression whose right side
    calls __assert_fail.  Accepted (and ignored) only if `e` has no side effect."""
    n = strip(node)
    if n.get("kind") != "BinaryOperator" or n.get("opcode") != ",":
        return False
    calls = [c for c in walk(n) if c.get("kind") == "CallExpr"]
    if not calls or not all(
            (strip_casts(c["inner"][0]).get("referencedDecl", {}).get("name") == "__assert_fail")
            for c in calls):
        return False
    for c in walk(n):
        if c.get("kind") == "UnaryOperator" and c.get("opcode") in ("++", "--"):
            return False
        if c.get("kind") == "CompoundAssignOperator" or \
                (c.get("kind") == "BinaryOperator" and c.get("opcode") == "="):
            return False
    return True


# ======================================================================================
# 3. C integer types and lifted values
# ======================================================================================

class CType:
    """An integer type of the target: width and signedness."""

    def __init__(self, name, bits, signed):
        self.name, self.bits, self.signed = name, bits, signed
        if signed:
            self.lo, self.hi = -(1 << (bits - 1)), (1 << (bits - 1)) - 1
        else:
            self.lo, self.hi = 0, (1 << bits) - 1

    def __eq__(self, other):
        return isinstance(other, CType) and self.name == other.name

    def __hash__(self):
        return hash(self.name)


# LP64, plain char signed (checked by char_is_unsigned()).  `long long` is kept apart from `long`
# only by name: clang converts between them explicitly.
C_TYPES = {t.name: t for t in [
    CType("char", 8, True), CType("signed char", 8, True), CType("unsigned char", 8, False),
    CType("short", 16, True), CType("unsigned short", 16, False),
    CType("int", 32, True), CType("unsigned int", 32, False),
    CType("long", 64, True), CType("unsigned long", 64, False),
    CType("long long", 64, True), CType("unsigned long long", 64, False),
]}
T_INT = C_TYPES["int"]
CHAR_LIKE = ("char", "signed char", "unsigned char")


def ctype_named(t):
    """clang's type record {qualType[, desugaredQualType]} -> CType or None (typedefs resolved by
    clang: desugaredQualType)."""
    spelled = t.get("desugaredQualType", t.get("qualType", ""))
    words = [w for w in spelled.split() if w not in ("const", "volatile")]
    return C_TYPES.get(" ".join(words))


def ctype_of(node, what="expression"):
    """The integer type of an AST node."""
    ct = ctype_named(node.get("type", {}))
    if ct is None:
        refuse(node, "%s of non-integer or unknown type '%s'"
               % (what, node.get("type", {}).get("qualType")))
    return ct


def nlit(n):
    return N_NAMES.get(n, "%d%%N" % n)


def zlit(n):
    return Z_NAMES.get(n, "%d%%Z" % n if n >= 0 else "(%d)%%Z" % n)


def blit(n):
    """A character constant as a byte of the model."""
    name = CHAR_NAMES.get(n)
    return ("%s%%N" % name if name.isdigit() else name) if name else "%d%%N" % n


class Val:
    """A lifted C expression.
       kind 'int'  : a C integer: ctype, interval [lo,hi] (python ints), Coq terms tN : N (only
                     if lo >= 0) and/or tZ : Z for its VALUE (at least one is present)
       kind 'nat'  : a size_t / state counter lifted to nat (term)
       kind 'byte' : a char lifted to the byte it holds (term : N)
       kind 'flag' : a C int known to be 0 or 1, as a bool (term)
       kind 'truth': a C int only meaningful as zero / non-zero, as a bool (term)"""

    def __init__(self, kind, term=None, ctype=None, lo=None, hi=None, tN=None, tZ=None):
        self.kind, self.term, self.ctype, self.lo, self.hi = kind, term, ctype, lo, hi
        self.tN, self.tZ = tN, tZ
        if kind == "int":
            assert ctype.lo <= lo <= hi <= ctype.hi, (ctype.name, lo, hi)
            assert tN is not None or tZ is not None
            assert tN is None or lo >= 0

    @property
    def point(self):
        """The value, if the expression is an integer constant."""
        return self.lo if self.kind == "int" and self.lo == self.hi else None

    def as_N(self):
        assert self.lo >= 0
        return self.tN if self.tN is not None else "(Z.to_N %s)" % self.tZ

    def as_Z(self):
        return self.tZ if self.tZ is not None else "(Z.of_N %s)" % self.tN


def int_const(n, ctype):
    return Val("int", ctype=ctype, lo=n, hi=n, tN=nlit(n) if n >= 0 else None, tZ=zlit(n))


def retype(v, ctype, lo=None, hi=None):
    return Val("int", ctype=ctype, lo=v.lo if lo is None else lo, hi=v.hi if hi is None else hi,
               tN=v.tN, tZ=v.tZ)


def modulus_N(bits):
    return nlit(1 << bits)


def convert(node, v, tgt):
    """C conversion of the integer value v to the integer type tgt (C11 6.3.1.3)."""
    if v.kind != "int":
        refuse(node, "conversion of a %s to %s" % (v.kind, tgt.name))
    if tgt.lo <= v.lo and v.hi <= tgt.hi:             # p1: representable, value unchanged
        return retype(v, tgt)
    if v.point is not None:                            # a constant: computed here
        m = 1 << tgt.bits
        n = v.point % m
        if tgt.signed and n > tgt.hi:
            n -= m
        return int_const(n, tgt)
    if not tgt.signed:                                 # p2: modulo 2^bits
        if v.tN is not None:
            t = "(%s mod %s)%%N" % (v.tN, modulus_N(tgt.bits))
        else:
            t = "(c_wrap_u %s %s)" % (zlit(1 << tgt.bits), v.tZ)
        return Val("int", ctype=tgt, lo=tgt.lo, hi=tgt.hi, tN=t)
    # p3: implementation-defined; clang/gcc: two's complement wrap
    return Val("int", ctype=tgt, lo=tgt.lo, hi=tgt.hi,
               tZ="(c_wrap_s %s %s)" % (zlit(1 << tgt.bits), v.as_Z()))


def guard_range(node, G, ty, term, what):
    """Signed result that the interval does not show representable: guard the statement."""
    if G is None:
        refuse(node, "signed %s that could overflow, in a conditionally evaluated operand" % what)
    G.append("c_in %s %s %s" % (zlit(ty.lo), zlit(ty.hi), term))


def arith(node, op, a, b, ty, G):
    """a op b computed in type ty (operands already converted to ty by clang).
    op in + - * / neg; shifts are handled by shift()."""
    for x in (a, b):
        if x is not None and (x.kind != "int" or x.ctype != ty):
            refuse(node, "operand of '%s' is not an integer of the operation's type %s"
                   % (op, ty.name))
    if ty.bits < 32:
        refuse(node, "arithmetic in a type narrower than int (%s)" % ty.name)
    # ---- the mathematical result: interval, terms ----
    tN = tZ = None
    if op == "neg":
        if not ty.signed:
            refuse(node, "unary minus in an unsigned type")
        lo, hi = -a.hi, -a.lo
        tZ = "(- %s)%%Z" % a.as_Z()
    elif op in ("+", "*"):
        if op == "+":
            lo, hi = a.lo + b.lo, a.hi + b.hi
        else:
            corners = [x * y for x in (a.lo, a.hi) for y in (b.lo, b.hi)]
            lo, hi = min(corners), max(corners)
        if a.lo >= 0 and b.lo >= 0:
            tN = "(%s %s %s)%%N" % (a.as_N(), op, b.as_N())
        if ty.signed or tN is None:
            tZ = "(%s %s %s)%%Z" % (a.as_Z(), op, b.as_Z())
    elif op == "-":
        lo, hi = a.lo - b.hi, a.hi - b.lo
        if lo >= 0 and b.lo >= 0:                      # truncated subtraction on N is exact here
            tN = "(%s - %s)%%N" % (a.as_N(), b.as_N())
        elif not ty.signed:                            # may wrap: add the modulus first
            m = 1 << ty.bits
            return Val("int", ctype=ty, lo=ty.lo, hi=ty.hi,
                       tN="((%s + %s - %s) mod %s)%%N" % (a.as_N(), nlit(m), b.as_N(), nlit(m)))
        if ty.signed or tN is None:
            tZ = "(%s - %s)%%Z" % (a.as_Z(), b.as_Z())
    elif op == "/":
        if b.lo <= 0 <= b.hi:
            refuse(node, "division whose divisor is not shown to be non-zero")
        if b.lo < 0:
            refuse(node, "division by a possibly negative value")
        if a.lo >= 0:
            lo, hi = a.lo // b.hi, a.hi // b.lo
            tN = "(%s / %s)%%N" % (a.as_N(), b.as_N())
            if ty.signed:
                tZ = "(%s / %s)%%Z" % (a.as_Z(), b.as_Z())     # = Z.quot: operands non-negative
        else:                                          # C truncates towards zero: Z.quot
            q = lambda x, y: abs(x) // y * (1 if x >= 0 else -1)
            lo, hi = min(q(a.lo, b.lo), q(a.lo, b.hi)), max(q(a.hi, b.lo), q(a.hi, b.hi))
            tZ = "(Z.quot %s %s)" % (a.as_Z(), b.as_Z())
    else:
        refuse(node, "arithmetic operator '%s'" % op)
    # ---- constants are computed here ----
    if lo == hi and ty.lo <= lo <= ty.hi:
        return int_const(lo, ty)
    # ---- the C result ----
    if ty.signed:
        if lo < ty.lo or hi > ty.hi:                   # could overflow: undefined behaviour
            guard_range(node, G, ty, tZ, "'%s' in type %s" % ("-" if op == "neg" else op, ty.name))
            lo, hi = max(lo, ty.lo), min(hi, ty.hi)
        return Val("int", ctype=ty, lo=lo, hi=hi, tN=tN if lo >= 0 else None, tZ=tZ)
    if hi > ty.hi:                                     # unsigned arithmetic wraps (6.2.5 p9)
        return Val("int", ctype=ty, lo=ty.lo, hi=ty.hi,
                   tN="(%s mod %s)%%N" % (tN, modulus_N(ty.bits)))
    return Val("int", ctype=ty, lo=lo, hi=hi, tN=tN)


def shift(node, op, a, k, ty, G):
    """a << k / a >> k with a literal k, in type ty = the (promoted) type of a."""
    if a.kind != "int" or a.ctype != ty or ty.bits < 32:
        refuse(node, "shift whose left operand is not of the operation's type")
    if k is None or not 0 <= k < ty.bits:
        refuse(node, "shift by something that is not a literal in [0, width)")
    if a.lo < 0:
        refuse(node, "shift of a possibly negative value")
    if op == ">>":
        return Val("int", ctype=ty, lo=a.lo >> k, hi=a.hi >> k,
                   tN="(N.shiftr %s %s)" % (a.as_N(), nlit(k)))
    if (1 << k) > ty.hi:
        refuse(node, "shift count too large for the type")
    return arith(node, "*", a, int_const(1 << k, ty), ty, G)       # x << k = x * 2^k


# ======================================================================================
# 4. Expressions
# ======================================================================================

class Binding:
    """What a C variable currently is: kind (section 1), the Coq name of its current value
    (assignments rename: val, val_1, ..), its C type and the interval of that value."""

    def __init__(self, kind, name, ctype=None, lo=None, hi=None, base=None):
        self.kind, self.name, self.ctype, self.lo, self.hi = kind, name, ctype, lo, hi
        self.base = base or name                      # the Coq binder of the model's tuple


class Env:
    """Immutable: variables (clang decl id -> Binding) and the three pieces of state outside the
    locals: the storage of the variable (Coq term or None when the function has none), and the
    two out-parameters *ret / self->write_size (Coq term of the value written, None = not yet)."""

    def __init__(self, vars_, data=None, wsize=None, ret=None):
        self.vars, self.data, self.wsize, self.ret = vars_, data, wsize, ret

    def bind(self, decl_id, binding):
        v = dict(self.vars)
        v[decl_id] = binding
        return Env(v, self.data, self.wsize, self.ret)

    def replace(self, **kw):
        e = Env(self.vars, self.data, self.wsize, self.ret)
        for k, v in kw.items():
            setattr(e, k, v)
        return e


CMP_SWAP = {">": "<?", ">=": "<=?"}          # a > b is written b <? a, as the model does
CMP_KEEP = {"<": "<?", "<=": "<=?", "==": "=?"}


def cmp_term(op, a, b, scope):
    if op == "!=":
        return "(negb (%s =? %s)%%%s)" % (a, b, scope)
    if op in CMP_SWAP:
        return "(%s %s %s)%%%s" % (b, CMP_SWAP[op], a, scope)
    return "(%s %s %s)%%%s" % (a, CMP_KEEP[op], b, scope)


class Translator:
    MAX_OUTPUT_CHARS = 60000          # refuse pathological inputs instead of exploding

    def __init__(self, fn, self_id, ret_id=None, out_kind=None, defs=None):
        self.fn, self.self_id, self.ret_id, self.out_kind = fn, self_id, ret_id, out_kind
        self.counter, self.emitted, self.notes = {}, 0, []
        self.defs = defs or {}            # name -> FunctionDecl nodes with a body (for inlining)
        self.inline_depth = 0

    # ---- helpers -----------------------------------------------------------------------
    def fresh(self, base):
        self.counter[base] = n = self.counter.get(base, 0) + 1
        return "%s_%d" % (base, n)

    def budget(self, text):
        self.emitted += len(text)
        if self.emitted > self.MAX_OUTPUT_CHARS:
            raise Unsupported("function too large for the codec translator")
        return text

    def is_self(self, node):
        node = strip(node)
        if node.get("kind") == "ImplicitCastExpr" and node.get("castKind") == "LValueToRValue":
            node = strip(node["inner"][0])
        return node.get("kind") == "DeclRefExpr" and \
            node.get("referencedDecl", {}).get("id") == self.self_id

    def obj_field(self, node):
        """node = self->F  ->  F, else None."""
        node = strip(node)
        if node.get("kind") == "MemberExpr" and node.get("isArrow") \
                and self.is_self(node["inner"][0]):
            return node.get("name")
        return None

    def var_field(self, node):
        """node = self->var->F  ->  F, else None."""
        node = strip(node)
        if node.get("kind") != "MemberExpr" or not node.get("isArrow"):
            return None
        base = strip(node["inner"][0])
        if base.get("kind") == "ImplicitCastExpr" and base.get("castKind") == "LValueToRValue" \
                and self.obj_field(base["inner"][0]) == "var":
            return node.get("name")
        return None

    # ---- reading variables ---------------------------------------------------------------
    def read_binding(self, node, b):
        if b.name is None:
            refuse(node, "temporary '%s' may be read before it is assigned in the iteration"
                   % b.base)
        if b.kind in ("N", "Z"):
            if ctype_of(node) != b.ctype:
                refuse(node, "variable read at a type different from its declaration")
            if b.kind == "N":                         # an unsigned C integer, value in N
                return Val("int", ctype=b.ctype, lo=b.lo, hi=b.hi, tN=b.name)
            if b.ctype.signed:                        # value in Z
                return Val("int", ctype=b.ctype, lo=b.lo, hi=b.hi,
                           tN="(Z.to_N %s)" % b.name if b.lo >= 0 else None, tZ=b.name)
            # an unsigned C integer that the model keeps in Z: the value is non-negative
            return Val("int", ctype=b.ctype, lo=b.lo, hi=b.hi, tN="(Z.to_N %s)" % b.name,
                       tZ=b.name)
        return Val(b.kind, term=b.name)

    def read_lvalue(self, node, env):
        node = strip(node)
        kind = node.get("kind")
        if kind == "DeclRefExpr":
            did = node.get("referencedDecl", {}).get("id")
            if did in env.vars:
                return self.read_binding(node, env.vars[did])
            refuse(node, "read of '%s', which is not a mapped local or parameter"
                   % node.get("referencedDecl", {}).get("name"))
        if kind == "MemberExpr":
            if self.var_field(node) == "data_size":
                return Val("nat", term="dsz")
            refuse(node, "read of member '%s', which is not in the mapping table" % node.get("name"))
        refuse(node, "read of an lvalue of kind %s" % kind)

    # ---- values --------------------------------------------------------------------------
    def lift(self, node, env, G):
        """Lift a C expression.  G = list receiving the overflow guards of the statement being
        translated (None where C evaluates the expression conditionally)."""
        node = strip(node)
        kind = node.get("kind")

        if kind == "IntegerLiteral":
            ty, n = ctype_of(node), int(node["value"])
            if not ty.lo <= n <= ty.hi:
                refuse(node, "integer literal %d outside its type %s" % (n, ty.name))
            return int_const(n, ty)
        if kind == "CharacterLiteral":               # type int in C; value given by clang
            ty, n = ctype_of(node), int(node["value"])
            if ty != T_INT or not 0 <= n <= 255:
                refuse(node, "character literal that is not a plain one")
            return int_const(n, ty)

        if kind in ("ImplicitCastExpr", "CStyleCastExpr"):
            ck, sub = node.get("castKind"), node["inner"][0]
            if ck == "LValueToRValue":
                return self.read_lvalue(sub, env)
            if ck in ("IntegralCast", "NoOp"):
                v, tgt = self.lift(sub, env, G), ctype_of(node, "cast")
                if v.kind == "byte":
                    if tgt.name in CHAR_LIKE:         # still the same byte
                        return v
                    promoted = Val("int", ctype=C_TYPES["char"], lo=-128, hi=127,
                                   tZ="(c_int_of_char %s)" % v.term)   # plain char is signed
                    return convert(node, promoted, tgt)
                return convert(node, v, tgt)
            refuse(node, "conversion of kind %s" % ck)

        if kind == "UnaryOperator":
            op, sub = node.get("opcode"), node["inner"][0]
            if op == "!":
                return Val("flag", term="(negb %s)" % self.cond(sub, env, G))
            if op == "+":
                return convert(node, self.lift(sub, env, G), ctype_of(node))
            if op == "-":
                return arith(node, "neg", self.lift(sub, env, G), None, ctype_of(node), G)
            if op in ("++", "--"):
                refuse(node, "'%s' inside an expression (side effect)" % op)
            refuse(node, "unary operator '%s'" % op)

        if kind == "BinaryOperator":
            op = node.get("opcode")
            lhs, rhs = node["inner"]
            if op in ("+", "-", "*", "/"):
                a, b = self.lift(lhs, env, G), self.lift(rhs, env, G)
                if a.kind == "nat" and op == "+" and b.point == 1:
                    return Val("nat", term="(S %s)" % a.term)
                return arith(node, op, a, b, ctype_of(node), G)
            if op in ("<<", ">>"):
                a, k = self.lift(lhs, env, G), self.lift(rhs, env, G)
                return shift(node, op, a, k.point, ctype_of(node), G)
            if op in ("==", "!=", "<", "<=", ">", ">=", "&&", "||"):
                return Val("flag", term=self.cond(node, env, G))
            if op == "=":
                refuse(node, "assignment inside an expression (side effect)")
            refuse(node, "binary operator '%s'" % op)

        if kind == "CompoundAssignOperator":
            refuse(node, "compound assignment inside an expression (side effect)")

        if kind == "ConditionalOperator":
            c, x, y = node["inner"]
            ct = self.cond(c, env, G)
            a, b = self.lift(x, env, None), self.lift(y, env, None)
            if a.kind == "nat" and b.point is not None and b.point >= 0:
                b = Val("nat", term="%d%%nat" % b.point)
            if b.kind == "nat" and a.point is not None and a.point >= 0:
                a = Val("nat", term="%d%%nat" % a.point)
            if a.kind == "nat" and b.kind == "nat":
                return Val("nat", term="(if %s then %s else %s)" % (ct, a.term, b.term))
            if a.kind == "int" and b.kind == "int" and a.ctype == b.ctype == ctype_of(node):
                lo, hi = min(a.lo, b.lo), max(a.hi, b.hi)
                tN = "(if %s then %s else %s)" % (ct, a.as_N(), b.as_N()) if lo >= 0 else None
                tZ = "(if %s then %s else %s)" % (ct, a.as_Z(), b.as_Z()) \
                    if (a.ctype.signed or tN is None) else None
                return Val("int", ctype=a.ctype, lo=lo, hi=hi, tN=tN, tZ=tZ)
            refuse(node, "branches of ?: of kinds %s / %s" % (a.kind, b.kind))

        if kind == "CallExpr":
            return self.call(node, env, G)

        refuse(node, "expression of kind %s" % kind)

    def call(self, node, env, G):
        callee = node["inner"][0]
        while callee.get("kind") in ("ImplicitCastExpr", "ParenExpr"):
            callee = callee["inner"][0]
        decl = callee.get("referencedDecl", {})
        name = decl.get("name") if callee.get("kind") == "DeclRefExpr" else None
        if name not in LEAF_CALLS:
            return self.inline_call(node, name, env, G)
        rkind, rtype, tmpl = LEAF_CALLS[name]
        args = node["inner"][1:]
        if len(args) != 1:
            refuse(node, "call of %s with %d arguments" % (name, len(args)))
        a = self.lift(args[0], env, G)
        if a.kind != "byte":
            refuse(node, "argument of %s is not a char" % name)
        got = node.get("type", {})
        got = got.get("desugaredQualType", got.get("qualType"))
        if got != rtype:
            refuse(node, "%s returns '%s', the mapping table expects '%s'" % (name, got, rtype))
        term = "(%s)" % tmpl.format(a.term)
        if rkind == "u8":
            return Val("int", ctype=C_TYPES["unsigned char"], lo=0, hi=255, tN=term)
        return Val(rkind, term=term)

    def inline_call(self, node, name, env, G):
        """A call of a function of cat.c that is NOT in the mapping table (e.g. a helper
        introduced by a refactoring) is not guessed: if the callee is `T f(params by value)
        { [asserts] return e; }` with char / integer parameters, e is translated with the
        parameters bound to the arguments (it then belongs to the GENERATED side of the tie);
        otherwise the caller is unsupported."""
        cands = self.defs.get(name, [])
        if len(cands) != 1 or self.inline_depth >= 3:
            refuse(node, "call of '%s', which is not in the mapping table" % name)
        d = cands[0]
        params = [c for c in d["inner"] if c.get("kind") == "ParmVarDecl"]
        body = [c for c in d["inner"] if c.get("kind") == "CompoundStmt"][0]
        stmts = [x for x in body.get("inner", []) if not is_assert(x) and x.get("kind") != "NullStmt"]
        args = node["inner"][1:]
        if d.get("variadic") or len(args) != len(params) or len(stmts) != 1 \
                or stmts[0].get("kind") != "ReturnStmt" or not stmts[0].get("inner"):
            refuse(node, "call of '%s', which is not in the mapping table and is not a "
                         "one-line `return e;` helper" % name)
        vars_ = {}
        for prm, arg in zip(params, args):
            ty, a = ctype_of(prm, "parameter of %s" % name), self.lift(arg, env, G)
            if a.kind == "byte" and ty.name in CHAR_LIKE:
                vars_[prm["id"]] = Binding("byte", a.term)
            elif a.kind == "int":
                a = convert(node, a, ty)
                vars_[prm["id"]] = Binding("Z" if ty.signed else "N",
                                           a.as_Z() if ty.signed else a.as_N(), ty, a.lo, a.hi)
            else:
                refuse(node, "argument of kind %s passed to helper %s" % (a.kind, name))
        self.inline_depth += 1
        try:
            v = self.lift(stmts[0]["inner"][0], Env(vars_), G)
        finally:
            self.inline_depth -= 1
        note = "helper %s (not in the mapping table) inlined from its definition at line %s" % (
            name, node_line(d))
        if note not in self.notes:
            self.notes.append(note)
        if v.kind == "int":
            return convert(node, v, ctype_of(node, "result of %s" % name))
        if v.kind in ("flag", "truth") and ctype_of(node, "result of %s" % name) == T_INT:
            return v
        refuse(node, "helper %s returns a %s" % (name, v.kind))

    # ---- truth values ------------------------------------------------------------------------
    def cond(self, node, env, G):
        """Coq bool for the C truth value (e != 0) of node."""
        node = strip(node)
        kind, op = node.get("kind"), node.get("opcode")
        if kind == "BinaryOperator" and op in ("&&", "||"):
            a = self.cond(node["inner"][0], env, G)
            b = self.cond(node["inner"][1], env, None)      # evaluated conditionally
            return "(%s %s %s)" % (a, op, b)
        if kind == "UnaryOperator" and op == "!":
            return "(negb %s)" % self.cond(node["inner"][0], env, G)
        if kind == "BinaryOperator" and op in ("==", "!=", "<", "<=", ">", ">="):
            return self.comparison(node, op, env, G)
        v = self.lift(node, env, G)
        if v.kind in ("flag", "truth"):
            return v.term
        if v.kind == "nat":
            return "(negb (%s =? 0)%%nat)" % v.term
        if v.kind == "byte":
            return "(negb (%s =? 0)%%N)" % v.term
        if v.point is not None:
            return "true" if v.point != 0 else "false"
        if v.ctype.signed:
            return "(negb (%s =? 0)%%Z)" % v.as_Z()
        return "(negb (%s =? 0)%%N)" % v.as_N()

    def access_test(self, node, lhs, rhs):
        """self->var->access ==/!= CAT_VAR_ACCESS_READ_ONLY (either order) -> True."""
        for x, y in ((lhs, rhs), (rhs, lhs)):
            xm, ye = strip_casts(x), strip_casts(y)
            if xm.get("kind") == "MemberExpr" and self.var_field(xm) == "access":
                enum = ye.get("referencedDecl", {})
                if ye.get("kind") == "DeclRefExpr" and enum.get("kind") == "EnumConstantDecl" \
                        and enum.get("name") == READ_ONLY_ENUMERATOR:
                    return True
                refuse(node, "self->var->access compared with something other than %s"
                       % READ_ONLY_ENUMERATOR)
        return False

    def byte_operand(self, node, env):
        """node = (int)c for a char-valued c -> the byte term of c, else None."""
        n = strip(node)
        if n.get("kind") == "ImplicitCastExpr" and n.get("castKind") == "IntegralCast":
            try:
                v = self.lift(n["inner"][0], env, [])      # chars never need guards
            except Unsupported:
                return None
            if v.kind == "byte":
                return v.term
        return None

    def comparison(self, node, op, env, G):
        lhs, rhs = node["inner"]
        if self.access_test(node, lhs, rhs):
            if op not in ("==", "!="):
                refuse(node, "ordering comparison on self->var->access")
            return "ro" if op == "==" else "(negb ro)"
        # a char ==/!= a character constant 0..127: equality of bytes (true for either signedness
        # of char); every other comparison of a char goes through its promotion (c_int_of_char)
        if op in ("==", "!="):
            for x, y in ((lhs, rhs), (rhs, lhs)):
                bt = self.byte_operand(x, env)
                if bt is not None:
                    try:
                        c = self.lift(y, env, []).point
                    except Unsupported:
                        c = None
                    if c is not None and 0 <= c <= 127:
                        return cmp_term(op, bt, blit(c), "N")
        a, b = self.lift(lhs, env, G), self.lift(rhs, env, G)
        # a flag / truth value against 0 or 1
        for x, y in ((a, b), (b, a)):
            if x.kind in ("flag", "truth") and y.point is not None:
                if op in ("==", "!=") and y.point == 0:
                    return "(negb %s)" % x.term if op == "==" else x.term
                if op in ("==", "!=") and y.point == 1 and x.kind == "flag":
                    return x.term if op == "==" else "(negb %s)" % x.term
                refuse(node, "a truth value may only be compared with == / != against 0 (or 1)")
        # a counter against a non-negative constant
        if a.kind == "nat" and b.point is not None and b.point >= 0:
            b = Val("nat", term="%d%%nat" % b.point)
        if b.kind == "nat" and a.point is not None and a.point >= 0:
            a = Val("nat", term="%d%%nat" % a.point)
        if a.kind == "nat" and b.kind == "nat":
            return cmp_term(op, a.term, b.term, "nat")
        if a.kind == "int" and b.kind == "int":
            if a.ctype != b.ctype or a.ctype.bits < 32:
                refuse(node, "comparison operands not converted to a common type >= int")
            if a.ctype.signed:
                return cmp_term(op, a.as_Z(), b.as_Z(), "Z")
            return cmp_term(op, a.as_N(), b.as_N(), "N")
        refuse(node, "comparison of a %s with a %s" % (a.kind, b.kind))


# ======================================================================================
# 5. Statements (continuation-passing: the rest of a block is translated once per branch)
# ======================================================================================

def ind(text, n=2):
    pad = " " * n
    return "\n".join(pad + line if line else line for line in text.split("\n"))


class Ctx:
    """Where control goes: fault = Coq term answered on undefined behaviour; on_end(env) = text
    for falling out of the current block; on_break / on_continue(env) (None = not allowed here);
    on_return(stmt, env) = text for a return statement."""

    def __init__(self, fault, on_end, on_break, on_continue, on_return):
        self.fault, self.on_end, self.on_break = fault, on_end, on_break
        self.on_continue, self.on_return = on_continue, on_return

    def with_(self, **kw):
        c = Ctx(self.fault, self.on_end, self.on_break, self.on_continue, self.on_return)
        for k, v in kw.items():
            setattr(c, k, v)
        return c


class StatementTranslator(Translator):

    def guarded(self, G, text, ctx):
        """`text`, executed only if every overflow guard collected for the statement holds."""
        for g in reversed(G):
            text = "if %s then\n%s\nelse %s" % (g, ind(text), ctx.fault)
        return self.budget(text)

    # ---- assignments -------------------------------------------------------------------------
    def assign_local(self, node, b, did, v, env):
        """-> (let-line, new env) for storing the lifted value v into the local bound by b."""
        if b.kind in ("N", "Z"):
            v = convert(node, v, b.ctype)             # (clang has already converted)
            name = self.fresh(b.base)
            term = v.as_N() if b.kind == "N" else v.as_Z()
            return "let %s := %s in\n" % (name, term), \
                env.bind(did, Binding(b.kind, name, b.ctype, v.lo, v.hi, b.base))
        if b.kind == "flag":
            if v.kind == "flag":
                term = v.term
            elif v.point in (0, 1):
                term = "true" if v.point else "false"
            else:
                refuse(node, "a flag (int kept as bool by the model) is assigned something other "
                             "than 0, 1, !x or a comparison")
        elif b.kind == "nat":
            if v.kind == "nat":
                term = v.term
            elif v.point is not None and v.point >= 0:
                term = "%d%%nat" % v.point
            else:
                refuse(node, "a counter (kept as nat by the model) is assigned something other "
                             "than a non-negative constant or another counter")
        elif b.kind == "byte":
            if v.kind == "byte":
                term = v.term
            elif v.point is not None and 0 <= v.point <= 127:
                term = blit(v.point)
            else:
                refuse(node, "a char is assigned something other than a char or a constant 0..127")
        else:
            refuse(node, "assignment to a variable of kind %s" % b.kind)
        name = self.fresh(b.base)
        return "let %s := %s in\n" % (name, term), \
            env.bind(did, Binding(b.kind, name, base=b.base))

    def data_pointer(self, node, lvalue):
        """node = (T *)(self->var->data), lvalue = the object designated through it (*node or
        node[i])  ->  the pointee type T as a CType, else None."""
        node = strip(node)
        if node.get("kind") != "CStyleCastExpr" or node.get("castKind") != "BitCast":
            return None
        sub = strip(node["inner"][0])
        if sub.get("kind") != "ImplicitCastExpr" or sub.get("castKind") != "LValueToRValue" \
                or self.var_field(sub["inner"][0]) != "data":
            return None
        return ctype_named(lvalue.get("type", {}))

    def byte_value(self, node, v):
        """The byte stored by `... = v` into a uint8_t object."""
        if v.kind == "byte":
            return v.term
        if v.kind == "int" and v.ctype.bits == 8 and not v.ctype.signed:
            return v.as_N()
        refuse(node, "value stored into the variable's storage is not a uint8_t / char")

    def expression_statement(self, s, env, ctx, k):
        """Assignments, compound assignments, x++.  k(env) = text of what follows."""
        kind, op, G = s.get("kind"), s.get("opcode"), []

        if kind == "BinaryOperator" and op == "=":
            lhs, rhs = strip(s["inner"][0]), s["inner"][1]
            # ---- x = e ----
            if lhs.get("kind") == "DeclRefExpr":
                did = lhs.get("referencedDecl", {}).get("id")
                if did not in env.vars:
                    refuse(s, "assignment to '%s', which is not a mapped local"
                           % lhs.get("referencedDecl", {}).get("name"))
                let, env2 = self.assign_local(s, env.vars[did], did, self.lift(rhs, env, G), env)
                return self.guarded(G, let + k(env2), ctx)
            # ---- *ret = e ----
            if lhs.get("kind") == "UnaryOperator" and lhs.get("opcode") == "*":
                ptr = strip(lhs["inner"][0])
                tgt = strip(ptr["inner"][0]) if ptr.get("kind") == "ImplicitCastExpr" \
                    and ptr.get("castKind") == "LValueToRValue" else {}
                if tgt.get("kind") == "DeclRefExpr" and self.ret_id is not None \
                        and tgt.get("referencedDecl", {}).get("id") == self.ret_id:
                    v = convert(s, self.lift(rhs, env, G), ctype_of(lhs, "out-parameter"))
                    if self.out_kind == "N" and v.ctype.signed:
                        refuse(s, "the out-parameter has a signed type but the model's is N")
                    term = v.as_N() if self.out_kind == "N" else v.as_Z()
                    return self.guarded(G, k(env.replace(ret="(Some %s)" % term)), ctx)
                # ---- *(intN_t *)(self->var->data) = e ----
                pointee = self.data_pointer(ptr, lhs)
                if pointee is not None and env.data is not None:
                    v = convert(s, self.lift(rhs, env, G), pointee)
                    nbytes = pointee.bits // 8
                    stored = "(le_bytes_signed %d %s)" % (nbytes, v.as_Z()) if pointee.signed \
                        else "(le_bytes %d %s)" % (nbytes, v.as_N())
                    name = self.fresh("data")
                    text = "match store_prefix %s %s with\n| None => %s\n| Some %s =>\n%s\nend" % (
                        env.data, stored, ctx.fault, name, ind(k(env.replace(data=name))))
                    return self.guarded(G, text, ctx)
                refuse(s, "store through a pointer that is not `ret` or (T *)(self->var->data)")
            # ---- self->write_size = e ----
            if lhs.get("kind") == "MemberExpr" and self.obj_field(lhs) == "write_size":
                v = self.lift(rhs, env, G)
                if v.kind == "nat":
                    term = v.term
                elif v.point is not None and v.point >= 0:
                    term = "%d%%nat" % v.point
                else:
                    refuse(s, "self->write_size is assigned something that is not a size")
                return self.guarded(G, k(env.replace(wsize="(Some %s)" % term)), ctx)
            # ---- ((uint8_t *)(self->var->data))[i] = e ----
            if lhs.get("kind") == "ArraySubscriptExpr":
                base, idx = lhs["inner"]
                pointee = self.data_pointer(base, lhs)
                if pointee is None or env.data is None:
                    refuse(s, "array store that is not into (uint8_t *)(self->var->data)")
                if pointee != C_TYPES["unsigned char"]:
                    refuse(s, "array store into the storage with an element type other than uint8_t")
                value = self.byte_value(s, self.lift(rhs, env, G))
                idx, env2 = strip(idx), env
                if idx.get("kind") == "UnaryOperator" and idx.get("opcode") == "++":
                    if not idx.get("isPostfix"):
                        refuse(s, "prefix ++ in an array index")
                    tgt = strip(idx["inner"][0])
                    did = tgt.get("referencedDecl", {}).get("id")
                    b = env.vars.get(did)
                    if tgt.get("kind") != "DeclRefExpr" or b is None or b.kind != "nat":
                        refuse(s, "index++ on something that is not a size counter")
                    index = b.name
                    let, env2 = self.assign_local(s, b, did, Val("nat", term="(S %s)" % b.name), env)
                else:
                    iv, let = self.lift(idx, env, G), ""
                    if iv.kind != "nat":
                        refuse(s, "array index that is not a size counter")
                    index = iv.term
                name = self.fresh("data")
                text = "match c_store %s %s %s with\n| None => %s\n| Some %s =>\n%s\nend" % (
                    env.data, index, value, ctx.fault, name,
                    ind(let + k(env2.replace(data=name))))
                return self.guarded(G, text, ctx)
            refuse(s, "assignment to something that is not in the mapping table")

        if kind == "CompoundAssignOperator":
            lhs, rhs = strip(s["inner"][0]), s["inner"][1]
            did = lhs.get("referencedDecl", {}).get("id")
            b = env.vars.get(did)
            if lhs.get("kind") != "DeclRefExpr" or b is None or b.kind not in ("N", "Z"):
                refuse(s, "compound assignment to something that is not an integer local")
            bop = op[:-1]
            lty = ctype_named(s.get("computeLHSType", {}))
            rty = ctype_named(s.get("computeResultType", {}))
            if lty is None or rty is None or lty != rty:
                refuse(s, "compound assignment with an unexpected computation type")
            a = convert(s, self.read_binding(lhs, b), lty)
            r = self.lift(rhs, env, G)
            if bop in ("<<", ">>"):
                v = shift(s, bop, a, r.point, rty, G)
            elif bop in ("+", "-", "*", "/"):
                v = arith(s, bop, a, r, rty, G)
            else:
                refuse(s, "compound assignment '%s'" % op)
            let, env2 = self.assign_local(s, b, did, v, env)
            return self.guarded(G, let + k(env2), ctx)

        if kind == "UnaryOperator" and op in ("++", "--"):
            tgt = strip(s["inner"][0])
            did = tgt.get("referencedDecl", {}).get("id")
            b = env.vars.get(did)
            if tgt.get("kind") != "DeclRefExpr" or b is None:
                refuse(s, "'%s' on something that is not a mapped local" % op)
            if b.kind == "nat" and op == "++":
                v = Val("nat", term="(S %s)" % b.name)
            elif b.kind in ("N", "Z") and b.ctype.bits >= 32:
                v = arith(s, "+" if op == "++" else "-", self.read_binding(tgt, b),
                          int_const(1, b.ctype), b.ctype, G)
            else:
                refuse(s, "'%s' on a %s" % (op, b.kind))
            let, env2 = self.assign_local(s, b, did, v, env)
            return self.guarded(G, let + k(env2), ctx)

        if kind == "CallExpr":
            refuse(s, "call used as a statement")
        refuse(s, "statement of kind %s" % kind)

    # ---- switch ----------------------------------------------------------------------------------
    def switch(self, s, env, ctx, k):
        if s.get("hasInit") or s.get("hasVar") or len(s.get("inner", [])) != 2:
            refuse(s, "switch with initialiser/declaration")
        scrut_node, body = s["inner"]
        if body.get("kind") != "CompoundStmt":
            refuse(s, "switch whose body is not a block")
        G = []
        bt = self.byte_operand(scrut_node, env)
        if bt is not None:
            test = lambda c: cmp_term("==", bt, blit(c), "N")
            ok_label = lambda c: 0 <= c <= 127
        else:
            v = self.lift(scrut_node, env, G)
            if v.kind == "nat":
                test = lambda c: cmp_term("==", v.term, "%d%%nat" % c, "nat")
                ok_label = lambda c: c >= 0
            elif v.kind == "int" and v.ctype.bits >= 32:
                if v.ctype.signed:
                    test = lambda c: cmp_term("==", v.as_Z(), zlit(c), "Z")
                else:
                    test = lambda c: cmp_term("==", v.as_N(), nlit(c), "N")
                ok_label = lambda c: v.ctype.lo <= c <= v.ctype.hi
            else:
                refuse(s, "switch over a %s" % v.kind)
        # groups of statements, each introduced by one or more labels
        groups = []
        for item in body.get("inner", []):
            labels = []
            while item.get("kind") in ("CaseStmt", "DefaultStmt"):
                if item["kind"] == "CaseStmt":
                    if len(item["inner"]) != 2:
                        refuse(item, "case range")
                    c = self.lift(item["inner"][0], env, None).point
                    if c is None or not ok_label(c):
                        refuse(item, "case label that is not a constant the scrutinee can take")
                    labels.append(c)
                    item = item["inner"][1]
                else:
                    labels.append("default")
                    item = item["inner"][0]
            if labels:
                groups.append((labels, [item]))
            elif groups:
                groups[-1][1].append(item)
            else:
                refuse(item, "statement before the first case label")
        after = ctx.with_(on_break=k)
        arms, default = [], None
        for i, (labels, stmts) in enumerate(groups):
            last = i == len(groups) - 1

            def fall_through(e, last=last, labels=labels):
                if last:
                    return k(e)
                raise Unsupported("case %s can fall through into the next one" % labels)
            text = self.block(stmts, env, after.with_(on_end=fall_through))
            for c in labels:
                if c == "default":
                    default = text
                else:
                    arms.append((c, text))
        out = default if default is not None else k(env)
        for c, text in reversed(arms):
            out = "if %s then\n%s\nelse\n%s" % (test(c), ind(text), out)
        return self.guarded(G, out, ctx)

    # ---- blocks ------------------------------------------------------------------------------------
    def block(self, todo, env, ctx):
        """Coq text for executing the statements `todo` and then ctx.on_end."""
        if not todo:
            return ctx.on_end(env)
        s, rest = todo[0], todo[1:]
        kind = s.get("kind")
        k = lambda e: self.block(rest, e, ctx)

        if kind == "CompoundStmt":
            return self.block(list(s.get("inner", [])) + rest, env, ctx)
        if kind == "NullStmt" or is_assert(s):
            return k(env)
        if kind == "ReturnStmt":                      # what follows is dead code
            return self.budget(ctx.on_return(s, env))
        if kind == "BreakStmt":
            if ctx.on_break is None:
                refuse(s, "break that leaves the loop")
            return ctx.on_break(env)
        if kind == "ContinueStmt":
            if ctx.on_continue is None:
                refuse(s, "continue outside the loop body")
            return ctx.on_continue(env)
        if kind == "IfStmt":
            if s.get("hasInit") or s.get("hasVar") or len(s.get("inner", [])) not in (2, 3):
                refuse(s, "if statement with initialiser/declaration")
            G = []
            c = self.cond(s["inner"][0], env, G)
            inner = ctx.with_(on_end=k)
            t = self.block([s["inner"][1]], env, inner)
            e = self.block([s["inner"][2]] if len(s["inner"]) == 3 else [], env, inner)
            return self.guarded(G, "if %s then\n%s\nelse\n%s" % (c, ind(t), e), ctx)
        if kind == "SwitchStmt":
            return self.switch(s, env, ctx, k)
        if kind in ("WhileStmt", "ForStmt", "DoStmt", "GotoStmt", "LabelStmt"):
            refuse(s, "%s inside the translated body" % kind)
        if kind == "DeclStmt":
            refuse(s, "declaration inside the translated body")
        s2 = strip(s)
        return self.expression_statement(s2, env, ctx, k)

    # ---- returned status ----------------------------------------------------------------------------
    def status(self, s, env):
        """-> ('const', n) or ('cond', bool term, n_then, n_else) for `return e;`."""
        if not s.get("inner"):
            refuse(s, "return without a value")
        e = strip(s["inner"][0])
        if e.get("kind") == "ConditionalOperator":
            c, x, y = e["inner"]
            a, b = self.lift(x, env, None).point, self.lift(y, env, None).point
            if a is not None and b is not None:
                return ("cond", self.cond(c, env, None), a, b)
        n = self.lift(e, env, None).point
        if n is None:
            refuse(s, "returned value is neither a constant nor `c ? constant : constant`")
        return ("const", n)


# ======================================================================================
# 6. Functions and the generated file
# ======================================================================================

PSTAT_OF_CONST = {-1: "SErr", 0: "(SOk false)", 1: "(SOk true)"}


def pstat_term(s, status):
    """Returned int of a decoder -> Codec.pstat (table at the end of section 1)."""
    if status[0] == "const":
        if status[1] not in PSTAT_OF_CONST:
            refuse(s, "returned constant %d is not -1, 0 or 1" % status[1])
        return PSTAT_OF_CONST[status[1]]
    _, c, a, b = status
    if a not in PSTAT_OF_CONST or b not in PSTAT_OF_CONST:
        refuse(s, "returned constants %d / %d are not among -1, 0, 1" % (a, b))
    if (a, b) == (1, 0):
        return "(SOk %s)" % c
    if (a, b) == (0, 1):
        return "(SOk (negb %s))" % c
    return "(if %s then %s else %s)" % (c, PSTAT_OF_CONST[a], PSTAT_OF_CONST[b])


def function_parts(fn, d, n_params):
    """-> (ParmVarDecl nodes, statements of the body) after checking the outline."""
    params = [c for c in d["inner"] if c.get("kind") == "ParmVarDecl"]
    body = [c for c in d["inner"] if c.get("kind") == "CompoundStmt"]
    if d.get("variadic") or len(params) != n_params or len(body) != 1:
        refuse(d, "%s does not have exactly %d parameter(s)" % (fn, n_params))
    if params[0].get("type", {}).get("qualType") != "struct cat_object *":
        refuse(d, "first parameter is not `struct cat_object *`")
    if not d.get("type", {}).get("qualType", "").startswith("int ("):
        refuse(d, "%s does not return int" % fn)
    return params, list(body[0].get("inner", []))


def is_buffer_getter_call(tr, node):
    node = strip_casts(node)
    return node.get("kind") == "CallExpr" and len(node.get("inner", [])) == 2 \
        and strip_casts(node["inner"][0]).get("referencedDecl", {}).get("name") \
        == FETCH_BUFFER_GETTER and tr.is_self(node["inner"][1])


def check_fetch(tr, s, ch_id, aliases=()):
    """s must be exactly  ch = get_atcmd_buf(self)[self->position++];   (or the same through a
    local `char *buf = get_atcmd_buf(self);` declared before the loop and never assigned)"""
    def bad():
        refuse(s, "the loop body does not start with `%s = %s(self)[self->%s++];`"
               % (FETCH_LOCAL, FETCH_BUFFER_GETTER, FETCH_CURSOR_FIELD))
    s = strip(s)
    if s.get("kind") != "BinaryOperator" or s.get("opcode") != "=":
        bad()
    lhs, rhs = strip(s["inner"][0]), strip(s["inner"][1])
    if lhs.get("kind") != "DeclRefExpr" or lhs.get("referencedDecl", {}).get("id") != ch_id:
        bad()
    if rhs.get("kind") != "ImplicitCastExpr" or rhs.get("castKind") != "LValueToRValue":
        bad()
    sub = strip(rhs["inner"][0])
    if sub.get("kind") != "ArraySubscriptExpr":
        bad()
    base, idx = strip(sub["inner"][0]), strip(sub["inner"][1])
    via_alias = base.get("kind") == "ImplicitCastExpr" and base.get("castKind") == "LValueToRValue" \
        and strip(base["inner"][0]).get("referencedDecl", {}).get("id") in aliases
    if not via_alias and not (base.get("kind") == "CallExpr" and is_buffer_getter_call(tr, base)):
        bad()
    if idx.get("kind") != "UnaryOperator" or idx.get("opcode") != "++" \
            or not idx.get("isPostfix") or tr.obj_field(idx["inner"][0]) != FETCH_CURSOR_FIELD:
        bad()


def translate_scanner(fn, d, defs=None):
    """One decoder -> (Coq text of g_step_<short> and g_init_<short>, report entry)."""
    spec = SCANNERS[fn]
    short, is_buf = spec["short"], spec["buffer"]
    params, items = function_parts(fn, d, 1 if is_buf else 2)
    ret_id = out_kind = None
    if not is_buf:
        if not params[1].get("type", {}).get("qualType", "").rstrip().endswith("*"):
            refuse(d, "second parameter is not a pointer (the out-parameter)")
        ret_id, out_kind = params[1]["id"], spec["out"][1]
    tr = StatementTranslator(fn, params[0]["id"], ret_id, out_kind, defs)

    # ---- prologue: asserts and declarations; then the loop; then dead code ----
    table = {c_name: (kind, coq, init) for c_name, kind, coq, init in spec["locals"]}
    found, ch_id, loop, after, aliases, temps = {}, None, None, [], set(), {}
    for s in items:
        if loop is not None:
            after.append(s)
        elif is_assert(s) or s.get("kind") == "NullStmt":
            continue
        elif s.get("kind") == "DeclStmt":
            for v in s.get("inner", []):
                if v.get("kind") != "VarDecl" or v.get("storageClass"):
                    refuse(v, "declaration that is not a plain local variable")
                name = v.get("name")
                if name == FETCH_LOCAL:
                    if ctype_of(v, "local") != C_TYPES["char"] or v.get("init"):
                        refuse(v, "`%s` is not declared as `char %s;`" % (name, name))
                    ch_id = v["id"]
                elif name in table:
                    if v.get("init") != "c" or len(v.get("inner", [])) != 1:
                        refuse(v, "local '%s' has no constant initialiser" % name)
                    init = convert(v, tr.lift(v["inner"][0], Env({}), None), ctype_of(v, "local"))
                    if init.point is None:
                        refuse(v, "local '%s' has no constant initialiser" % name)
                    found[name] = (v["id"], ctype_of(v, "local"), init.point)
                elif v.get("type", {}).get("qualType", "").rstrip().endswith("*"):
                    # `[const] char *buf = get_atcmd_buf(self);` : another name for the buffer
                    if v.get("init") != "c" or len(v.get("inner", [])) != 1 \
                            or not is_buffer_getter_call(tr, v["inner"][0]):
                        refuse(v, "pointer local '%s' is not initialised with %s(self)"
                               % (name, FETCH_BUFFER_GETTER))
                    aliases.add(v["id"])
                elif not v.get("init"):
                    # a temporary: not part of the model's locals; it must be assigned in an
                    # iteration before it is read there (checked when it is read), so that no
                    # value is carried from one iteration to the next through it
                    ty = ctype_of(v, "local")
                    base = "t_" + re.sub(r"[^A-Za-z0-9_]", "_", name)
                    temps[v["id"]] = Binding("byte" if ty.name == "char" else
                                             "Z" if ty.signed else "N", None, ty, ty.lo, ty.hi, base)
                    tr.notes.append("local '%s' of %s is not in the model: treated as a temporary "
                                    "of one iteration" % (name, fn))
                else:
                    refuse(v, "local '%s' is not in the mapping table of %s" % (name, fn))
        elif s.get("kind") in ("WhileStmt", "ForStmt"):
            loop = s
        else:
            refuse(s, "statement of kind %s before the loop" % s.get("kind"))
    if loop is None:
        refuse(d, "no `while (1)` loop at the top level of the function (the decoder must be "
                  "`while (1) { ch = ..[self->position++]; ... }`)")
    if loop.get("kind") == "ForStmt":                 # `for (;;)` is `while (1)`
        parts = loop.get("inner", [])
        if len(parts) != 5 or any(parts[:4]):
            refuse(loop, "the loop is not `while (1)` / `for (;;)`")
        body = parts[4]
    else:
        if len(loop.get("inner", [])) != 2:
            refuse(loop, "while loop with a declaration in its condition")
        cnd, body = strip(loop["inner"][0]), loop["inner"][1]
        if cnd.get("kind") != "IntegerLiteral" or int(cnd.get("value", "0")) == 0:
            refuse(loop, "the loop is not `while (1)`")
    if len(after) > 1 or (after and (after[0].get("kind") != "ReturnStmt" or
                                     tr.status(after[0], Env({}))[0] != "const")):
        refuse(after[0], "code after the loop other than one unreachable `return <constant>;`")
    if ch_id is None:
        refuse(d, "no local `char %s;`" % FETCH_LOCAL)
    if body.get("kind") != "CompoundStmt" or not body.get("inner"):
        refuse(loop, "empty loop body")
    check_fetch(tr, body["inner"][0], ch_id, aliases)

    # ---- the locals at the head of an iteration ----
    vars_, names, inits, types = dict(temps), {}, [], []
    vars_[ch_id] = Binding("byte", "ch")
    for c_name, kind, coq, m_init in spec["locals"]:
        types.append(COQ_TYPE[kind])
        if c_name not in found:                       # no C counterpart: carried unchanged
            names[c_name] = None
            inits.append(m_init)
            tr.notes.append("the model's local '%s' has no C counterpart in %s: carried through "
                            "the step unchanged, initial value as in the model" % (c_name, fn))
            continue
        did, ty, init = found[c_name]
        if kind == "N":
            if ty.signed:
                refuse(d, "local '%s' has the signed type %s but the model keeps it in N"
                       % (c_name, ty.name))
            vars_[did], init_t = Binding("N", coq, ty, ty.lo, ty.hi), nlit(init)
        elif kind == "Z":
            vars_[did], init_t = Binding("Z", coq, ty, ty.lo, ty.hi), zlit(init)
        elif kind == "flag":
            if init not in (0, 1):
                refuse(d, "flag '%s' is initialised with %d" % (c_name, init))
            vars_[did], init_t = Binding("flag", coq), "true" if init else "false"
        else:
            if init < 0:
                refuse(d, "counter '%s' is initialised with %d" % (c_name, init))
            vars_[did], init_t = Binding("nat", coq), "%d%%nat" % init
        names[c_name] = did
        inits.append(init_t)
    binders = [coq for _, _, coq, _ in spec["locals"]] + (["data"] if is_buf else [])
    if is_buf:
        types.append("list N")
        inits.append("data")
    env0 = Env(vars_, data="data" if is_buf else None)

    def locals_tuple(env):
        out = [env.vars[names[c]].name if names[c] is not None else coq
               for c, _, coq, _ in spec["locals"]]
        return "(%s)" % ", ".join(out + ([env.data] if is_buf else []))

    def on_end(env):
        if env.ret is not None or env.wsize is not None:
            raise Unsupported("an out-parameter (*ret / self->write_size) is written on a path "
                              "that stays in the loop")
        return "Continue %s" % locals_tuple(env)

    def on_return(s, env):
        st = pstat_term(s, tr.status(s, env))
        if is_buf:
            return "Return (%s, %s, %s)" % (st, env.data, env.wsize or "None")
        return "Return (%s, %s)" % (st, env.ret or "None")

    ctx = Ctx("Return bfault" if is_buf else "Return nfault", on_end, None, on_end, on_return)
    term = tr.block(list(body["inner"][1:]), env0, ctx)

    L = " * ".join(types)
    R = "bresult" if is_buf else "(nres %s)" % out_kind
    extra = "(ro : bool) (dsz : nat) " if is_buf else ""
    first, last = node_line(d), d.get("range", {}).get("end", {}).get("line")
    text = "(* cat.c:%s-%s  %s: the body of its `while (1)` loop *)\n" % (first, last, fn)
    text += "Definition g_step_%s %s(l : %s) (ch : N) : sres (%s) %s :=\n  let '(%s) := l in\n%s.\n" % (
        short, extra, L, L, R, ", ".join(binders), ind(term))
    text += "(* the locals when the loop is entered *)\n"
    text += "Definition g_init_%s %s: %s := (%s).\n" % (
        short, "(data : list N) " if is_buf else "", L, ", ".join(inits))
    return text, {"status": "translated", "lines": [first, last], "notes": tr.notes,
                  "coq_names": ["g_step_" + short, "g_init_" + short]}


def translate_validator(fn, d, defs=None):
    """One range validator -> (Coq text of g_validate_<short>, report entry)."""
    short, carrier = VALIDATORS[fn]
    params, items = function_parts(fn, d, 2)
    tr = StatementTranslator(fn, params[0]["id"], defs=defs)
    ty = ctype_of(params[1], "parameter")
    # the argument is a 64-bit pattern holding the model's value (see the module docstring)
    prologue, m = "", zlit(1 << ty.bits)
    if carrier == "N" and not ty.signed:
        if ty.bits == 64:
            b = Binding("N", "val", ty, ty.lo, ty.hi)
        else:
            prologue = "let val_c := (val mod %s)%%N in\n" % nlit(1 << ty.bits)
            b = Binding("N", "val_c", ty, ty.lo, ty.hi)
    elif carrier == "N":                              # the model's N arrives in a signed parameter
        prologue = "let val_c := c_wrap_s %s (Z.of_N val) in\n" % m
        b = Binding("Z", "val_c", ty, ty.lo, ty.hi)
    elif ty.signed:
        if ty.bits == 64:
            b = Binding("Z", "val", ty, ty.lo, ty.hi)
        else:
            prologue = "let val_c := c_wrap_s %s val in\n" % m
            b = Binding("Z", "val_c", ty, ty.lo, ty.hi)
    else:                                             # the model's Z arrives in an unsigned one
        prologue = "let val_c := c_wrap_u %s val in\n" % m
        b = Binding("N", "val_c", ty, ty.lo, ty.hi)
    if prologue:
        tr.notes.append("parameter `val` of %s has type %s, the model's value is a %s: the "
                        "argument is reinterpreted as the call does (val_c)" % (fn, ty.name, carrier))
    env0 = Env({params[1]["id"]: b}, data="data")

    def on_end(env):
        raise Unsupported("control can reach the end of %s without a return" % fn)

    def on_return(s, env):
        st = tr.status(s, env)
        if st == ("const", 0):
            return "GVOk %s %s" % (env.data, env.wsize or "None")
        if st == ("const", -1):
            return "GVErr"
        refuse(s, "a validator may only return the constants 0 and -1")

    term = tr.block(items, env0, Ctx("GVFault", on_end, None, None, on_return))
    first, last = node_line(d), d.get("range", {}).get("end", {}).get("line")
    text = "(* cat.c:%s-%s  %s *)\n" % (first, last, fn)
    text += "Definition g_validate_%s (ro : bool) (dsz : nat) (val : %s) (data : list N) : gvres :=\n%s.\n" % (
        short, carrier, ind(prologue + term))
    return text, {"status": "translated", "lines": [first, last], "notes": tr.notes,
                  "coq_names": ["g_validate_" + short]}


GEN_HEADER = """\
(* GENERATED by tools/codec_translate.py from %(source)s -- do not edit, regenerated on every run.
   g_step_<f> : the body of the `while (1)` loop of a decoder as a step function over the model's
   tuple of locals (Continue = next iteration, Return = the function returns); g_init_<f> : the
   locals when the loop is entered; g_validate_<f> : a range validator, whole.
   C semantics explicit: unsigned values are N, signed values are Z; see the tool's docstring. *)
From Coq Require Import List NArith ZArith Bool Arith.
From CatV Require Import Bytes Defs Codec.
From CodecTieGen Require Import CodecTieLib.
Import ListNotations.
Local Open Scope N_scope.
"""


def translate_parts(repo_src_dir):
    """-> (header, {fn: Coq text of its definitions}, report); see translate()."""
    src = os.path.join(repo_src_dir, "cat.c")
    header = GEN_HEADER % {"source": src}
    report, texts = {}, {}
    if char_is_unsigned():
        why = "plain char is unsigned for this compiler (or clang cannot be run); " \
              "the tie models signed char"
        return header, {}, {fn: {"status": "unsupported", "why": why} for fn in CODEC_FUNCTIONS}
    defs, err = load_function_definitions(repo_src_dir)
    for fn in CODEC_FUNCTIONS:
        if err:
            report[fn] = {"status": "unsupported", "why": err}
            continue
        if fn not in defs:
            report[fn] = {"status": "missing"}
            continue
        try:
            if len(defs[fn]) != 1:
                raise Unsupported("several definitions named %s" % fn)
            texts[fn], report[fn] = (translate_scanner if fn in SCANNERS else translate_validator)(
                fn, defs[fn][0], defs)
        except Unsupported as e:
            report[fn] = {"status": "unsupported", "why": str(e)}
        except (KeyError, IndexError, TypeError, ValueError, AttributeError, AssertionError) as e:
            report[fn] = {"status": "unsupported", "why": "unexpected AST shape: %r" % (e,)}
    return header, texts, report


def translate(repo_src_dir):
    """Translate the seven functions of <repo_src_dir>/cat.c.
    -> (coq_text, report); report[fn]['status'] in {'translated','unsupported','missing'}.
    Never raises for anything the C source may contain."""
    header, texts, report = translate_parts(repo_src_dir)
    return header + "\n" + "\n".join(texts[f] for f in CODEC_FUNCTIONS if f in texts), report


# ======================================================================================
# 7. The tie: assemble CodecTie.v from the template, compile, diagnose
# ======================================================================================

MARK = re.compile(r"^\(\*@ (BEGIN) (\w+) (CHECK|THEOREM) @\*\)\s*$|^\(\*@ (END) @\*\)\s*$")


def parse_template(text):
    """Template = Coq text with marker lines (*@ BEGIN <fn> CHECK|THEOREM @*) ... (*@ END @*).
    -> list of segments (fn or None, kind or None, text); text outside markers is common."""
    segs, cur, owner = [], [], (None, None)
    for line in text.splitlines(keepends=True):
        m = MARK.match(line.rstrip("\n"))
        if not m:
            cur.append(line)
            continue
        segs.append((owner[0], owner[1], "".join(cur)))
        cur = []
        owner = (m.group(2), m.group(3)) if m.group(1) else (None, None)
    segs.append((owner[0], owner[1], "".join(cur)))
    return segs


def assemble(segs, fns, with_theorems=True):
    """The template restricted to the functions `fns` (optionally without the theorems)."""
    return "".join(t for fn, kind, t in segs
                   if fn is None or (fn in fns and (with_theorems or kind == "CHECK")))


def coqc(path, coq_dir, workdir):
    """Compile one file of the work directory. -> (ok, stdout, tail of the error output)."""
    cmd = ["timeout", str(COQC_TIMEOUT_S), "coqc", "-q", "-Q", coq_dir, "CatV",
           "-Q", workdir, GEN_LOGICAL_PATH, path]
    try:
        p = subprocess.run(cmd, capture_output=True, text=True, cwd=workdir)
    except OSError as e:
        return False, "", "could not run coqc: %r" % (e,)
    tail = (p.stderr.strip() or p.stdout.strip())[-700:]
    if p.returncode == 124:
        tail = "coqc timed out after %d s; %s" % (COQC_TIMEOUT_S, tail)
    return p.returncode == 0, p.stdout, tail


def write(path, text):
    with open(path, "w") as f:
        f.write(text)


def all_closed(stdout, text):
    """Every `Print Assumptions` of the compiled text answered 'Closed under the global context'."""
    n = len(re.findall(r"^\s*Print Assumptions\b", text, re.M))
    return n > 0 and stdout.count("Closed under the global context") == n \
        and "Axioms:" not in stdout


def lib_is_in_project(coq_dir):
    """CodecTieLib is compiled in <coq_dir> (it was added to _CoqProject) and up to date: the
    generated files then import CatV.CodecTieLib instead of a private copy."""
    v, vo = os.path.join(coq_dir, LIB_NAME), os.path.join(coq_dir, LIB_NAME + "o")
    try:
        return os.path.getmtime(vo) >= os.path.getmtime(v)
    except OSError:
        return False


def use_project_lib(text):
    return text.replace("From %s Require Import CodecTieLib." % GEN_LOGICAL_PATH,
                        "From CatV Require Import CodecTieLib.")


INPUT_SHAPE = {
    "scanner": "input = ((locals of the model in order), ch)",
    "buffer": "input = ((ro, dsz), ((locals of the model in order, data), ch))",
    "validator": "input = ((ro, dsz), (val, data))",
}


def find_witness(segs, fn, coq_dir, workdir, fix):
    """Evaluate wit_<fn> (CHECK block of the template) with vm_compute in a file of its own.
    -> dict describing the first differing input, or None (generated and model agree on the whole
    family, or the evaluation itself failed)."""
    path = os.path.join(workdir, "CodecDiag_%s.v" % fn)
    evals = "\nEval vm_compute in wit_%s.\n" % fn
    if fn in SCANNERS:
        evals += "Eval vm_compute in wit_init_%s.\n" % fn
    write(path, fix(assemble(segs, [fn], with_theorems=False)) + evals)
    ok, out, _ = coqc(path, coq_dir, workdir)
    if not ok:
        return None
    found = re.findall(r"=\s*(None|Some\s*\{\|.*?\|\})\s*:\s*option", out, re.S)
    which = [i for i, x in enumerate(found) if x != "None"]
    if not which or len(found) != evals.count("Eval"):
        return None
    rec = re.sub(r"\s+", " ", found[which[0]][4:].strip())
    w = {"what": "the loop body (one iteration)" if which[0] == 0 and fn in SCANNERS
         else "the whole function" if which[0] == 0 else "the initial values of the locals"}
    for key, nxt in (("w_input", "w_generated"), ("w_generated", "w_model"), ("w_model", None)):
        pat = r"%s := (.*?)%s" % (key, r";\s*%s :=" % nxt if nxt else r"\s*\|\}$")
        mm = re.search(pat, rec)
        w[key[2:]] = mm.group(1).strip() if mm else None
    if which[0] == 1:
        w["note"] = "as printed by Coq; input = tt, or the storage `data` for a buffer decoder"
        return w
    kind = "validator" if fn in VALIDATORS else "buffer" if SCANNERS[fn]["buffer"] else "scanner"
    w["note"] = "as printed by Coq; " + INPUT_SHAPE[kind]
    return w


def run_codec_tie(repo_src_dir, workdir, coq_dir, template_path=None):
    """Regenerate CodecGen.v from the C source, assemble CodecTie.v, compile, diagnose.
    -> dict: translated / unsupported / missing / proved / failed / wall_s (see module doc)."""
    t0 = time.time()
    repo_src_dir, workdir, coq_dir = (os.path.abspath(p) for p in (repo_src_dir, workdir, coq_dir))
    template_path = template_path or os.path.join(coq_dir, TEMPLATE_NAME)
    os.makedirs(workdir, exist_ok=True)
    for name in os.listdir(workdir):                  # never reuse anything from an older run
        if re.match(r"\.?Codec(Gen|Tie|Diag|TieLib|GenProbe)", name):
            os.remove(os.path.join(workdir, name))

    header, texts, report = translate_parts(repo_src_dir)
    gen_text = header + "\n" + "\n".join(texts[f] for f in CODEC_FUNCTIONS if f in texts)
    fns = list(report)
    translated = [f for f in fns if report[f]["status"] == "translated"]
    in_project = lib_is_in_project(coq_dir)
    fix = use_project_lib if in_project else (lambda t: t)
    res = {
        "source": os.path.join(repo_src_dir, "cat.c"),
        "translated": translated,
        "unsupported": {f: report[f]["why"] for f in fns if report[f]["status"] == "unsupported"},
        "missing": [f for f in fns if report[f]["status"] == "missing"],
        "proved": [], "failed": {},
        "lines": {f: report[f]["lines"] for f in translated},
        "notes": {f: report[f]["notes"] for f in translated if report[f].get("notes")},
        "library": "CatV.CodecTieLib (compiled in %s)" % coq_dir if in_project
                   else "private copy of %s compiled in the work directory" % LIB_NAME,
        "files": {"generated": os.path.join(workdir, "CodecGen.v"),
                  "tie": os.path.join(workdir, "CodecTie.v"),
                  "per_function": os.path.join(workdir, "CodecTie_<fn>.v")},
    }

    def done():
        res["wall_s"] = round(time.time() - t0, 2)
        return res

    def fail_all(todo, what, tail):
        for f in todo:
            res["failed"][f] = {"witness": None, "error": what, "coqc": tail}
        return done()

    write(res["files"]["generated"], fix(gen_text))
    with open(template_path) as f:
        segs = parse_template(f.read())
    known = {fn for fn, _, _ in segs if fn}
    for f in translated:
        if f not in known:
            res["failed"][f] = {"witness": None,
                                "error": "no block for this function in " + template_path}
    todo = [f for f in translated if f in known]

    if not in_project:
        lib = os.path.join(workdir, LIB_NAME)
        shutil.copyfile(os.path.join(coq_dir, LIB_NAME), lib)
        ok, _, tail = coqc(lib, coq_dir, workdir)
        if not ok:
            return fail_all(todo, LIB_NAME + " does not compile", tail)
    ok, _, tail = coqc(res["files"]["generated"], coq_dir, workdir)
    if not ok:                                        # a translator bug, not a difference:
        bad = []                                      # find the definitions Coq rejects ...
        for f in list(texts):
            probe = os.path.join(workdir, "CodecGenProbe_%s.v" % f)
            write(probe, fix(header + "\n" + texts[f]))
            ok1, _, tail1 = coqc(probe, coq_dir, workdir)
            if not ok1:
                bad.append(f)
                res["failed"][f] = {"witness": None, "coqc": tail1,
                                    "error": "the generated definition is not accepted by Coq "
                                             "(a translator bug, not a difference)"}
        todo = [f for f in todo if f not in bad]      # ... and go on without them
        write(res["files"]["generated"],
              fix(header + "\n" + "\n".join(texts[f] for f in CODEC_FUNCTIONS
                                            if f in texts and f not in bad)))
        ok, _, tail = coqc(res["files"]["generated"], coq_dir, workdir)
        if not ok or not bad:
            return fail_all(todo, "generated CodecGen.v does not compile", tail)
    if not todo:
        return done()

    # Every translated function in a file of its own, CodecTie_<fn>.v, compiled in parallel (a
    # failure is attributed at once, and diagnosed in the same task) ...
    def check_one(f):
        path = os.path.join(workdir, "CodecTie_%s.v" % f)
        text1 = fix(assemble(segs, [f]))
        write(path, text1)
        ok1, out1, tail1 = coqc(path, coq_dir, workdir)
        if ok1 and all_closed(out1, text1):
            return f, None
        w = find_witness(segs, f, coq_dir, workdir, fix)
        return f, {"witness": w,
                   "coqc": tail1 if not ok1 else "Print Assumptions not closed: " + out1[-400:]}

    with ThreadPoolExecutor(max_workers=min(8, (os.cpu_count() or 1))) as pool:
        singles = list(pool.map(check_one, todo))
    for f, failure in singles:
        if failure is None:
            res["proved"].append(f)
        else:
            if failure["witness"] is None:
                failure["error"] = ("tie theorem not accepted, but generated and model agree on "
                                    "the whole test family (or the diagnosis could not be run): "
                                    "the proof script no longer applies")
            res["failed"][f] = failure
    # ... and CodecTie.v re-exports exactly the files whose theorems were all accepted.
    text = INDEX_HEADER + "".join("From %s Require Export CodecTie_%s.\n" % (GEN_LOGICAL_PATH, f)
                                  for f in res["proved"])
    write(res["files"]["tie"], text)
    ok, _, tail = coqc(res["files"]["tie"], coq_dir, workdir)
    if not ok:
        for f in res["proved"]:
            res["failed"][f] = {"witness": None, "coqc": tail,
                                "error": "proved alone but CodecTie.v does not compile"}
        res["proved"] = []
    return done()


INDEX_HEADER = """\
(* GENERATED by tools/codec_translate.py -- the codec tie of this run: one module per C function
   whose tie theorems (coq/CodecTie.v.in) were all accepted by Coq, axiom-free. *)
"""


def main(argv):
    if len(argv) != 4:
        sys.stderr.write("usage: codec_translate.py <repo_src_dir> <workdir> <coq_dir>\n")
        return 2
    res = run_codec_tie(argv[1], argv[2], argv[3])
    print(json.dumps(res, indent=2))
    return 1 if any(v.get("witness") for v in res["failed"].values()) else 0


if __name__ == "__main__":
    sys.exit(main(sys.argv))
