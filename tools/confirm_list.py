#!/usr/bin/env python3
"""Confirm an explicit list of candidate seeded changes: lines 'patch demo property-id tag' on stdin.  Same procedure
as confirm_batch.py (scratch worktree outside /repo and /verif; suite 30/30; demo exits 0 without / non-zero with the
change); confirmed ones are stored as /verif/seeded/<tag>/."""
import os, sys, json, re, subprocess, shutil
WT = '/tmp/seedcheck_wt'
def sh(cmd, cwd=None, timeout=900):
    try:
        r = subprocess.run(cmd, shell=True, cwd=cwd, capture_output=True, text=True, timeout=timeout)
        return r.returncode, (r.stdout + r.stderr)
    except subprocess.TimeoutExpired:
        return 124, 'timeout'
sh('git -C /repo worktree remove --force %s' % WT); shutil.rmtree(WT, ignore_errors=True)
rc, o = sh('git -C /repo worktree add --detach %s HEAD' % WT); assert rc == 0, o
for line in sys.stdin:
    if not line.strip(): continue
    patch, demo, pid, tag, notes = line.split()
    sh('git checkout -- . && git clean -fdxq', cwd=WT)
    first = open(demo).readline()
    defs = ' '.join(re.findall(r'(-D\s*\w+=\d+)', first))
    extra = ' -pthread' if 'pthread' in open(demo).read() else ''
    def build_demo(t):
        out = '/tmp/seedcheck_%s' % t
        rc, o = sh('cc -std=gnu99 -O1 %s -I%s/src %s %s/src/cat.c -o %s %s' % (defs, WT, demo, WT, out, extra))
        if rc != 0: return None, o
        rc, o = sh(out, timeout=600)
        os.remove(out)
        return rc, o
    rc_clean, o_clean = build_demo('clean')
    rc, o = sh('git apply %s' % patch, cwd=WT)
    if rc != 0:
        print(tag, 'patch does not apply', o[-200:]); continue
    rc_b, o_b = sh('cmake -G Ninja -B _build -S . >/dev/null && cmake --build _build 2>&1 | tail -5 && ctest --test-dir _build -j8 2>&1 | tail -4', cwd=WT)
    passed = '100% tests passed, 0 tests failed out of 30' in o_b
    rc_mut, o_mut = build_demo('mut')
    ok = (rc_clean == 0 and passed and rc_mut not in (0, None))
    print(tag, 'CONFIRMED' if ok else 'REJECTED', 'clean=%s suite=%s mutated=%s' % (rc_clean, passed, rc_mut), flush=True)
    if ok:
        dst = '/verif/seeded/%s' % tag
        os.makedirs(dst, exist_ok=True)
        shutil.copy(patch, dst + '/patch.diff'); shutil.copy(demo, dst + '/demo.c')
        meta = {'property': pid, 'patch': 'patch.diff', 'demo': 'demo.c',
                'demo_compile': 'cc -std=gnu99 -O1 %s -I<SRC> demo.c <SRC>/cat.c -o demo%s' % (defs, extra),
                'confirmed': {'worktree': 'scratch git worktree of /repo HEAD under /tmp (removed afterwards)',
                              'patch_applies': True, 'builds_with_repo_flags': True, 'suite': '30/30 passed',
                              'demo_exit_unchanged': rc_clean, 'demo_exit_with_change': rc_mut,
                              'demo_output_with_change_tail': (o_mut or '')[-600:]},
                'origin': 'independent sub-agent given the twenty property texts, a code site and its own scratch worktree (batch C: site-driven)',
                'needs_to_manifest': 'see agent_notes.md', 'detected_by': []}
        json.dump(meta, open(dst + '/meta.json', 'w'), indent=1)
        shutil.copy(notes, dst + '/agent_notes.md')
    sh('git checkout -- . && git clean -fdxq', cwd=WT)
sh('git -C /repo worktree remove --force %s' % WT)
