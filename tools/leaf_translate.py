#!/usr/bin/env python3
"""leaf_translate.py -- C-to-Gallina translator for the five leaf functions of cat.c,
and driver of the "leaf tie": a Coq proof, re-checked on every run, that the definition
GENERATED from the C source equals the HAND-WRITTEN model function in coq/Bytes.v on the
whole byte domain.

    python3 tools/leaf_translate.py /repo/src /verif/build/leaf /verif/coq

Pipeline (all offline, python3 stdlib + clang + coqc only)

  cat.c --clang -ast-dump=json--> typed AST --translate()--> LeafGen.v   (Definitions c_<fn> over Z)
  LeafTie.v.in (template) --assemble--> LeafTie.v   (theorems tie_*: c_<fn> = Bytes.<model fn>)
  coqc LeafGen.v ; coqc LeafTie.v                   (exhaustive sweep over the 256 bytes, by vm_compute)

What is trusted in this tie: clang's parser and type checker (the AST already contains every
implicit conversion, so this file does NOT re-implement the usual arithmetic conversions),
the C semantics written down in this file (sections 2-4, about 300 lines), the statements in
LeafTie.v.in, and Coq.  Nothing about the hand-written model is trusted: it is compared.

C semantics made explicit (target: x86-64 Linux, clang; checked at run time where possible)
  * `char` is SIGNED, 8 bit (refused if the compiler defines __CHAR_UNSIGNED__); int is 32 bit.
  * Every C integer value is a Coq Z.  Every translated expression carries its C type (taken
    from the AST) and a conservative interval [lo,hi] of its possible values.
  * Signed arithmetic (+ - * unary-) is translated to plain Z arithmetic and is REFUSED
    ('unsupported') if the interval says it could leave the range of its type (that would be
    undefined behaviour in C; we never guess).  Unsigned arithmetic wraps: c_wrap_u bits.
  * Conversions (implicit and explicit casts) between integer types: value preserving if the
    source type fits in the target type (nothing emitted); otherwise to unsigned = mod 2^bits
    (c_wrap_u, defined by the C standard) and to signed = two's complement wrap (c_wrap_s,
    implementation-defined in C, this is what clang and gcc document).  To _Bool: x != 0.
  * Comparisons and && || ! yield int 0/1.  Conditions are translated to Coq bool; where C
    needs the int, `if cond then 1 else 0` is emitted.  && and || are translated to andb/orb:
    exact, because every supported sub-expression is total and free of side effects.
  * strchr("literal", c): found iff (char)c occurs among the characters of the literal up to
    AND INCLUDING its terminating NUL (so strchr(s, 0) != NULL holds).  Only usable as a truth
    value (== NULL, != NULL, !, &&, ||, if).  The callee must be the library prototype
    `char *strchr(const char *, int)` with no definition in the translation unit.
  * Statements: return e; if/else; blocks; `T x = e;` for integer T (no assignment exists in
    the subset, so locals are immutable: `let`); the empty statement.  Every path must return.
Everything else makes the function 'unsupported' with a reason; nothing is approximated.
"""

import json
import os
import re
import subprocess
import sys
import time

# --------------------------------------------------------------------------------------
# 0. What is tied: C function name -> model function (the theorem texts live in the template)
# --------------------------------------------------------------------------------------

LEAF_FUNCTIONS = [
    "to_upper",
    "is_valid_cmd_name_char",
    "is_valid_dec_char",
    "is_valid_hex_char",
    "convert_hex_char_to_value",
]

HERE = os.path.dirname(os.path.abspath(__file__))
TEMPLATE_PATH = os.path.normpath(os.path.join(HERE, "..", "coq", "LeafTie.v.in"))
GEN_LOGICAL_PATH = "LeafTieGen"      # logical Coq path of the work directory
COQC_TIMEOUT_S = 300
CLANG_TIMEOUT_S = 60


class Unsupported(Exception):
    """Internal only: raised inside the translation of ONE function, caught in
    translate_function() and turned into report[fn] = {'status': 'unsupported', 'why': ...}."""


# --------------------------------------------------------------------------------------
# 1. Getting the AST out of clang
# --------------------------------------------------------------------------------------

def _run_clang(args):
    """Run clang with a timeout; returns (returncode, stdout, stderr) and never raises."""
    try:
        p = subprocess.run(["clang"] + args, capture_output=True, text=True,
                           timeout=CLANG_TIMEOUT_S)
        return p.returncode, p.stdout, p.stderr
    except (OSError, subprocess.TimeoutExpired) as e:
        return -1, "", "could not run clang: %r" % (e,)


def char_is_unsigned():
    """True iff the compiler's plain `char` is unsigned on this target (we then refuse)."""
    rc, out, _ = _run_clang(["-dM", "-E", "-x", "c", os.devnull])
    return rc != 0 or "__CHAR_UNSIGNED__" in out


def _fill_locations(obj, last):
    """clang's JSON omits 'line' / 'file' in a source location when they are the same as in
    the previously PRINTED location.  Walk the JSON in document order (python dicts keep it)
    and fill the omitted fields in, so that every location dict is self-contained."""
    if isinstance(obj, dict):
        if "offset" in obj:                       # this dict is a source location
            for key in ("file", "line"):
                if key in obj:
                    last[key] = obj[key]
                elif key in last:
                    obj[key] = last[key]
        for v in obj.values():
            _fill_locations(v, last)
    elif isinstance(obj, list):
        for v in obj:
            _fill_locations(v, last)


def dump_decls(src_dir, name):
    """All top-level declarations whose name is exactly `name` in <src_dir>/cat.c, as JSON AST
    nodes.  Returns (nodes, error_text); error_text is None unless clang failed.
    (-ast-dump-filter matches substrings, hence the exact-name selection here; the output is
    a concatenation of JSON documents, one per matching declaration.)"""
    cat_c = os.path.join(src_dir, "cat.c")
    rc, out, err = _run_clang(["-fsyntax-only", "-Xclang", "-ast-dump=json",
                               "-Xclang", "-ast-dump-filter=" + name,
                               "-I" + src_dir, cat_c])
    if rc != 0:
        return [], "clang failed (exit %d) on %s: %s" % (rc, cat_c, err.strip()[-800:])
    nodes, dec, i, last = [], json.JSONDecoder(), 0, {}
    while True:
        while i < len(out) and out[i].isspace():
            i += 1
        if i >= len(out):
            break
        try:
            node, i = dec.raw_decode(out, i)
        except ValueError as e:
            return [], "cannot parse clang's JSON output: %s" % (e,)
        _fill_locations(node, last)
        if isinstance(node, dict) and node.get("name") == name:
            nodes.append(node)
    return nodes, None


def node_line(node):
    """Source line where a node begins (the expansion point, for code coming from a macro)."""
    for loc in (node.get("range", {}).get("begin", {}), node.get("loc", {})):
        loc = loc.get("expansionLoc", loc)
        if "line" in loc:
            return loc["line"]
    return None


def loc_line_file(loc):
    loc = loc.get("expansionLoc", loc)
    return loc.get("line"), loc.get("file")


def refuse(node, why):
    line = node_line(node) if isinstance(node, dict) else None
    raise Unsupported(why + (" (line %d)" % line if line else ""))


# --------------------------------------------------------------------------------------
# 2. C integer types and values
# --------------------------------------------------------------------------------------

class CType:
    """An integer type of the target: width, signedness; _Bool is special-cased."""

    def __init__(self, name, bits, signed, is_bool=False):
        self.name, self.bits, self.signed, self.is_bool = name, bits, signed, is_bool
        if is_bool:
            self.lo, self.hi = 0, 1
        elif signed:
            self.lo, self.hi = -(1 << (bits - 1)), (1 << (bits - 1)) - 1
        else:
            self.lo, self.hi = 0, (1 << bits) - 1

    def contains_type(self, other):
        """Every value of `other` is a value of self (conversion other->self keeps the value)."""
        return self.lo <= other.lo and other.hi <= self.hi

    def __eq__(self, other):
        return isinstance(other, CType) and self.name == other.name

    def __hash__(self):
        return hash(self.name)


# LP64, plain char signed (checked by char_is_unsigned()).
C_TYPES = {t.name: t for t in [
    CType("char", 8, True), CType("signed char", 8, True), CType("unsigned char", 8, False),
    CType("short", 16, True), CType("unsigned short", 16, False),
    CType("int", 32, True), CType("unsigned int", 32, False),
    CType("long", 64, True), CType("unsigned long", 64, False),
    CType("long long", 64, True), CType("unsigned long long", 64, False),
    CType("_Bool", 1, False, is_bool=True),
]}
C_TYPES["bool"] = C_TYPES["_Bool"]      # clang 14 spells the builtin _Bool "bool" in its dumps
T_CHAR, T_INT = C_TYPES["char"], C_TYPES["int"]


def ctype_of(node, what="expression"):
    """The integer type of an AST node (typedefs resolved by clang: desugaredQualType)."""
    t = node.get("type", {})
    spelled = t.get("desugaredQualType", t.get("qualType", ""))
    words = [w for w in spelled.split() if w not in ("const", "volatile")]
    ct = C_TYPES.get(" ".join(words))
    if ct is None:
        refuse(node, "%s of non-integer or unknown type '%s'" % (what, t.get("qualType")))
    return ct


class Val:
    """A translated C expression: Coq term of type Z, C type, conservative value interval."""

    def __init__(self, term, ctype, lo, hi):
        assert ctype.lo <= lo <= hi <= ctype.hi, (term, ctype.name, lo, hi)
        self.term, self.ctype, self.lo, self.hi = term, ctype, lo, hi


def zlit(n):
    return str(n) if n >= 0 else "(%d)" % n


def convert(v, tgt):
    """C conversion of the integer value v to the integer type tgt (C11 6.3.1.2, 6.3.1.3)."""
    if v.ctype == tgt:
        return v
    if tgt.is_bool:                                   # 6.3.1.2: 0 if equal to 0, else 1
        return Val("(if (%s =? 0) then 0 else 1)" % v.term, tgt,
                   0 if v.lo <= 0 <= v.hi else 1, 0 if v.lo == v.hi == 0 else 1)
    if tgt.contains_type(v.ctype):                    # 6.3.1.3 p1: value unchanged
        return Val(v.term, tgt, v.lo, v.hi)
    fits = tgt.lo <= v.lo and v.hi <= tgt.hi
    lo, hi = (v.lo, v.hi) if fits else (tgt.lo, tgt.hi)
    if not tgt.signed:                                # 6.3.1.3 p2: modulo 2^bits
        return Val("(c_wrap_u %d %s)" % (tgt.bits, v.term), tgt, lo, hi)
    # 6.3.1.3 p3: implementation-defined; clang/gcc: modulo 2^bits into the signed range
    return Val("(c_wrap_s %d %s)" % (tgt.bits, v.term), tgt, lo, hi)


def arith(node, op, a, b, ty):
    """a op b computed in type ty, op in + - * (operands already converted to ty by clang)."""
    if a.ctype != ty or (b is not None and b.ctype != ty):
        refuse(node, "operand types of '%s' differ from its result type %s" % (op, ty.name))
    if ty.bits < 32:
        refuse(node, "arithmetic in a type narrower than int (%s)" % ty.name)
    if op == "+":
        lo, hi = a.lo + b.lo, a.hi + b.hi
    elif op == "-":
        lo, hi = a.lo - b.hi, a.hi - b.lo
    elif op == "*":
        corners = [x * y for x in (a.lo, a.hi) for y in (b.lo, b.hi)]
        lo, hi = min(corners), max(corners)
    elif op == "neg":
        lo, hi = -a.hi, -a.lo
    else:
        refuse(node, "arithmetic operator '%s'" % op)
    term = "(- %s)" % a.term if op == "neg" else "(%s %s %s)" % (a.term, op, b.term)
    if ty.signed:
        if lo < ty.lo or hi > ty.hi:
            refuse(node, "signed '%s' in type %s could overflow: result in [%d, %d]"
                   % ("-" if op == "neg" else op, ty.name, lo, hi))
        return Val(term, ty, lo, hi)
    if lo < ty.lo or hi > ty.hi:                      # unsigned arithmetic wraps (6.2.5 p9)
        lo, hi = ty.lo, ty.hi
    return Val("(c_wrap_u %d %s)" % (ty.bits, term), ty, lo, hi)


def decode_string_literal(node):
    """Character values (as signed char, in Z) of a narrow string literal, WITHOUT the
    terminating NUL.  clang prints the literal normalised: adjacent literals concatenated,
    non-printable bytes as 3-digit octal escapes.  The length is cross-checked with the type."""
    spelled = node.get("value", "")
    m = re.fullmatch(r"char\s*\[(\d+)\]", node.get("type", {}).get("qualType", ""))
    if not m or len(spelled) < 2 or spelled[0] != '"' or spelled[-1] != '"':
        refuse(node, "string literal that is not a plain narrow one: %s" % spelled[:40])
    simple = {"\\": 92, '"': 34, "'": 39, "?": 63, "a": 7, "b": 8, "f": 12, "n": 10,
              "r": 13, "t": 9, "v": 11}
    body, out, i = spelled[1:-1], [], 0
    while i < len(body):
        c = body[i]
        if c != "\\":
            if not (32 <= ord(c) < 127):
                refuse(node, "non-ASCII character in string literal")
            out.append(ord(c))
            i += 1
            continue
        rest = body[i + 1:]
        mo, mx = re.match(r"[0-7]{1,3}", rest), re.match(r"x([0-9a-fA-F]+)", rest)
        if mo:
            out.append(int(mo.group(0), 8))
            i += 1 + len(mo.group(0))
        elif mx:
            out.append(int(mx.group(1), 16))
            i += 1 + len(mx.group(0))
        elif rest[:1] in simple:
            out.append(simple[rest[0]])
            i += 2
        else:
            refuse(node, "escape sequence '\\%s' in string literal" % rest[:1])
    if any(b > 255 for b in out) or len(out) + 1 != int(m.group(1)):
        refuse(node, "string literal: decoded length disagrees with its type")
    return [b if b < 128 else b - 256 for b in out]   # plain char is signed


# --------------------------------------------------------------------------------------
# 3. Expressions
# --------------------------------------------------------------------------------------

VALUE_CASTS = ("IntegralCast", "NoOp", "IntegralToBoolean")
COMPARISONS = {"==": "=?", "<": "<?", "<=": "<=?", ">": ">?", ">=": ">=?"}   # != : negb (=?)


def strip_parens(node):
    while node.get("kind") == "ParenExpr":
        node = node["inner"][0]
    return node


def is_pointer_typed(node):
    return node.get("type", {}).get("qualType", "").rstrip().endswith("*")


def is_null_pointer_constant(node):
    """NULL as it appears in the AST: the literal 0 under a NullToPointer conversion,
    possibly with more pointer-to-pointer conversions and parentheses around."""
    saw_null_cast = False
    while True:
        node = strip_parens(node)
        if node.get("kind") in ("ImplicitCastExpr", "CStyleCastExpr") and \
                node.get("castKind") in ("NullToPointer", "BitCast", "NoOp"):
            saw_null_cast = saw_null_cast or node["castKind"] == "NullToPointer"
            node = node["inner"][0]
            continue
        return saw_null_cast and node.get("kind") == "IntegerLiteral" and node.get("value") == "0"


class FunctionTranslator:
    """Translates the body of one C function `T f(char p)` into a Gallina term over Z."""

    MAX_OUTPUT_CHARS = 20000      # refuse pathological inputs instead of exploding

    def __init__(self, strchr_is_library):
        self.strchr_is_library = strchr_is_library     # callable () -> (bool, why)
        self.env = {}             # clang decl id -> (coq name, CType, lo, hi)
        self.used_names = set()
        self.emitted = 0

    # ---- identifiers ----------------------------------------------------------------
    RESERVED = set("""as at cofix else end exists exists2 fix for forall fun if IF in let match
        mod return then using where with Prop Set SProp Type Z N nat bool list true false negb
        andb orb existsb""".split())

    def bind(self, decl, ctype, lo, hi):
        """Fresh Coq binder for a C variable.  C identifiers are valid Coq identifiers; they
        are renamed when they could capture something the generated text refers to."""
        name = decl.get("name") or "anon"
        if name in self.RESERVED or name.startswith("c_") or name == "_" \
                or not re.fullmatch(r"[A-Za-z_][A-Za-z0-9_]*", name):
            name = "v_" + re.sub(r"[^A-Za-z0-9_]", "_", name)
        base, k = name, 1
        while name in self.used_names:               # shadowing in C -> distinct Coq names
            k += 1
            name = "%s_%d" % (base, k)
        self.used_names.add(name)
        self.env[decl["id"]] = (name, ctype, lo, hi)
        return name

    def budget(self, s):
        self.emitted += len(s)
        if self.emitted > self.MAX_OUTPUT_CHARS:
            raise Unsupported("function too large for the leaf translator")
        return s

    # ---- values -----------------------------------------------------------------------
    def value(self, node):
        """Translate an integer-valued C expression to a Val."""
        kind = node.get("kind")
        if kind == "ParenExpr":
            return self.value(node["inner"][0])

        if kind == "IntegerLiteral":
            ty, n = ctype_of(node), int(node["value"])
            if not ty.lo <= n <= ty.hi:
                refuse(node, "integer literal %d outside its type %s" % (n, ty.name))
            return Val(zlit(n), ty, n, n)

        if kind == "CharacterLiteral":               # type int in C; value given by clang
            ty, n = ctype_of(node), int(node["value"])
            if ty != T_INT or not T_CHAR.lo <= n <= 255:
                refuse(node, "character literal that is not a plain one")
            return Val(zlit(n), ty, n, n)

        if kind in ("ImplicitCastExpr", "CStyleCastExpr"):
            ck, sub = node.get("castKind"), node["inner"][0]
            if ck == "LValueToRValue":               # reading a variable
                ref = strip_parens(sub)
                decl = ref.get("referencedDecl", {})
                if ref.get("kind") != "DeclRefExpr" or decl.get("id") not in self.env:
                    refuse(node, "read of something that is not the parameter or a local")
                name, ty, lo, hi = self.env[decl["id"]]
                if ctype_of(node) != ty:
                    refuse(node, "variable read at a type different from its declaration")
                return Val(name, ty, lo, hi)
            if ck in VALUE_CASTS:
                return convert(self.value(sub), ctype_of(node, "cast"))
            refuse(node, "cast of kind %s" % ck)

        if kind == "UnaryOperator":
            op, sub = node.get("opcode"), node["inner"][0]
            if op == "!":
                return self.int_of_cond(node)
            if op == "+":
                return convert(self.value(sub), ctype_of(node))
            if op == "-":
                return arith(node, "neg", self.value(sub), None, ctype_of(node))
            refuse(node, "unary operator '%s'" % op)

        if kind == "BinaryOperator":
            op = node.get("opcode")
            if op in ("+", "-", "*"):
                a, b = (self.value(x) for x in node["inner"])
                return arith(node, op, a, b, ctype_of(node))
            if op in COMPARISONS or op in ("!=", "&&", "||"):
                return self.int_of_cond(node)
            refuse(node, "binary operator '%s'" % op)

        if kind == "ConditionalOperator":
            c, a, b = node["inner"]
            ty, cond = ctype_of(node), self.cond(c)
            va, vb = self.value(a), self.value(b)
            if va.ctype != ty or vb.ctype != ty:
                refuse(node, "branches of ?: not converted to its result type")
            return Val("(if %s then %s else %s)" % (cond, va.term, vb.term), ty,
                       min(va.lo, vb.lo), max(va.hi, vb.hi))

        refuse(node, "expression of kind %s" % kind)

    def int_of_cond(self, node):
        """Value (int 0/1) of a comparison or logical operator."""
        if ctype_of(node) != T_INT:
            refuse(node, "comparison/logical operator whose type is not int")
        return Val("(if %s then 1 else 0)" % self.cond(node), T_INT, 0, 1)

    # ---- truth values ---------------------------------------------------------------------
    def cond(self, node):
        """Translate a C expression used for its truth value (e != 0) to a Coq bool term."""
        node = strip_parens(node)
        kind, op = node.get("kind"), node.get("opcode")

        if kind == "BinaryOperator" and op in ("&&", "||"):
            a, b = (self.cond(x) for x in node["inner"])
            return "(%s %s %s)" % (a, op, b)
        if kind == "UnaryOperator" and op == "!":
            return "(negb %s)" % self.cond(node["inner"][0])

        if kind == "BinaryOperator" and (op in COMPARISONS or op == "!="):
            lhs, rhs = node["inner"]
            if is_pointer_typed(lhs) or is_pointer_typed(rhs):
                return self.pointer_test(node, op, lhs, rhs)
            a, b = self.value(lhs), self.value(rhs)
            if a.ctype != b.ctype or a.ctype.bits < 32:
                refuse(node, "comparison operands not converted to a common type >= int")
            if op == "!=":
                return "(negb (%s =? %s))" % (a.term, b.term)
            return "(%s %s %s)" % (a.term, COMPARISONS[op], b.term)

        if is_pointer_typed(node):                   # `if (strchr(..))`, `strchr(..) && ..`
            return self.strchr_found(node)
        return "(negb (%s =? 0))" % self.value(node).term

    def pointer_test(self, node, op, lhs, rhs):
        """strchr(...) == NULL / != NULL (either operand order)."""
        if op not in ("==", "!="):
            refuse(node, "pointer comparison '%s'" % op)
        if is_null_pointer_constant(rhs):
            found = self.strchr_found(lhs)
        elif is_null_pointer_constant(lhs):
            found = self.strchr_found(rhs)
        else:
            refuse(node, "pointer comparison that is not against NULL")
        return found if op == "!=" else "(negb %s)" % found

    def strchr_found(self, node):
        """Coq bool for `strchr("literal", c) != NULL`."""
        while True:                                   # pointer-to-pointer conversions only
            node = strip_parens(node)
            if node.get("kind") in ("ImplicitCastExpr", "CStyleCastExpr") \
                    and node.get("castKind") in ("BitCast", "NoOp"):
                node = node["inner"][0]
            else:
                break
        if node.get("kind") != "CallExpr" or len(node.get("inner", [])) != 3:
            refuse(node, "pointer-valued expression that is not a call strchr(literal, c)")
        callee, arg_s, arg_c = node["inner"]
        while callee.get("kind") in ("ImplicitCastExpr", "ParenExpr"):
            callee = callee["inner"][0]
        decl = callee.get("referencedDecl", {})
        if callee.get("kind") != "DeclRefExpr" or decl.get("kind") != "FunctionDecl" \
                or decl.get("name") != "strchr" \
                or decl.get("type", {}).get("qualType") != "char *(const char *, int)":
            refuse(node, "call of something other than char *strchr(const char *, int)")
        ok, why = self.strchr_is_library()
        if not ok:
            refuse(node, why)
        while arg_s.get("kind") in ("ImplicitCastExpr", "ParenExpr") \
                and arg_s.get("castKind", "NoOp") in ("NoOp", "ArrayToPointerDecay"):
            arg_s = arg_s["inner"][0]
        if arg_s.get("kind") != "StringLiteral":
            refuse(node, "first argument of strchr is not a string literal")
        chars = decode_string_literal(arg_s)
        if 0 in chars:                                # the string ends at its first NUL
            chars = chars[:chars.index(0)]
        chars.append(0)                               # strchr also matches the terminator
        c = self.value(arg_c)
        if c.ctype != T_INT:
            refuse(node, "second argument of strchr not converted to int")
        c = convert(c, T_CHAR)                        # C11 7.24.5.2: "c (converted to a char)"
        return "(c_strchr_found [%s] %s)" % ("; ".join(zlit(x) for x in chars), c.term)

    # ---- statements -------------------------------------------------------------------
    def stmts(self, todo, ret_type, ind):
        """Coq term (text, indented by `ind`) for executing the statement list `todo` up to
        the first `return` on every path.  Names are resolved through clang's declaration ids,
        so flattening blocks cannot confuse scopes."""
        pad = "  " * ind
        if not todo:
            raise Unsupported("control can reach the end of the function without a return")
        s, rest = todo[0], todo[1:]
        kind = s.get("kind")

        if kind == "CompoundStmt":
            return self.stmts(s.get("inner", []) + rest, ret_type, ind)
        if kind == "NullStmt":
            return self.stmts(rest, ret_type, ind)

        if kind == "ReturnStmt":                      # statements after it are dead code
            if not s.get("inner"):
                refuse(s, "return without a value")
            v = convert(self.value(s["inner"][0]), ret_type)   # (clang already converted)
            return self.budget(pad + v.term)

        if kind == "IfStmt":
            if s.get("hasInit") or s.get("hasVar") or len(s.get("inner", [])) not in (2, 3):
                refuse(s, "if statement with initialiser/declaration")
            c = self.cond(s["inner"][0])
            then_branch = [s["inner"][1]]
            else_branch = [s["inner"][2]] if len(s["inner"]) == 3 else []
            t = self.stmts(then_branch + rest, ret_type, ind + 1)
            e = self.stmts(else_branch + rest, ret_type, ind + 1)
            return self.budget("%sif %s then (\n%s\n%s) else (\n%s\n%s)" % (pad, c, t, pad, e, pad))

        if kind == "DeclStmt":
            lets = []
            for d in s.get("inner", []):
                if d.get("kind") != "VarDecl" or d.get("storageClass") or d.get("init") != "c" \
                        or len(d.get("inner", [])) != 1:
                    refuse(d, "local declaration other than `T x = e;` with integer T")
                ty = ctype_of(d, "local variable")
                v = convert(self.value(d["inner"][0]), ty)
                lets.append("%slet %s := %s in" % (pad, self.bind(d, ty, v.lo, v.hi), v.term))
            body = self.stmts(rest, ret_type, ind)
            return self.budget("\n".join(lets + [body]))

        refuse(s, "statement of kind %s" % kind)


# --------------------------------------------------------------------------------------
# 4. Functions and the generated file
# --------------------------------------------------------------------------------------

GEN_HEADER = """\
(* GENERATED by tools/leaf_translate.py from %(source)s -- do not edit, regenerated on every run.
   Each definition is the translation of the body of one C function, C semantics explicit:
   values are Z; `char` is the signed 8-bit type, so the parameter ranges over [-128,127]. *)
From Coq Require Import ZArith Bool List.
Import ListNotations.
Local Open Scope Z_scope.

(* conversion to an unsigned integer type of width [bits]: modulo 2^bits (C11 6.3.1.3 p2) *)
Definition c_wrap_u (bits x : Z) : Z := x mod 2 ^ bits.
(* conversion to a signed integer type of width [bits]: two's complement wrap
   (implementation-defined in C11 6.3.1.3 p3; this is what clang and gcc define) *)
Definition c_wrap_s (bits x : Z) : Z := (x + 2 ^ (bits - 1)) mod 2 ^ bits - 2 ^ (bits - 1).
(* strchr(s, c) != NULL, where [chars] are the characters of s up to and INCLUDING its
   terminating NUL (strchr matches the terminator too) and [c] is already converted to char *)
Definition c_strchr_found (chars : list Z) (c : Z) : bool := existsb (Z.eqb c) chars.
"""


def translate_function(fn, decls, strchr_is_library):
    """-> (coq_definition_text or None, report_entry)."""
    bodies = [d for d in decls if d.get("kind") == "FunctionDecl"
              and any(c.get("kind") == "CompoundStmt" for c in d.get("inner", []))]
    if not bodies:
        return None, {"status": "missing"}
    try:
        if len(bodies) != 1:
            raise Unsupported("several definitions named %s" % fn)
        d = bodies[0]
        first, f1 = loc_line_file(d["range"]["begin"])
        last, _ = loc_line_file(d["range"]["end"])
        params = [c for c in d["inner"] if c.get("kind") == "ParmVarDecl"]
        body = [c for c in d["inner"] if c.get("kind") == "CompoundStmt"]
        if d.get("variadic") or len(params) != 1 or len(body) != 1:
            refuse(d, "function that does not have exactly one parameter")
        if ctype_of(params[0], "parameter") != T_CHAR:
            refuse(d, "parameter is not of type char")
        fn_type = d.get("type", {}).get("qualType", "")          # e.g. "uint8_t (const char)"
        tr = FunctionTranslator(strchr_is_library)
        ret_type = resolve_return_type(d, fn_type.split("(")[0].strip(), body[0])
        pname = tr.bind(params[0], T_CHAR, T_CHAR.lo, T_CHAR.hi)
        term = tr.stmts([body[0]], ret_type, 1)
        text = "(* %s:%s-%s  %s *)\nDefinition c_%s (%s : Z) : Z :=\n%s.\n" % (
            os.path.basename(f1 or "cat.c"), first, last, fn_type, fn, pname, term)
        return text, {"status": "translated", "coq_name": "c_" + fn, "lines": [first, last],
                      "c_type": fn_type, "return_type": ret_type.name}
    except Unsupported as e:
        return None, {"status": "unsupported", "why": str(e)}
    except (KeyError, IndexError, TypeError, ValueError) as e:     # AST shape we did not expect
        return None, {"status": "unsupported", "why": "unexpected AST shape: %r" % (e,)}


def resolve_return_type(fdecl, spelled, body):
    """The function's return type (spelled `spelled` in the source) as a CType.  The
    FunctionDecl node does not carry the typedef-resolved type (uint8_t, or a user typedef
    that merely looks like a builtin name), but clang converts every returned expression to
    the return type, and expression nodes do carry it: take it from the `return` statements
    whose spelled type equals the declared one; they must all agree."""
    found = set()

    def walk(n):
        if n.get("kind") == "ReturnStmt" and n.get("inner"):
            if n["inner"][0].get("type", {}).get("qualType") == spelled:
                found.add(ctype_of(n["inner"][0], "returned expression"))
        for c in n.get("inner", []):
            walk(c)
    walk(body)
    if len(found) != 1:
        refuse(fdecl, "cannot resolve the return type '%s' to an integer type" % spelled)
    return found.pop()


def translate(repo_src_dir):
    """Translate the five leaf functions of <repo_src_dir>/cat.c.
    -> (coq_text, report) ; report[fn]['status'] in {'translated','unsupported','missing'}.
    Never raises for anything the C source may contain."""
    report, defs = {}, []
    src = os.path.join(repo_src_dir, "cat.c")
    if char_is_unsigned():
        for fn in LEAF_FUNCTIONS:
            report[fn] = {"status": "unsupported",
                          "why": "plain char is unsigned for this compiler; the tie models signed char"}
        return GEN_HEADER % {"source": src}, report

    cache = {}

    def strchr_is_library():
        """strchr must be the C library's: declared, never defined, in this translation unit."""
        if "r" not in cache:
            decls, err = dump_decls(repo_src_dir, "strchr")
            if err:
                cache["r"] = (False, err)
            elif any(c.get("kind") == "CompoundStmt" for d in decls for c in d.get("inner", [])):
                cache["r"] = (False, "strchr is defined in the translation unit (not the library's)")
            elif not any(d.get("kind") == "FunctionDecl" for d in decls):
                cache["r"] = (False, "no declaration of strchr found")
            else:
                cache["r"] = (True, "")
        return cache["r"]

    for fn in LEAF_FUNCTIONS:
        decls, err = dump_decls(repo_src_dir, fn)
        if err:
            report[fn] = {"status": "unsupported", "why": err}
            continue
        text, report[fn] = translate_function(fn, decls, strchr_is_library)
        if text:
            defs.append(text)
    return GEN_HEADER % {"source": src} + "\n" + "\n".join(defs), report


# --------------------------------------------------------------------------------------
# 5. The tie: assemble LeafTie.v from the template, compile, diagnose
# --------------------------------------------------------------------------------------

MARK = re.compile(r"^\(\*@ (BEGIN) (\w+) (CHECK|THEOREM) @\*\)\s*$|^\(\*@ (END) @\*\)\s*$")


def parse_template(text):
    """Template = Coq text with marker lines  (*@ BEGIN <fn> CHECK|THEOREM @*) ... (*@ END @*).
    -> list of segments (fn or None, kind or None, text); text outside markers is common."""
    segs, cur, owner = [], [], (None, None)
    for line in text.splitlines(keepends=True):
        m = MARK.match(line.rstrip("\n"))
        if not m:
            cur.append(line)
            continue
        segs.append((owner[0], owner[1], "".join(cur)))
        cur = []
        owner = (m.group(2), m.group(3)) if m.group(1) else (None, None)
    segs.append((owner[0], owner[1], "".join(cur)))
    return segs


def assemble(segs, fns, with_theorems=True):
    """The template restricted to the functions `fns` (optionally without the theorems)."""
    return "".join(t for fn, kind, t in segs
                   if fn is None or (fn in fns and (with_theorems or kind == "CHECK")))


def coqc(path, coq_dir, workdir):
    """Compile one file of the work directory. -> (ok, stdout, tail of the error output)."""
    cmd = ["timeout", str(COQC_TIMEOUT_S), "coqc", "-q", "-Q", coq_dir, "CatV",
           "-Q", workdir, GEN_LOGICAL_PATH, path]
    try:
        p = subprocess.run(cmd, capture_output=True, text=True, cwd=workdir)
    except OSError as e:
        return False, "", "could not run coqc: %r" % (e,)
    tail = (p.stderr.strip() or p.stdout.strip())[-600:]
    if p.returncode == 124:
        tail = "coqc timed out after %d s; %s" % (COQC_TIMEOUT_S, tail)
    return p.returncode == 0, p.stdout, tail


def write(path, text):
    with open(path, "w") as f:
        f.write(text)


def assumptions_closed(stdout, n_theorems):
    """Every `Print Assumptions` of the compiled file said 'Closed under the global context'."""
    return stdout.count("Closed under the global context") == n_theorems \
        and "Axioms:" not in stdout


def first_difference(segs, fn, coq_dir, workdir):
    """First byte on which the generated and the model function differ, found by evaluating
    the boolean sweep of the template with vm_compute in a separate small file.
    -> {'first_diff_byte': n, ...} or None if they agree / the evaluation itself failed."""
    path = os.path.join(workdir, "LeafDiag_%s.v" % fn)
    write(path, assemble(segs, [fn], with_theorems=False)
          + "\nEval vm_compute in (first_diff chk_%s).\n" % fn)
    ok, out, _ = coqc(path, coq_dir, workdir)
    m = re.search(r"=\s*Some\s+(\d+)%N", out) if ok else None
    if not m:
        return None
    b = int(m.group(1))
    return {"first_diff_byte": b, "as_char": repr(chr(b)) if 32 <= b < 127 else "\\x%02x" % b,
            "as_c_char_value": b if b < 128 else b - 256}


def run_leaf_tie(repo_src_dir, workdir, coq_dir, template_path=TEMPLATE_PATH):
    """Regenerate LeafGen.v from the C source, assemble LeafTie.v, compile both.
    -> dict: translated / unsupported / missing / proved / failed / wall_s (see module doc)."""
    t0 = time.time()
    repo_src_dir, workdir, coq_dir = (os.path.abspath(p) for p in (repo_src_dir, workdir, coq_dir))
    os.makedirs(workdir, exist_ok=True)
    for name in os.listdir(workdir):                  # never reuse anything from an older run
        if re.match(r"\.?Leaf(Gen|Tie|Diag)", name):
            os.remove(os.path.join(workdir, name))

    gen_text, report = translate(repo_src_dir)
    translated = [f for f in LEAF_FUNCTIONS if report[f]["status"] == "translated"]
    res = {
        "source": os.path.join(repo_src_dir, "cat.c"),
        "translated": translated,
        "unsupported": {f: report[f]["why"] for f in LEAF_FUNCTIONS
                        if report[f]["status"] == "unsupported"},
        "missing": [f for f in LEAF_FUNCTIONS if report[f]["status"] == "missing"],
        "proved": [], "failed": {},
        "lines": {f: report[f]["lines"] for f in translated},
        "files": {"generated": os.path.join(workdir, "LeafGen.v"),
                  "tie": os.path.join(workdir, "LeafTie.v")},
    }

    def done():
        res["wall_s"] = round(time.time() - t0, 2)
        return res

    write(res["files"]["generated"], gen_text)
    with open(template_path) as f:
        segs = parse_template(f.read())
    known = {fn for fn, _, _ in segs if fn}
    for f in translated:
        if f not in known:
            res["failed"][f] = {"error": "no block for this function in " + template_path}
    todo = [f for f in translated if f in known]

    ok, _, tail = coqc(res["files"]["generated"], coq_dir, workdir)
    if not ok:                                        # a translator bug, not a difference
        for f in todo:
            res["failed"][f] = {"error": "generated LeafGen.v does not compile", "coqc": tail}
        return done()

    # 1st attempt: all translated functions in one LeafTie.v
    tie = res["files"]["tie"]
    write(tie, assemble(segs, todo))
    ok, out, tail = coqc(tie, coq_dir, workdir)
    if ok and assumptions_closed(out, len(todo)):
        res["proved"] = todo
        return done()

    # Something failed: check every function on its own to attribute the failure ...
    for f in todo:
        path = os.path.join(workdir, "LeafTie_%s.v" % f)
        write(path, assemble(segs, [f]))
        ok1, out1, tail1 = coqc(path, coq_dir, workdir)
        if ok1 and assumptions_closed(out1, 1):
            res["proved"].append(f)
            continue
        diff = first_difference(segs, f, coq_dir, workdir)
        res["failed"][f] = diff if diff else {
            "error": "tie theorem not accepted, but no differing byte found",
            "coqc": tail1 if not ok1 else "Print Assumptions not closed: " + out1[-400:]}
    # ... and leave a LeafTie.v/.vo behind that contains exactly the proved theorems.
    write(tie, assemble(segs, res["proved"]))
    ok, out, tail = coqc(tie, coq_dir, workdir)
    if not (ok and assumptions_closed(out, len(res["proved"]))):
        for f in res["proved"]:
            res["failed"][f] = {"error": "proved alone but not in the assembled LeafTie.v",
                                "coqc": tail}
        res["proved"] = []
    return done()


def main(argv):
    if len(argv) != 4:
        sys.stderr.write("usage: leaf_translate.py <repo_src_dir> <workdir> <coq_dir>\n")
        return 2
    res = run_leaf_tie(argv[1], argv[2], argv[3])
    print(json.dumps(res, indent=2))
    return 1 if res["failed"] else 0


if __name__ == "__main__":
    sys.exit(main(sys.argv))
