#!/usr/bin/env python3
"""Development aid: run the quick check of EVERY claimed property against a scratch copy of /repo/src with a patch
applied (used for behaviour-preserving rewrites, which must raise no alarm).  usage: run_patch_all.py <patch.diff>"""
import os, sys, json, shutil, subprocess, concurrent.futures
V = os.path.dirname(os.path.dirname(os.path.abspath(__file__)))
patch = os.path.abspath(sys.argv[1])
root = os.environ.get('PATCHRUN', '/tmp/patchrun_%d' % os.getpid())
shutil.rmtree(root, ignore_errors=True); os.makedirs(root)
shutil.copytree('/repo/src', root + '/src')
r = subprocess.run(['patch', '-p1', '-s', '-d', root, '-i', patch], capture_output=True, text=True)
assert r.returncode == 0, r.stdout
os.makedirs(root + '/build'); shutil.copy(V + '/build/catmodel', root + '/build/catmodel')
pids = [c['property_id'] for c in json.load(open(V + '/MANIFEST.json'))['checks']]
def one(pid):
    env = dict(os.environ, CAT_REPO=root, CAT_BUILD=root + '/build', VERIF_OUT=root + '/out', VERIF_SKIP_PROOF='1')
    r = subprocess.run([V + '/check', pid], env=env, capture_output=True, text=True)
    return pid, r.returncode, [l for l in r.stdout.split('\n') if 'tier=' in l or l.startswith('VIOLATION') or l.startswith('  ')][:3]
with concurrent.futures.ThreadPoolExecutor(max_workers=4) as ex:
    for pid, rc, lines in ex.map(one, pids):
        print(pid, 'ALARM' if rc else 'quiet', '' if not rc else lines, flush=True)
shutil.rmtree(root, ignore_errors=True)
