#!/usr/bin/env python3
"""Development aid: run the registered quick check of a seeded change's property against a scratch
copy of /repo's sources with the change applied (CAT_REPO/CAT_BUILD/VERIF_OUT point into the scratch
directory, so /repo, /verif/build, /verif/evidence and /verif/replays are not touched).
usage: run_seeded.py [seeded-dir-glob] [--all-props]"""
import os, sys, glob, json, shutil, subprocess, re, concurrent.futures
V = os.path.dirname(os.path.dirname(os.path.abspath(__file__)))
pat = sys.argv[1] if len(sys.argv) > 1 and not sys.argv[1].startswith('--') else 'C*'
dirs = sorted(d for q in pat.split(',') for d in glob.glob(os.path.join(V, 'seeded', q)) if os.path.isdir(d))
SCR = os.environ.get('SEEDRUN', '/tmp/seedrun_%d' % os.getpid())

def one(d):
    tag = os.path.basename(d)
    meta = json.load(open(os.path.join(d, 'meta.json')))
    pid = meta['property']
    root = os.path.join(SCR, tag)
    shutil.rmtree(root, ignore_errors=True)
    os.makedirs(root)
    shutil.copytree('/repo/src', root + '/src')
    r = subprocess.run(['patch', '-p1', '-s', '-d', root, '-i', os.path.join(d, 'patch.diff')], capture_output=True, text=True)
    if r.returncode != 0:
        return tag, pid, 'PATCH FAILED ' + r.stdout[-200:]
    os.makedirs(root + '/build')
    shutil.copy(V + '/build/catmodel', root + '/build/catmodel')
    env = dict(os.environ, CAT_REPO=root, CAT_BUILD=root + '/build', VERIF_OUT=root + '/out', VERIF_SKIP_PROOF='1')
    r = subprocess.run([V + '/check', pid], env=env, capture_output=True, text=True)
    lines = [l for l in r.stdout.split('\n') if l.startswith('VIOLATION') or 'tier=' in l]
    msg = [l.strip() for l in r.stdout.split('\n') if l.startswith('  ')][:1]
    nofail = any('no-failing-input-found' in l for l in lines if l.startswith('VIOLATION'))
    viol = [l for l in lines if l.startswith('VIOLATION')]
    status = 'MISSED' if r.returncode == 0 else ('caught(no-input)' if nofail and all('no-failing' in l for l in viol) else 'CAUGHT')
    shutil.rmtree(root, ignore_errors=True)
    return tag, pid, '%s rc=%d %s' % (status, r.returncode, (msg[0][:160] if msg else ''))

results = {}
with concurrent.futures.ThreadPoolExecutor(max_workers=4) as ex:
    for tag, pid, res in ex.map(one, dirs):
        print(tag, pid, res, flush=True)
        results[tag] = res
        if '--record' in sys.argv:
            mp = os.path.join(V, 'seeded', tag, 'meta.json')
            meta = json.load(open(mp))
            meta['detected_by'] = [{'check': './check %s --tier quick' % pid, 'result': res}]
            json.dump(meta, open(mp, 'w'), indent=1)
if '--record' in sys.argv:
    rp = os.path.join(V, 'seeded', 'RESULTS.json')
    if pat != 'C*' and os.path.exists(rp):      # partial run: merge into the recorded results
        results = dict(json.load(open(rp)), **results)
    json.dump(results, open(os.path.join(V, 'seeded', 'RESULTS.json'), 'w'), indent=1, sort_keys=True)
shutil.rmtree(SCR, ignore_errors=True)
