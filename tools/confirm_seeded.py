#!/usr/bin/env python3
"""Confirm candidate seeded changes in a scratch worktree (outside /repo and /verif):
patch applies, library + tests build with the repo's flags, suite 30/30, the
demonstration exits 0 without and non-zero with the change.  Confirmed ones are
stored under /verif/seeded/<id>-<k>/ (patch.diff, demo.c, meta.json)."""
import os, sys, json, re, subprocess, shutil, glob
WT = '/tmp/seedcheck_wt'
def sh(cmd, cwd=None, timeout=600):
    r = subprocess.run(cmd, shell=True, cwd=cwd, capture_output=True, text=True, timeout=timeout)
    return r.returncode, (r.stdout + r.stderr)
sh('git -C /repo worktree remove --force %s' % WT); shutil.rmtree(WT, ignore_errors=True)
rc, o = sh('git -C /repo worktree add --detach %s HEAD' % WT); assert rc == 0, o
results = []
for d in sorted(glob.glob('/tmp/mut/out/C??')):
    pid = os.path.basename(d)
    notes = open(d + '/notes.md').read() if os.path.exists(d + '/notes.md') else ''
    for k in (1, 2):
        patch, demo = '%s/patch%d.diff' % (d, k), '%s/demo%d.c' % (d, k)
        if not (os.path.exists(patch) and os.path.exists(demo)): continue
        sh('git checkout -- . && git clean -fdxq', cwd=WT)
        first = open(demo).readline()
        m = re.search(r'(-D\s*CAT_UNSOLICITED_CMD_BUFFER_SIZE=\d+)', first)
        defs = m.group(1) if m else ''
        extra = ''
        if 'pthread' in open(demo).read(): extra += ' -pthread'
        def build_demo(tag):
            out = '/tmp/seedcheck_%s' % tag
            rc, o = sh('cc -std=gnu99 -O1 %s -I%s/src %s %s/src/cat.c -o %s %s' % (defs, WT, demo, WT, out, extra))
            if rc != 0: return None, o
            try:
                rc, o = sh(out, timeout=300)
            except subprocess.TimeoutExpired:
                rc, o = 124, 'timeout'
            os.remove(out)
            return rc, o
        rc_clean, o_clean = build_demo('clean')
        rc, o = sh('git apply %s' % patch, cwd=WT)
        if rc != 0:
            results.append((pid, k, 'patch does not apply', o[-200:])); continue
        rc_b, o_b = sh('cmake -G Ninja -B _build -S . >/dev/null && cmake --build _build 2>&1 | tail -5 && ctest --test-dir _build -j8 2>&1 | tail -4', cwd=WT)
        passed = '100% tests passed, 0 tests failed out of 30' in o_b
        rc_mut, o_mut = build_demo('mut')
        ok = (rc_clean == 0 and passed and rc_mut not in (0, None))
        results.append((pid, k, 'CONFIRMED' if ok else 'REJECTED', 'clean=%s suite=%s mutated=%s' % (rc_clean, passed, rc_mut)))
        if ok:
            dst = '/verif/seeded/%s-%d' % (pid, k)
            os.makedirs(dst, exist_ok=True)
            shutil.copy(patch, dst + '/patch.diff'); shutil.copy(demo, dst + '/demo.c')
            # the part of notes about this change
            meta = {'property': pid, 'patch': 'patch.diff', 'demo': 'demo.c',
                    'demo_compile': 'cc -std=gnu99 -O1 %s -I<SRC> demo.c <SRC>/cat.c -o demo%s' % (defs, extra),
                    'confirmed': {'worktree': 'scratch git worktree of /repo HEAD under /tmp (removed afterwards)',
                                  'patch_applies': True, 'builds_with_repo_flags': True, 'suite': '30/30 passed',
                                  'demo_exit_unchanged': rc_clean, 'demo_exit_with_change': rc_mut,
                                  'demo_output_with_change_tail': (o_mut or '')[-600:]},
                    'origin': 'independent sub-agent given only the property text and its own scratch worktree',
                    'needs_to_manifest': '', 'detected_by': []}
            json.dump(meta, open(dst + '/meta.json', 'w'), indent=1)
            if notes: open(dst + '/agent_notes.md', 'w').write(notes)
        sh('git checkout -- . && git clean -fdxq', cwd=WT)
sh('git -C /repo worktree remove --force %s' % WT)
for r in results: print(*r)
