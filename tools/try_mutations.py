#!/usr/bin/env python3
"""Development aid: apply each candidate patch to a scratch copy of /repo's sources
(never to /repo), rebuild the C driver from it and count trace disagreements with
the model per family."""
import os, sys, glob, shutil, subprocess
sys.path.insert(0, '/verif/harness')
patches = sorted(glob.glob(sys.argv[1])) if len(sys.argv) > 1 else sorted(glob.glob('/tmp/mut/out/*/patch*.diff'))
fams = (sys.argv[2] if len(sys.argv) > 2 else 'mixed,names,num,buf,cap,rc,events,hold,mutex,lines,rt,wo,list,bytes,sched').split(',')
n = int(sys.argv[3]) if len(sys.argv) > 3 else 150
for p in patches:
    tag = p.split('/')[-2] + '_' + os.path.basename(p).replace('.diff', '')
    root = '/tmp/mutsrc/' + tag
    shutil.rmtree(root, ignore_errors=True)
    os.makedirs(root)
    shutil.copytree('/repo/src', root + '/src')
    r = subprocess.run(['patch', '-p1', '-d', root, '-i', p], capture_output=True, text=True)
    if r.returncode != 0:
        print(tag, 'PATCH FAILED', r.stdout[-300:]); continue
    env = dict(os.environ, CAT_REPO=root, CAT_BUILD=root + '/build')
    code = r'''
import sys
sys.path.insert(0,'/verif/harness')
from catlib import *
import gen, shutil
shutil.copy('/verif/build/catmodel', BUILD + '/catmodel') if os.path.isdir(BUILD) else None
os.makedirs(BUILD, exist_ok=True)
shutil.copy('/verif/build/catmodel', BUILD + '/catmodel')
ok,msg = build_cdrivers()
if not ok: print('BUILD FAILED', msg[:300]); sys.exit()
res = []
for fam in %r:
    scns = gen.generate([fam], 7, %d)
    ct, cc = run_c(scns, timeout=60); mt, mc = run_model(scns)
    bad = [s.name for s in scns if ct.get(s.name) != mt.get(s.name)]
    if bad or cc: res.append('%%s:%%d/%%d%%s' %% (fam, len(bad), len(scns), '(crash)' if cc else ''))
print(' '.join(res) if res else 'NOT DETECTED')
''' % (fams, n)
    r = subprocess.run([sys.executable, '-c', code], env=env, capture_output=True, text=True)
    print(tag, '=>', r.stdout.strip()[-400:], r.stderr.strip()[-300:])
    shutil.rmtree(root, ignore_errors=True)
