#!/usr/bin/env python3
"""Regenerates /verif/MANIFEST.json from the per-property table below; a property is claimed only if
coq/Properties_<id>.v exists and is listed in coq/_CoqProject."""
import json, os, re
V = os.path.dirname(os.path.dirname(os.path.abspath(__file__)))
proj = open(V + '/coq/_CoqProject').read().split()
T = {
 'C01': ('control-skeleton invariant (ghost counters: lines terminated / result codes started / completed, per state class) proved for every history from cat_init and, with C03, unconditionally in the supported domain; input requested only in reading states and only when every terminated line has its complete result; drain and lookup exits; whole-line theorems (exact output bytes for a READ line, an unknown line, a WRITE line)',
         'Coq: refinement of Fsm.v to the control skeleton (SkelSim) + invariant J on the skeleton (SkelInv), lifted by induction over the operation list'),
 'C02': ('lookup sweeps compute Spec.resolve for every table, typed name and flag setting (lane algebra by exhaustive finite sweep, sweeps by induction); end to end through io: AT<name><suffix> drives the machine to COMMAND_FOUND with exactly that command and request type within a linear number of calls',
         'Coq: induction over the command table and the typed name; finite forallb sweep lifted with forallb_forall'),
 'C03': ('the fault flag (every checked access of the model) is unreachable for every history in the supported domain; frame lemmas; PARTIAL: about the model\'s index arithmetic, the C object code is tied by the ASan/UBSan correspondence only',
         'Coq: invariant Safe by induction over the operation list'),
 'C04': ('the three numeric scanners and the range validators accept exactly grammar /\\ in-range (unbounded Z spec) and store the value; never SFault',
         'Coq: Horner invariant by induction over the text, lia'),
 'C05': ('hex-buffer and string decoders against decode specs; bounds in every case; read-only untouched',
         'Coq: induction over the text with generalised accumulators'),
 'C06': ('argument collection: handler sees exactly the bytes sent (CR dropped, case kept, NUL-terminated, exact length); length >= capacity rejected; read/test handler arguments',
         'Coq: induction over the received bytes'),
 'C07': ('per-variable round trip decode(format(v)) = v for all five types and all values; printed text has no delimiter; command level: the READ response text of a variable list, written back through the WRITE path, restores every variable (any number of variables)',
         'Coq: algebraic round-trip lemmas (print_dec/hex inverse, little-endian bytes, escape automaton)'),
 'C08': ('read-only storage unchanged along every history; write-only contents never read by any formatter (non-interference of fmt_var); availability rules',
         'Coq: frame lemmas over all model functions + induction over the operation list'),
 'C09': ('resolve only selects enabled commands and ignores disabled ones; gating of the four request forms equals Spec.dispatch_accepts; selected command enabled in every state that can call or store',
         'Coq: case analysis on the dispatcher + invariant over histories'),
 'C10': ('per-code theorems: each loop function against the documented table spec_action for every integer code, both machines; continuations; variable-callback failure; sequences for write/run handlers',
         'Coq: case analysis over the table + induction over the code sequence'),
 'C11': ('flush engine: phase laws, whole unit = newline ++ text ++ newline by induction on the text; exclusion of the two FLUSH states over every history; writes only by the owner of the flush',
         'Coq: induction over the text; skeleton invariant'),
 'C12': ('stutter lemmas for every state of both machines (refused read/write changes nothing; accepted write advances exactly one) and stutter simulation of any schedule by the eager schedule',
         'Coq: one-step equalities + simulation by induction on the number of service calls'),
 'C13': ('ring refines a bounded FIFO list for every capacity; accepted = popped ++ queued along every history (no loss, duplication, reordering)',
         'Coq: refinement to a list + invariant by induction over the operation list'),
 'C14': ('hold flag = HOLD state along every history; while held: no read, no result code; release: exactly one result code of the requested status; spurious release is a no-op',
         'Coq: skeleton invariant + local laws of the hold functions'),
 'C15': ('cat_service returns OK only if quiescent (reading state, read refused, event machine idle, queue empty) and then nothing changed; idempotent; and reaches quiescence within an explicit bound linear in pending input, queued events and remaining handler script entries (scripted always-ready environment, no unreleased hold)',
         'Coq: one-step case analysis for arbitrary oracles; lexicographic measure + well-founded induction for the progress bound'),
 'C16': ('bracket law for any body; failed lock changes nothing but the mutex oracle; exactly one unlock; balanced, never nested along every history',
         'Coq: frame predicate `quiet` over all model functions + induction over the operation list'),
 'C17': ('per-producer exactly-once, in-order delivery for every interleaving of lock-protected bodies (= every history); PARTIAL: data-race freedom of the C object code is validated by the TSan harness, not proved',
         'Coq: corollary of the C13 history theorem'),
 'C18': ('cat_is_busy = OK iff both machines idle; idle implies all counters settled and no flush pending, along every history; is_hold exact',
         'Coq: skeleton invariant'),
 'C19': ('TEST text = spec_test_text iff it fits, else ERROR; command list = spec_cmd_list of the enabled commands, never a truncated line; advertised = dispatch_accepts',
         'Coq: induction over the variable list / the command table'),
 'C20': ('parser scratch is dead at IDLE: two runs from states differing only in scratch produce equal traces (state-indexed relational invariant); newline choice mirrors k_cr',
         'Coq: relational (two-run) invariant by induction over the operation list'),
}
PARTIAL = {'C03', 'C17'}
checks, na = [], []
for i in range(1, 21):
    pid = 'C%02d' % i
    have = ('Properties_%s.v' % pid) in proj and os.path.exists('%s/coq/Properties_%s.v' % (V, pid))
    if not have:
        na.append({'property_id': pid, 'reason': 'not claimed yet: the theorem file coq/Properties_%s.v is still under construction (the correspondence check and oracle exist; see DESIGN.md)' % pid})
        continue
    text, tech = T[pid]
    more = sorted(f for f in proj if re.match(r'Properties_%s[a-z]\.v$' % pid, f))
    shared = [f for f in ('Properties_Inv.v', 'Properties_Inv2.v') if f in proj]
    extra = ''
    if more:
        extra = ' Further statement files counted as obligations of this property: ' + ', '.join('coq/' + f for f in more) + (' and, by theorem name, the shared ' + ' / '.join('coq/' + f for f in shared) + ' (history theorems under oracle-state invariants and on scripted worlds)' if shared else '') + '; see DESIGN.md 12.6c.'
    checks.append({
        'property_id': pid,
        'quick_cmd': './check %s --tier quick' % pid,
        'thorough_cmd': './check %s --tier thorough' % pid,
        'evidence_file': 'evidence/%s.json' % pid,
        'replay_cmd_template': './check replay {path}',
        'engine': 'coq-model+correspondence',
        'level_claimed': {'category': 'proof',
                          'text': 'Machine-checked Coq theorems about the hand-written Gallina model of cat.c (coq/Properties_%s.v: %s), tied to /repo on every run by a correspondence check (extracted model vs C driver built from /repo\'s working tree, same generated scenarios, traces compared call by call) and by the property oracle evaluated on the implementation\'s traces; in addition 102 function units of cat.c are re-translated from the clang AST on every run and proved equal to the model (translator ties)%s.%s' % (pid, text, ' — claimed at partial strength, see DESIGN.md' if pid in PARTIAL else '', extra),
                          'design_ref': 'DESIGN.md section 6 (%s) and section 12' % pid},
        'level_note': 'Trusted: Coq 8.16.1 kernel (vm_compute used, native_compute not); no axioms (Print Assumptions: closed under the global context); the model Fsm.v/Codec.v is hand-written and tied to the C code by differential testing (not proof); extraction (ExtrOcamlBasic only) cross-checked in Coq on a sample each run; C driver, generators, oracles; gcc/clang, sanitizers. Handler contract and scope decisions D1-D12 of DESIGN.md; translators (clang AST, explicit mapping tables) for the ties.',
        'technique': tech})
man = {
 'version': 1,
 'setup_cmd': './setup.sh',
 'hooks': {'guard': 'CAT_VERIF', 'enable': 'no hooks: checks use only the public API of /repo/src/cat.c (CAT_UNSOLICITED_CMD_BUFFER_SIZE is the library\'s own configuration macro)',
           'baseline_off_cmd': 'cmake -G Ninja -B /repo/_build -S /repo && cmake --build /repo/_build && ctest --test-dir /repo/_build -j8',
           'source_commits': [], 'add_only': True},
 'engines': [{'name': 'coq-model+correspondence', 'path': 'check', 'serves_properties': [c['property_id'] for c in checks],
              'kind_free_text': 'Coq 8.16 theorems over a Gallina model (coq/), extracted OCaml model (build/catmodel) vs C driver (harness/cdriver.c built from /repo), scenario generator (harness/gen.py), oracles (harness/oracles.py)'}],
 'checks': checks,
 'notes': 'see DESIGN.md; known_findings.jsonl lists the five defects of the pinned tree repaired by fix: commits in /repo',
 'not_applicable': na}
json.dump(man, open(V + '/MANIFEST.json', 'w'), indent=1)
print('claimed:', [c['property_id'] for c in checks]); print('not yet:', [n['property_id'] for n in na])
