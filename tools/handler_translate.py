#!/usr/bin/env python3
"""handler_translate.py -- vocabulary-lifting translator for the loop-free STATE HANDLERS of
cat.c, and driver of the "handler tie": a Coq proof, re-checked on every run, that the Gallina
definition GENERATED from the C source of a handler equals the HAND-WRITTEN model function of
coq/Fsm.v for ALL descriptors and ALL states.

    python3 tools/handler_translate.py /repo/src /verif/build/handlers /verif/coq

Pipeline (all offline: python3 stdlib + clang + coqc)

  cat.c --clang -ast-dump=json--> typed AST --translate()--> HandlerGen.v  (Definitions g_<fn>)
  coq/HandlerTieLib.v   (static: helper definitions, the tactic tie_auto, test families) -- copied
  coq/HandlerTie.v.in   (template) --assemble--> HandlerTie.v  (theorems tie_<fn>: g_<fn> = model)
  coqc HandlerTieLib.v ; coqc HandlerGen.v ; coqc HandlerTie.v
  a tie that fails -> HandlerDiag_<fn>.v: both sides evaluated (vm_compute) on a deterministic
  family of concrete states; the first state on which they differ is the WITNESS.

How this differs from leaf_translate.py.  The leaf translator gives C integer semantics to five
closed functions.  The state handlers read and write `struct cat_object`; the model has its own
representation of that object (record `state`, coq/Defs.v).  This translator does NOT model C
memory: it LIFTS each C statement into the model's vocabulary with the fixed MAPPING TABLE of
section 1 (field -> projection/setter, enumerator -> constructor, helper call -> the model function
of the same name, which is tied separately).  What is then PROVED is that the control structure
and the data flow of the C function, read through that table, are those of the model function.

Trusted in this tie: clang's parser/type checker; the MAPPING TABLE (section 1) and the
translation rules of sections 3-5 of this file; the statements in HandlerTie.v.in; Coq.
NOT trusted: the hand-written model functions (they are compared), the tactic (Coq checks it).

Translation rules (everything else is refused: 'unsupported', never guessed)
  * Abstractions shared with the model: size_t is nat (no wrap-around: the counters are bounded by
    commands_num / the buffer sizes); a C `char` object is the byte it holds (N, 0..255), so only
    == and != against character literals 0..127 are accepted on chars; enum objects only hold
    their enumerators; `self` is never NULL.
  * Statements are translated in continuation-passing style.  `T x = e;`/`x = e;` on locals are
    `let`; `self->f = e;` is `let s' := setk_f e s in`; `if`/`switch` followed by more statements
    bind the rest once (`let kontN := fun s => ... in`) and call it at the end of every branch;
    `break` calls the continuation of the switch, `return` ends the function.  A `case` group that
    can run into the next one (fall-through) is refused.  `assert(e)` with a side-effect-free `e`
    is ignored.
  * Status.  A function all of whose `return`s return the same enumerator E becomes
    `g_f : ... state -> state` plus `g_f_status : Z := E` (both are tied); a function whose
    returned value varies becomes `g_f : ... state -> state * Z`.  void functions: state -> state.
  * Reading states (READING_STATES): the function must begin, after its asserts, with exactly
    `if (read_cmd_char(self) == 0) return CAT_STATUS_OK;`.  That prologue is the model's `reading`
    combinator; THE REST is translated as `g_f_body D ch s`, where `ch` stands for every read of
    `self->current_char` (the body must not assign it); it is tied to the function the model
    passes to `reading` (restated in the template and proved to be the model's by reflexivity).
  * Partial operations follow the model's FAULT convention (state flag `fault`, Defs.set_fault_flag;
    a state with the flag set is outside the verified envelope):
      - a function that dereferences `self->cmd` is translated under
        `match cmd_of D ATCMD s with None => set_fault_flag s | Some c => ... end` around its WHOLE
        body (as the model does; refused if the function also assigns self->cmd);
      - partial READS (get_cmd_state, get_command_by_index, get_command_by_fsm, `x - 1` on a
        size_t, `cmd->name[i]`) guard the statement they occur in TOGETHER WITH the rest of its
        block: on failure the block yields `set_fault_flag s` and execution continues after the
        block (this is exactly where the model puts its `None => set_fault_flag s`);
      - stores into the working buffer are total: HandlerTieLib.store_c sets the flag when the
        index is outside the buffer; helper calls are total (the model helpers set the flag).
  * A call of a function of cat.c that is NOT in the mapping table (e.g. a helper introduced by
    a refactoring) is not guessed either: the callee is translated on the fly by the same rules,
    as g_aux_<name>, and called; it then belongs to the GENERATED side of the tie (class
    AuxRegistry).  If it cannot be translated the caller is 'unsupported'.
  * Besides whole functions, three PARTS of functions are tied (see the tables of section 1):
      - POST_CALL_FUNCTIONS: the switch over the code returned by a command handler, as a function
        of that code (g_<f>_post D code s);
      - DISPATCH_FUNCTIONS: the switch over the machine state of cat_service and of
        unsolicited_events_service, as a table state -> (handler called, how the status is made);
      - ENUM_VALUES: the numeric values of the cat_status / cat_return_state enumerators.

Report (run_handler_tie): per function translated / unsupported (with the reason) / missing (no
definition of that name in cat.c) / proved (every theorem of its block accepted and `Print
Assumptions` says "Closed under the global context") / failed.  failed[fn] = {'witness': {...}}
when generated and model DIFFER on a concrete input (printed with both results and the names of
the state fields that differ), or {'witness': None, 'coqc': ...} when they agree on the whole test
family: then only the proof script no longer applies (or they differ outside the family).
"""

import json
import os
import re
import shutil
import subprocess
import sys
import time

# ======================================================================================
# 1. THE MAPPING TABLE  (trusted: C vocabulary  <->  vocabulary of coq/Defs.v + coq/Fsm.v)
# ======================================================================================
# Kinds = the Coq types C values are lifted to.
#   nat (size_t)  byte (char: N, the byte)  lane (uint8_t 2-bit command state: N)  Z (int,
#   cat_status, cat_return_state)  bool  cstate ustate ctype wstate fsm vaccess (enumerations)
#   cmdptr (struct cat_command const *, as option nat = index into Fsm.pool)  cmdrec (a command
#   descriptor: Defs.cmd)  fnptr (a handler pointer, as the bool "is not NULL")  cstr (a C string
#   of the descriptor: list N)
COQ_TYPE = {"nat": "nat", "byte": "N", "lane": "N", "Z": "Z", "bool": "bool", "truth": "bool",
            "cstate": "cstate", "ustate": "ustate", "ctype": "ctype", "wstate": "wstate",
            "fsm": "fsm", "vaccess": "vaccess", "cmdrec": "cmd"}

# ---- fields of struct cat_object (self->F): kind, projection (read), setter (store) ----
OBJ_FIELDS = {
    "state":               ("cstate", "k_state",      "setk_state"),
    "cr_flag":             ("bool",   "k_cr",         "setk_cr"),
    "length":              ("nat",    "k_length",     "setk_length"),
    "index":               ("nat",    "k_index",      "setk_index"),
    "partial_cntr":        ("nat",    "k_partial",    "setk_partial"),
    "position":            ("nat",    "k_position",   "setk_position"),
    "write_size":          ("nat",    "k_write_size", "setk_write_size"),
    "cmd_type":            ("ctype",  "k_type",       "setk_type"),
    "current_char":        ("byte",   "k_char",       "setk_char"),
    "hold_state_flag":     ("bool",   "k_hold",       "setk_hold"),
    "hold_exit_status":    ("Z",      "k_hold_exit",  "setk_hold_exit"),
    "write_state":         ("wstate", "k_wstate",     "setk_wstate"),
    "write_state_after":   ("cstate", "k_wafter",     "setk_wafter"),
    "implicit_write_flag": ("bool",   "k_implicit",   "setk_implicit"),
    "cmd":                 ("cmdptr", "k_cmd",        "setk_cmd"),
    # stored only through the idioms of POINTER STORES below:
    "write_buf":           ("wbuf",   "k_wbuf",       "setk_wbuf"),
    "var":                 ("varidx", "k_var",        "setk_var"),
}
# ---- fields of struct cat_unsolicited_fsm (self->unsolicited_fsm.F) ----
UNS_FIELDS = {
    "state":             ("ustate", "u_state",    "setu_state"),
    "index":             ("nat",    "u_index",    "setu_index"),
    "position":          ("nat",    "u_position", "setu_position"),
    "cmd_type":          ("ctype",  "u_type",     "setu_type"),
    "write_state":       ("wstate", "u_wstate",   "setu_wstate"),
    "write_state_after": ("ustate", "u_wafter",   "setu_wafter"),
    "cmd":               ("cmdptr", "u_cmd",      "setu_cmd"),
    "write_buf":         ("wbuf",   "u_wbuf",     "setu_wbuf"),
    "var":               ("varidx", "u_var",      "setu_var"),
}
# self->commands_num is computed once by cat_init: the number of registered commands.
OBJ_CONSTANTS = {"commands_num": ("nat", "ncmds D")}

# ---- fields of struct cat_command read through a command descriptor c : Defs.cmd ----
CMD_FIELDS = {
    "only_test":      ("bool",  "c_only_test {c}"),
    "implicit_write": ("bool",  "c_implicit {c}"),
    "need_all_vars":  ("bool",  "c_need_all {c}"),
    "run":            ("fnptr", "c_hrun {c}"),      # handler pointers: only compared with NULL
    "read":           ("fnptr", "c_hread {c}"),
    "write":          ("fnptr", "c_hwrite {c}"),
    "test":           ("fnptr", "c_htest {c}"),
    "name":           ("cstr",  "c_name {c}"),
    "var_num":        ("nat",   "length (c_vars {c})"),
    # "var": only inside the idiom  (c->var != NULL) && (c->var_num > 0)   <->   c_vars c <> []
    #        and in the pointer stores  self->var = c->var  /  self->var = &c->var[i]
}

# ---- enumerators ----
ENUMERATORS = {}


def _enum(kind, prefix_c, prefix_coq, names, special=()):
    for n in names:
        ENUMERATORS[prefix_c + n] = (kind, prefix_coq + n)
    for c_name, coq_name in special:
        ENUMERATORS[c_name] = (kind, coq_name)


_enum("cstate", "CAT_STATE_", "CS_",
      ["ERROR", "IDLE", "PARSE_PREFIX", "PARSE_COMMAND_CHAR", "UPDATE_COMMAND_STATE",
       "SEARCH_COMMAND", "COMMAND_FOUND", "COMMAND_NOT_FOUND", "PARSE_COMMAND_ARGS",
       "PARSE_WRITE_ARGS", "FORMAT_READ_ARGS", "FORMAT_TEST_ARGS", "WRITE_LOOP", "READ_LOOP",
       "TEST_LOOP", "RUN_LOOP", "HOLD", "PRINT_CMD"],
      [("CAT_STATE_WAIT_READ_ACKNOWLEDGE", "CS_WAIT_READ_ACK"),
       ("CAT_STATE_WAIT_TEST_ACKNOWLEDGE", "CS_WAIT_TEST_ACK"),
       ("CAT_STATE_FLUSH_IO_WRITE_WAIT", "CS_FLUSH_WAIT"),
       ("CAT_STATE_FLUSH_IO_WRITE", "CS_FLUSH"),
       ("CAT_STATE_AFTER_FLUSH_RESET", "CS_AFTER_RESET"),
       ("CAT_STATE_AFTER_FLUSH_OK", "CS_AFTER_OK"),
       ("CAT_STATE_AFTER_FLUSH_FORMAT_READ_ARGS", "CS_AFTER_FMT_READ"),
       ("CAT_STATE_AFTER_FLUSH_FORMAT_TEST_ARGS", "CS_AFTER_FMT_TEST")])
_enum("ustate", "CAT_UNSOLICITED_STATE_", "US_",
      ["IDLE", "FORMAT_READ_ARGS", "FORMAT_TEST_ARGS", "READ_LOOP", "TEST_LOOP"],
      [("CAT_UNSOLICITED_STATE_FLUSH_IO_WRITE_WAIT", "US_FLUSH_WAIT"),
       ("CAT_UNSOLICITED_STATE_FLUSH_IO_WRITE", "US_FLUSH"),
       ("CAT_UNSOLICITED_STATE_AFTER_FLUSH_RESET", "US_AFTER_RESET"),
       ("CAT_UNSOLICITED_STATE_AFTER_FLUSH_OK", "US_AFTER_OK"),
       ("CAT_UNSOLICITED_STATE_AFTER_FLUSH_FORMAT_READ_ARGS", "US_AFTER_FMT_READ"),
       ("CAT_UNSOLICITED_STATE_AFTER_FLUSH_FORMAT_TEST_ARGS", "US_AFTER_FMT_TEST")])
_enum("ctype", "CAT_CMD_TYPE_", "T_", ["NONE", "RUN", "READ", "WRITE", "TEST"],
      [("CAT_CMD_TYPE__TOTAL_NUM", "T_TOTAL")])
_enum("fsm", "CAT_FSM_TYPE_", "", ["ATCMD"], [("CAT_FSM_TYPE_UNSOLICITED", "UNSOL")])
_enum("vaccess", "CAT_VAR_ACCESS_", "", [],
      [("CAT_VAR_ACCESS_READ_WRITE", "RW"), ("CAT_VAR_ACCESS_READ_ONLY", "RO"),
       ("CAT_VAR_ACCESS_WRITE_ONLY", "WO")])
_enum("Z", "CAT_STATUS_", "ST_", ["OK", "BUSY", "HOLD", "ERROR"],
      [("CAT_STATUS_ERROR_MUTEX_UNLOCK", "ST_MUTEX_UNLOCK"),
       ("CAT_STATUS_ERROR_MUTEX_LOCK", "ST_MUTEX_LOCK"),
       ("CAT_STATUS_ERROR_UNKNOWN_STATE", "ST_UNKNOWN_STATE"),
       ("CAT_STATUS_ERROR_BUFFER_FULL", "ST_BUFFER_FULL"),
       ("CAT_STATUS_ERROR_NOT_HOLD", "ST_NOT_HOLD"),
       ("CAT_STATUS_ERROR_BUFFER_EMPTY", "ST_BUFFER_EMPTY")])
_enum("Z", "CAT_RETURN_STATE_", "RC_",
      ["ERROR", "DATA_OK", "DATA_NEXT", "NEXT", "OK", "HOLD", "HOLD_EXIT_OK", "HOLD_EXIT_ERROR",
       "PRINT_CMD_LIST_OK"])

# all constructors of the enumerations a `switch` may range over (to know when it is exhaustive)
CONSTRUCTORS = {
    "cstate": sorted(v for k, v in ENUMERATORS.values() if k == "cstate"),
    "ustate": sorted(v for k, v in ENUMERATORS.values() if k == "ustate"),
    "ctype": ["T_NONE", "T_RUN", "T_READ", "T_WRITE", "T_TEST", "T_TOTAL"],
    "fsm": ["ATCMD", "UNSOL"],
    "wstate": ["WS_BEFORE", "WS_MAIN", "WS_AFTER"],
}
BEQ = {"cstate": "cstate_beq", "ustate": "ustate_beq", "ctype": "ctype_beq",
       "wstate": "wstate_beq", "fsm": "fsm_beq", "vaccess": "vaccess_beq"}

# ---- object-like macros of cat.c whose NAME is lost in the AST: mapped BY VALUE.  The #define
#      lines are re-read from the source on every run; if one of a group differs from this table,
#      every integer literal used at that kind is refused.  (Should they become real enumerators,
#      they are mapped by name: see the two _enum lines below.) ----
EXPECTED_DEFINES = {
    "lane": {"CAT_CMD_STATE_NOT_MATCH": 0, "CAT_CMD_STATE_PARTIAL_MATCH": 1,
             "CAT_CMD_STATE_FULL_MATCH": 2},
    "wstate": {"CAT_WRITE_STATE_BEFORE": 0, "CAT_WRITE_STATE_MAIN_BUFFER": 1,
               "CAT_WRITE_STATE_AFTER": 2},
}
_enum("lane", "CAT_CMD_STATE_", "CMD_", ["NOT_MATCH"],
      [("CAT_CMD_STATE_PARTIAL_MATCH", "CMD_PARTIAL"), ("CAT_CMD_STATE_FULL_MATCH", "CMD_FULL")])
_enum("wstate", "CAT_WRITE_STATE_", "WS_", ["BEFORE", "AFTER"],
      [("CAT_WRITE_STATE_MAIN_BUFFER", "WS_MAIN")])
WSTATE_BY_VALUE = {0: "WS_BEFORE", 1: "WS_MAIN", 2: "WS_AFTER"}
LANE_BY_VALUE = {0: "CMD_NOT_MATCH", 1: "CMD_PARTIAL", 2: "CMD_FULL"}    # Fsm.CMD_* : N

# ---- characters with a name in coq/Bytes.v (others are written as numerals) ----
CHAR_NAMES = {0: "ch_NUL", 10: "ch_LF", 13: "ch_CR", 44: "ch_COMMA", 61: "ch_EQ", 63: "ch_QM",
              65: "ch_A", 84: "ch_T"}

# ---- helper calls: a call of the C function is translated to a call of the MODEL function.
#      {s} = current state, {0},{1}.. = translated arguments after self.  The helpers that are in
#      HANDLER_FUNCTIONS are themselves tied by this tool, the LEAF_HELPERS by leaf_translate.py;
#      for the others (loops, formatted printing, bit operations: ASSUMED_HELPERS, listed in every
#      report) "C function ~ model function of that name" is an ASSUMPTION of this tie.
# state transformers (called as statements):           model term,                argument kinds
STATE_HELPERS = {
    "ack_error":                          ("ack_error {s}", []),
    "ack_ok":                             ("ack_ok {s}", []),
    "reset_state":                        ("reset_state {s}", []),
    "unsolicited_reset_state":            ("unsolicited_reset_state {s}", []),
    "prepare_parse_command":              ("prepare_parse_command {s}", []),
    "prepare_search_command":             ("prepare_search_command {s}", []),
    "start_flush_io_buffer":              ("start_flush_c {0} {s}", ["cstate"]),
    "unsolicited_start_flush_io_buffer":  ("start_flush_u {0} {s}", ["ustate"]),
    "start_flush_io_buffer_raw":          ("start_flush_raw_c {0} {s}", ["cstate"]),
    "end_processing_with_error":          ("end_with_error {0} {s}", ["fsm"]),
    "end_processing_with_ok":             ("end_with_ok {0} {s}", ["fsm"]),
    "enable_hold_state":                  ("enable_hold_state {s}", []),
    "start_processing_format_read_args":  ("start_processing_format_read_args D {0} {s}", ["fsm"]),
    "start_processing_format_test_args":  ("start_processing_format_test_args D {0} {s}", ["fsm"]),
    "start_print_cmd_list":               ("start_print_cmd_list D {s}", []),
    "set_cmd_state":                      ("set_cmd_state {s} {0} {1}", ["nat", "lane"]),
    "hold_exit":                          ("fst (hold_exit {s} {0})", ["Z"]),   # status ignored
}
# pure helpers (called in expressions):  result kind,  model term,                 argument kinds
VALUE_HELPERS = {
    "is_command_disable":            ("bool",  "is_command_disable D {s} {0}", ["nat"]),
    "is_variables_access_possible":  ("bool",  "vars_access_possible {0} {1}", ["cmdrec", "vaccess"]),
    "get_atcmd_buf_size":            ("nat",   "asz {s}", []),
    "get_unsolicited_buf_size":      ("nat",   "usz {s}", []),
    "is_unsolicited_buffer_empty":   ("bool",  "ring_empty {s}", []),
    "is_unsolicited_buffer_full":    ("bool",  "ring_full D {s}", []),
    # leaf functions (tied by tools/leaf_translate.py on the whole byte domain); no self argument
    "to_upper":                      ("byte",  "to_upper {0}", ["byte"]),
    "is_valid_cmd_name_char":        ("truth", "is_name_char {0}", ["byte"]),
}
LEAF_HELPERS = ("to_upper", "is_valid_cmd_name_char")
# partial reads: result kind, scrutinee (an option), argument kinds
PARTIAL_HELPERS = {
    "get_cmd_state":        ("lane",   "get_cmd_state D {s} {0}", ["nat"]),
    "get_command_by_index": ("cmdrec", "cmd_by_index (d_groups D) {0}", ["nat"]),
    "get_command_by_fsm":   ("cmdrec", "cmd_of D {0} {s}", ["fsm"]),
}
# ---- POINTER STORES (the only assignments of pointer type that are accepted):
#   self->cmd = NULL                                   setk_cmd None          (same for u)
#   self->cmd = get_command_by_index(self, e)          setk_cmd (Some e)
#   self->write_buf = get_new_line_chars(self)         setk_wbuf (WB_NL (k_cr (k s)))   (same for u)
#   self->write_buf = get_atcmd_buf(self)              setk_wbuf WB_MAIN
#   self->unsolicited_fsm.write_buf = get_unsolicited_buf(self)    setu_wbuf WB_MAIN
#   self->var = c->var   /   self->var = &c->var[e]    setk_var 0  /  setk_var e        (same for u)
# ---- BUFFER STORES:  get_atcmd_buf(self)[e] = v      store_c e v s   (HandlerTieLib.v)
# ---- library calls (the callee must be declared but NOT defined in the translation unit):
#   strlen(c->name)                                                    length (c_name c)
#   strncpy(get_atcmd_buf(self), "LIT", get_atcmd_buf_size(self))      set_cbuf (strncpy_buf (asz s) LIT) s
#   memset(get_atcmd_buf(self), V, get_atcmd_buf_size(self))           set_cbuf (repeat V (asz s)) s
#   (the working buffer of the model IS the first get_atcmd_buf_size bytes of desc->buf, so a
#    library call that fills exactly that many bytes replaces the whole of cbuf)
LIBRARY_CALLS = ("strlen", "strncpy", "memset")

# ---- what is translated (in this order) ----
READING_STATES = ["error_state", "parse_prefix", "parse_command", "wait_read_acknowledge",
                  "wait_test_acknowledge", "process_idle_state", "parse_command_args"]
HANDLER_FUNCTIONS = [
    "reset_state", "unsolicited_reset_state", "is_busy", "is_hold", "enable_hold_state",
    "hold_exit", "process_hold_state", "prepare_search_command", "start_flush_io_buffer",
    "unsolicited_start_flush_io_buffer", "start_flush_io_buffer_raw", "process_io_write_wait",
    "unsolicited_process_io_write_wait",
] + READING_STATES + [
    "command_found", "search_command", "update_command",
    "end_processing_with_error", "end_processing_with_ok",
    "command_not_found", "start_print_cmd_list", "cmd_list_next_cmd",
    "ack_error", "ack_ok", "prepare_parse_command",
]

ASSUMED_HELPERS = sorted(
    (set(STATE_HELPERS) | set(VALUE_HELPERS) | set(PARTIAL_HELPERS))
    - set(HANDLER_FUNCTIONS) - set(LEAF_HELPERS))

# ---- the four loops that call a command handler: only what happens AFTER the call is translated
#      (`switch (<the call>) { case CAT_RETURN_STATE_..: .. }`), as a function g_<fn>_post of the
#      returned code; the call itself (arguments, what the handler may do) is not tied here.
#      The call must be the scrutinee of a switch that is the first statement after the asserts.
POST_CALL_FUNCTIONS = ["process_write_loop", "process_run_loop", "process_read_loop",
                       "process_test_loop"]
HANDLER_POINTER_CALLS = ("write", "run")          # switch (self->cmd->write(...)) / ->run(...)
HANDLER_CALL_WRAPPERS = ("call_cmd_read_by_fsm", "call_cmd_test_by_fsm")

# ---- the two dispatching switches.  Each arm must have one of the shapes below; it becomes an
#      entry (type HandlerTieLib.dispatch) of a table  state -> entry.  H_<f> is the constructor of
#      HandlerTieLib.hname for the C function f (a handler not listed there is refused).
#        s = f(self[, FSM]); break;                              DAssign (H_f [FSM])
#        f(self[, FSM]); s = CAT_STATUS_BUSY; break;             DBusy (H_f [FSM])
#        if (is_unsolicited_buffer_empty(self) == false) { f(self); s = CAT_STATUS_BUSY; } break;
#                                                                DIfEvents H_f
#        s = CAT_STATUS_ERROR_UNKNOWN_STATE; break;              DUnknown
#        break;                                                  DNothing
DISPATCH_FUNCTIONS = {          # C function: (field the switch ranges over, Coq type of the state)
    "cat_service": (("obj", "state"), "cstate"),
    "unsolicited_events_service": (("uns", "state"), "ustate"),
}
ENUM_VALUES = "enum_values"     # pseudo function: the numeric values of the Z-valued enumerators
DISPATCH_HANDLERS = {           # C function name -> takes a cat_fsm_type argument?
    "error_state": False, "process_idle_state": False, "parse_prefix": False,
    "parse_command": False, "update_command": False, "wait_read_acknowledge": False,
    "search_command": False, "command_found": False, "command_not_found": False,
    "parse_command_args": False, "parse_write_args": False, "format_read_args": True,
    "wait_test_acknowledge": False, "format_test_args": True, "process_write_loop": False,
    "process_read_loop": True, "process_test_loop": True, "process_run_loop": False,
    "process_hold_state": False, "process_io_write_wait": False, "process_io_write": False,
    "unsolicited_process_io_write_wait": False, "unsolicited_process_io_write": False,
    "reset_state": False, "unsolicited_reset_state": False, "ack_ok": False,
    "start_processing_format_read_args": True, "start_processing_format_test_args": True,
    "end_processing_with_ok": True, "print_cmd_list": False, "check_unsolicited_buffers": False,
}

# ======================================================================================
# 2. Getting the AST out of clang
# ======================================================================================

HERE = os.path.dirname(os.path.abspath(__file__))
COQ_SRC_DIR = os.path.normpath(os.path.join(HERE, "..", "coq"))
TEMPLATE_NAME = "HandlerTie.v.in"
LIB_NAME = "HandlerTieLib.v"
GEN_LOGICAL_PATH = "HandlerTieGen"
COQC_TIMEOUT_S = 300
CLANG_TIMEOUT_S = 60


class Unsupported(Exception):
    """Raised inside the translation of ONE function; becomes report[fn] = unsupported/why."""


def _fill_locations(obj, last):
    """clang's JSON omits 'line'/'file' in a location when equal to the previously printed one;
    fill them in (document order) so that every location is self-contained."""
    if isinstance(obj, dict):
        if "offset" in obj:
            for key in ("file", "line"):
                if key in obj:
                    last[key] = obj[key]
                elif key in last:
                    obj[key] = last[key]
        for v in obj.values():
            _fill_locations(v, last)
    elif isinstance(obj, list):
        for v in obj:
            _fill_locations(v, last)


def load_translation_unit(src_dir):
    """-> (dict name -> list of FunctionDecl nodes WITH a body,
           dict enumerator name -> its integer value (None if it cannot be determined),
           error text or None)."""
    cat_c = os.path.join(src_dir, "cat.c")
    try:
        p = subprocess.run(["clang", "-fsyntax-only", "-Xclang", "-ast-dump=json",
                            "-I" + src_dir, cat_c],
                           capture_output=True, text=True, timeout=CLANG_TIMEOUT_S)
    except (OSError, subprocess.TimeoutExpired) as e:
        return {}, {}, "could not run clang: %r" % (e,)
    if p.returncode != 0:
        return {}, {}, "clang failed (exit %d): %s" % (p.returncode, p.stderr.strip()[-800:])
    try:
        tu = json.loads(p.stdout)
    except ValueError as e:
        return {}, {}, "cannot parse clang's JSON output: %s" % (e,)
    _fill_locations(tu, {})
    defs, enums = {}, {}
    for d in tu.get("inner", []):
        if d.get("kind") == "FunctionDecl" and \
                any(c.get("kind") == "CompoundStmt" for c in d.get("inner", [])):
            defs.setdefault(d.get("name"), []).append(d)
        if d.get("kind") == "EnumDecl":
            prev = -1                   # C11 6.7.2.2: first enumerator 0, then previous + 1;
            for c in d.get("inner", []):            # clang prints the value of explicit ones
                if c.get("kind") != "EnumConstantDecl":
                    continue
                init = [x for x in c.get("inner", []) if "value" in x]
                if c.get("inner") and not init:
                    prev = None
                elif init:
                    prev = int(init[0]["value"])
                elif prev is not None:
                    prev += 1
                enums[c.get("name")] = None if c.get("name") in enums else prev
    return defs, enums, None


def read_defines(src_dir):
    """-> {'lane': bool, 'wstate': bool}: the object-like macros of that group are written in
    cat.c exactly as EXPECTED_DEFINES says (each defined once, with that value)."""
    try:
        with open(os.path.join(src_dir, "cat.c")) as f:
            text = f.read()
    except OSError:
        text = ""
    ok = {}
    for group, names in EXPECTED_DEFINES.items():
        ok[group] = True
        for name, value in names.items():
            m = re.findall(r"^[ \t]*#[ \t]*define[ \t]+%s[ \t]+\(?(\d+)[uU]?\)?[ \t]*$" % name,
                           text, re.M)
            ok[group] = ok[group] and len(m) == 1 and int(m[0]) == value
    return ok


def node_line(node):
    for loc in (node.get("range", {}).get("begin", {}), node.get("loc", {})):
        loc = loc.get("expansionLoc", loc)
        if "line" in loc:
            return loc["line"]
    return None


def refuse(node, why):
    line = node_line(node) if isinstance(node, dict) else None
    raise Unsupported(why + (" (line %d)" % line if line else ""))


def strip(node):
    """Remove parentheses and value-preserving wrappers that carry no meaning here."""
    while node.get("kind") in ("ParenExpr", "ConstantExpr"):
        node = node["inner"][0]
    return node


def walk(node):
    yield node
    for c in node.get("inner", []) or []:
        if isinstance(c, dict):
            yield from walk(c)


# ======================================================================================
# 3. Expressions
# ======================================================================================

INT_BITS = {"char": 8, "signed char": 8, "unsigned char": 8, "bool": 1, "_Bool": 1,
            "short": 16, "unsigned short": 16, "int": 32, "unsigned int": 32,
            "long": 64, "unsigned long": 64, "long long": 64, "unsigned long long": 64}


def int_bits(node):
    """Width of the integer/enum type of an expression node, or None (not an integer)."""
    t = node.get("type", {})
    spelled = t.get("desugaredQualType", t.get("qualType", ""))
    words = " ".join(w for w in spelled.split() if w not in ("const", "volatile"))
    if words in INT_BITS:
        return INT_BITS[words]
    if words.startswith("enum ") or words.startswith("cat_"):
        return 32
    return None


def int_range(node):
    """Value range of the integer/enum type of an expression node (enum: that of int)."""
    bits = int_bits(node)
    if bits is None:
        refuse(node, "conversion to a non-integer type")
    t = node.get("type", {})
    spelled = t.get("desugaredQualType", t.get("qualType", ""))
    if bits == 1 or "unsigned" in spelled:
        return 0, 2 ** bits - 1
    return -2 ** (bits - 1), 2 ** (bits - 1) - 1


class Ex:
    """A lifted C expression: kind (section 1), Coq term; lit = python int for integer and
    character literals (which take the kind of what they are compared with / stored to)."""

    def __init__(self, kind, term, lit=None):
        self.kind, self.term, self.lit = kind, term, lit


def par(t):
    """Parenthesise a Coq term unless it is atomic."""
    return t if re.fullmatch(r"[\w.']+|\(.*\)", t) and _balanced_atom(t) else "(%s)" % t


def opnd(t):
    """Parenthesise a Coq term used as an operand of an infix operator, unless it is an
    application of atoms (application binds tighter than every infix operator)."""
    depth = 0
    for tok in re.findall(r"\(|\)|[^\s()]+", t):
        if tok == "(":
            depth += 1
        elif tok == ")":
            depth -= 1
        elif depth == 0 and (tok in ("if", "match", "fun", "let") or
                             not re.fullmatch(r"[\w.']+(%\w+)?", tok)):
            return "(%s)" % t
    return t


def _balanced_atom(t):
    if not t.startswith("("):
        return True
    depth = 0
    for i, ch in enumerate(t):
        depth += ch == "("
        depth -= ch == ")"
        if depth == 0 and i < len(t) - 1:
            return False
    return True


def nlit(n):
    return CHAR_NAMES.get(n, "%d%%N" % n)


class Guard:
    """A partial read: `match scrut with fail_pat => <fault> | ok_pat => <body> end`."""

    def __init__(self, scrut, fail_pat, ok_pat):
        self.scrut, self.fail_pat, self.ok_pat = scrut, fail_pat, ok_pat


class FunctionTranslator:
    MAX_OUTPUT_CHARS = 60000

    def __init__(self, fn, decl, defines_ok, reading):
        self.fn, self.decl, self.defines_ok, self.reading = fn, decl, defines_ok, reading
        self.counter = {}
        self.uses_cmd_deref = False      # self->cmd->f seen: whole body under `match cmd_of ..`
        self.assigns_obj_cmd = False
        self.mode = None                 # 'void' | 'const' | 'pair'
        self.const_status = None
        self.ret_kind = None
        self.emitted = 0
        self.self_id = None
        # Where self->cmd is known to be what it was when the function was entered:
        # origin[state name] = (root, same): root = 'init' or the continuation whose parameter the
        # state descends from; same = no helper call / store to ->cmd since root.
        self.origin = {"s": ("init", True)}
        self.kont_needs = set()          # continuations whose body dereferences self->cmd
        self.local_names = {}            # clang decl id -> C name of a local / parameter
        self.const_locals = {}           # clang decl id -> value of a never re-assigned local
                                         # initialised with an integer constant expression
        self.written_locals = set()      # ids of the locals assigned somewhere in the function
        self.defined_in_tu = set()       # names of the functions DEFINED in the translation unit
        self.post = False                # POST_CALL_FUNCTIONS: the handler call is the parameter `code`
        self.post_used = False
        self.aux = None                  # AuxRegistry: helpers of cat.c outside the mapping table
        self.call_override = {}          # clang id of a call already evaluated -> its value (Ex)

    # ---- names -----------------------------------------------------------------------
    def fresh(self, base, bare_first=False):
        """s1, s2, .. / t1, .. / kont1, ..; with bare_first (successive values of a C local):
        x_len, x_len'2, ..  (no clash possible: a C identifier cannot contain a quote)."""
        self.counter[base] = n = self.counter.get(base, 0) + 1
        if bare_first:
            return base if n == 1 else "%s'%d" % (base, n)
        return "%s%d" % (base, n)

    def budget(self, text):
        self.emitted += len(text)
        if self.emitted > self.MAX_OUTPUT_CHARS:
            raise Unsupported("function too large for the handler translator")
        return text

    # ---- literals ----------------------------------------------------------------------
    def coerce(self, node, ex, kind):
        """Give an integer literal the kind it is used at; check kinds otherwise."""
        if ex.kind == kind or (ex.kind == "truth" and kind == "bool"):
            return ex
        if ex.kind == "int":
            n = ex.lit
            if kind == "nat" and n >= 0:
                return Ex("nat", str(n))
            if kind == "byte" and 0 <= n <= 127:
                return Ex("byte", nlit(n))
            if kind == "Z":
                return Ex("Z", "%d%%Z" % n if n >= 0 else "(%d)%%Z" % n)
            if kind == "bool" and n in (0, 1):
                return Ex("bool", "true" if n else "false")
            if kind == "lane" and n in LANE_BY_VALUE and self.defines_ok["lane"]:
                return Ex("lane", LANE_BY_VALUE[n])
            if kind == "wstate" and n in WSTATE_BY_VALUE and self.defines_ok["wstate"]:
                return Ex("wstate", WSTATE_BY_VALUE[n])
            refuse(node, "integer literal %d used where a %s is expected" % (n, kind))
        refuse(node, "a %s is used where a %s is expected" % (ex.kind, kind))

    # ---- self and its fields ---------------------------------------------------------------
    def is_self(self, node):
        node = strip(node)
        if node.get("kind") == "ImplicitCastExpr" and node.get("castKind") == "LValueToRValue":
            node = strip(node["inner"][0])
        return node.get("kind") == "DeclRefExpr" and \
            node.get("referencedDecl", {}).get("id") == self.self_id

    def field_of(self, node):
        """node = MemberExpr.  -> ('obj'|'uns', field name)  or  ('cmd', field name, base node)
        or None."""
        if node.get("kind") != "MemberExpr":
            return None
        base, name = strip(node["inner"][0]), node.get("name")
        if node.get("isArrow") and self.is_self(base):
            return ("obj", name)
        if not node.get("isArrow") and base.get("kind") == "MemberExpr" \
                and base.get("name") == "unsolicited_fsm" and base.get("isArrow") \
                and self.is_self(base["inner"][0]):
            return ("uns", name)
        if node.get("isArrow"):
            return ("cmd", name, base)
        return None

    def cmdrec_of(self, node, s, env, G):
        """A `struct cat_command *` valued expression used to reach a command descriptor."""
        ex = self.ex(node, s, env, G)
        if ex.kind == "cmdrec":
            return ex.term
        if ex.kind == "cmdptr" and ex.term == "k_cmd (k %s)" % s:
            # self->cmd->...: the descriptor bound ONCE around the whole body (see translate_function)
            root, same = self.origin.get(s, (None, False))
            if not same:
                refuse(node, "self->cmd dereferenced after a helper call or a store to it "
                             "(it may differ from what it was when the function was entered)")
            if root != "init":
                self.kont_needs.add(root)
            self.uses_cmd_deref = True
            return "c"
        refuse(node, "cannot reach a command descriptor through this expression")

    def read_lvalue(self, node, s, env, G):
        node = strip(node)
        kind = node.get("kind")
        if kind == "DeclRefExpr":
            did = node.get("referencedDecl", {}).get("id")
            if did in self.const_locals:
                return Ex("int", None, lit=self.const_locals[did])
            if did in env:
                name, k = env[did]
                if name is None:
                    refuse(node, "local variable read before it is assigned")
                return Ex(k, name)
            refuse(node, "read of an unmapped variable '%s'"
                   % node.get("referencedDecl", {}).get("name"))
        if kind == "MemberExpr":
            f = self.field_of(node)
            if f is None:
                refuse(node, "unmapped member access '.%s'" % node.get("name"))
            if f[0] == "obj" and f[1] in OBJ_CONSTANTS:
                k, term = OBJ_CONSTANTS[f[1]]
                return Ex(k, term)
            if f[0] == "obj" and f[1] == "current_char" and self.reading:
                return Ex("byte", "ch")
            if f[0] in ("obj", "uns"):
                table, rec = (OBJ_FIELDS, "k") if f[0] == "obj" else (UNS_FIELDS, "u")
                if f[1] not in table:
                    refuse(node, "field '%s' is not in the mapping table" % f[1])
                k, proj, _ = table[f[1]]
                if k in ("wbuf", "varidx"):
                    refuse(node, "field '%s' is only mapped for the listed pointer stores" % f[1])
                return Ex(k, "%s (%s %s)" % (proj, rec, s))
            if f[1] not in CMD_FIELDS:
                refuse(node, "command field '%s' is not in the mapping table" % f[1])
            c = self.cmdrec_of(f[2], s, env, G)
            k, tmpl = CMD_FIELDS[f[1]]
            return Ex(k, tmpl.format(c=c))
        if kind == "ArraySubscriptExpr":
            base, idx = node["inner"]
            b = self.ex(base, s, env, G)
            if b.kind != "cstr":
                refuse(node, "array read that is not cmd->name[i]")
            i = self.coerce(idx, self.ex(idx, s, env, G), "nat")
            t = self.fresh("t")
            G.append(Guard("nth_error %s %s" % (par(b.term), par(i.term)), "None", "Some " + t))
            return Ex("byte", t)
        refuse(node, "read of an lvalue of kind %s" % kind)

    # ---- calls -------------------------------------------------------------------------------
    def callee_name(self, call):
        c = call["inner"][0]
        while c.get("kind") in ("ImplicitCastExpr", "ParenExpr"):
            c = c["inner"][0]
        d = c.get("referencedDecl", {})
        if c.get("kind") != "DeclRefExpr" or d.get("kind") != "FunctionDecl":
            return None
        return d.get("name")

    def call_args(self, call, name, kinds, s, env, G, leaf=False):
        args = call["inner"][1:]
        if not leaf:
            if not args or not self.is_self(args[0]):
                refuse(call, "call of %s whose first argument is not self" % name)
            args = args[1:]
        if len(args) != len(kinds):
            refuse(call, "call of %s with %d arguments, mapping table says %d"
                   % (name, len(args), len(kinds)))
        out = []
        for a, k in zip(args, kinds):
            if k == "cmdrec":
                out.append(par(self.cmdrec_of(a, s, env, G)))
            else:
                out.append(par(self.coerce(a, self.ex(a, s, env, G), k).term))
        return out

    def value_call(self, node, s, env, G):
        name = self.callee_name(node)
        if node.get("id") in self.call_override:
            return self.call_override[node["id"]]
        if name in VALUE_HELPERS:
            k, tmpl, kinds = VALUE_HELPERS[name]
            args = self.call_args(node, name, kinds, s, env, G, leaf=name in LEAF_HELPERS)
            return Ex(k, tmpl.format(*args, s=s))
        if name in PARTIAL_HELPERS:
            k, tmpl, kinds = PARTIAL_HELPERS[name]
            args = self.call_args(node, name, kinds, s, env, G)
            t = self.fresh("t")
            G.append(Guard(tmpl.format(*args, s=s), "None", "Some " + t))
            return Ex(k, t)
        if name == "strlen" and len(node["inner"]) == 2 and name not in self.defined_in_tu:
            a = self.ex(node["inner"][1], s, env, G)
            if a.kind == "cstr":
                return Ex("nat", "length %s" % par(a.term))
            refuse(node, "strlen of something that is not a command name")
        refuse(node, "call of '%s', which is not in the mapping table" % name)

    # ---- general expressions ---------------------------------------------------------------------
    def ex(self, node, s, env, G):
        node = strip(node)
        kind = node.get("kind")
        if kind in ("IntegerLiteral", "CharacterLiteral"):
            return Ex("int", None, lit=int(node["value"]))
        if kind == "DeclRefExpr" and node.get("referencedDecl", {}).get("kind") == "EnumConstantDecl":
            name = node["referencedDecl"].get("name")
            if name not in ENUMERATORS:
                refuse(node, "enumerator %s is not in the mapping table" % name)
            k, term = ENUMERATORS[name]
            return Ex(k, term)
        if kind in ("ImplicitCastExpr", "CStyleCastExpr"):
            ck, sub = node.get("castKind"), node["inner"][0]
            if ck == "LValueToRValue":
                return self.read_lvalue(sub, s, env, G)
            if ck in ("IntegralCast", "NoOp", "IntegralToBoolean"):
                e = self.ex(sub, s, env, G)
                if ck == "IntegralToBoolean":
                    return self.coerce(node, e, "bool")
                if ck == "IntegralCast" and e.kind != "int":
                    src, dst = int_bits(strip(sub)), int_bits(node)
                    if src is None or dst is None or dst < src:
                        refuse(node, "narrowing or non-integer conversion")
                if ck == "IntegralCast" and e.kind == "int":
                    lo, hi = int_range(node)
                    if not lo <= e.lit <= hi:
                        refuse(node, "constant %d converted to a type that cannot hold it" % e.lit)
                return e
            if ck in ("NullToPointer",):
                return Ex("null", None)
            if ck in ("BitCast", "ArrayToPointerDecay") and node.get("kind") == "ImplicitCastExpr":
                e = self.ex(sub, s, env, G)
                if e.kind in ("null", "cmdrec", "cmdptr", "cstr"):
                    return e
            refuse(node, "conversion of kind %s" % ck)
        if kind == "MemberExpr" or kind == "ArraySubscriptExpr":
            refuse(node, "lvalue used without being read")
        if kind == "CallExpr":
            return self.value_call(node, s, env, G)
        if kind == "UnaryOperator":
            op, sub = node.get("opcode"), node["inner"][0]
            if op == "!":
                return Ex("bool", "negb %s" % par(self.truth(sub, s, env, G)))
            if op == "-":
                e = self.ex(sub, s, env, G)
                if e.kind == "int":
                    return Ex("int", None, lit=-e.lit)
            refuse(node, "unary operator '%s' in an expression" % op)
        if kind == "BinaryOperator":
            op = node.get("opcode")
            if op in ("==", "!=", "<", "<=", ">", ">=", "&&", "||"):
                return Ex("bool", self.truth(node, s, env, G))
            a, b = node["inner"]
            if op in ("<<", "|", "&", "+", "-", "*"):
                folded = self.fold(node, op, a, b, s, env)
                if folded is not None:
                    return folded
            if op == "+":
                ea, eb = self.ex(a, s, env, G), self.ex(b, s, env, G)
                if ea.kind == "nat" and eb.kind == "int" and eb.lit == 1:
                    return Ex("nat", "S %s" % par(ea.term))
                if ea.kind == "nat" and eb.kind in ("nat", "int"):
                    return Ex("nat", "%s + %s" % (par(ea.term), par(self.coerce(b, eb, "nat").term)))
                refuse(node, "'+' on operands that are not size_t")
            if op == "-":
                ea, eb = self.ex(a, s, env, G), self.ex(b, s, env, G)
                if ea.kind == "nat" and eb.kind == "int" and eb.lit == 1:
                    t = self.fresh("t")     # x - 1 on size_t: x = 0 would wrap around -> fault
                    G.append(Guard(ea.term, "O", "S " + t))
                    return Ex("nat", t)
                refuse(node, "'-' other than `x - 1` on a size_t")
            refuse(node, "binary operator '%s'" % op)
        if kind == "ConditionalOperator":
            c, a, b = node["inner"]
            ct = self.truth(c, s, env, G)
            ea, eb = self.ex(a, s, env, G), self.ex(b, s, env, G)
            if ea.kind == "int" and eb.kind == "int":
                return Ex("intcond", (ct, ea.lit, eb.lit))      # resolved by coerce_any
            if ea.kind == "int":
                ea = self.coerce(a, ea, eb.kind)
            if eb.kind == "int":
                eb = self.coerce(b, eb, ea.kind)
            if ea.kind != eb.kind:
                refuse(node, "branches of ?: of different kinds (%s, %s)" % (ea.kind, eb.kind))
            return Ex(ea.kind, "if %s then %s else %s" % (ct, ea.term, eb.term))
        refuse(node, "expression of kind %s" % kind)

    def fold(self, node, op, a, b, s, env):
        """Integer constant expression over literals: computed here (only while every
        intermediate value stays in [0, 2^31), where int and unsigned int agree)."""
        try:
            ea, eb = self.ex(a, s, env, []), self.ex(b, s, env, [])
        except Unsupported:
            return None
        if ea.kind != "int" or eb.kind != "int":
            return None
        x, y = ea.lit, eb.lit
        if x < 0 or y < 0 or (op == "<<" and y > 30):
            refuse(node, "constant expression with a negative operand or a large shift")
        v = {"<<": x << y, "|": x | y, "&": x & y, "+": x + y, "-": x - y, "*": x * y}[op]
        if not 0 <= v < 2 ** 31:
            refuse(node, "constant expression whose value leaves [0, 2^31)")
        return Ex("int", None, lit=v)

    def value(self, node, kind, s, env, G):
        """Translate `node` as a value of the given kind."""
        e = self.ex(node, s, env, G)
        if e.kind == "intcond":
            ct, x, y = e.term
            tx = self.coerce(node, Ex("int", None, lit=x), kind).term
            ty = self.coerce(node, Ex("int", None, lit=y), kind).term
            return "if %s then %s else %s" % (ct, tx, ty)
        return self.coerce(node, e, kind).term

    # ---- truth values ----------------------------------------------------------------------------
    CMP_NAT = {"==": "{a} =? {b}", "<": "{a} <? {b}", "<=": "{a} <=? {b}",
               ">": "{b} <? {a}", ">=": "{b} <=? {a}"}

    def truth(self, node, s, env, G):
        """Coq bool for `node != 0` (the C truth value of node)."""
        node = strip(node)
        kind, op = node.get("kind"), node.get("opcode")
        if kind == "BinaryOperator" and op in ("&&", "||"):
            a, b = node["inner"]
            idiom = self.vars_nonempty_idiom(a, b, s, env, G) if op == "&&" else None
            if idiom:
                return idiom
            G2 = []                               # the right operand is evaluated conditionally
            tb = self.truth(b, s, env, G2)
            if G2:
                refuse(b, "partial read in the right operand of %s" % op)
            return "%s %s %s" % (opnd(self.truth(a, s, env, G)), op, opnd(tb))
        if kind == "UnaryOperator" and op == "!":
            return "negb %s" % par(self.truth(node["inner"][0], s, env, G))
        if kind == "BinaryOperator" and op in ("==", "!=", "<", "<=", ">", ">="):
            return self.comparison(node, op, s, env, G)
        e = self.ex(node, s, env, G)
        if e.kind in ("bool", "truth", "fnptr"):
            return e.term
        if e.kind == "int":
            return "true" if e.lit != 0 else "false"
        if e.kind == "nat":
            return "negb (%s =? 0)" % opnd(e.term)
        if e.kind == "Z":
            return "negb (%s =? 0)%%Z" % opnd(e.term)
        refuse(node, "a %s used as a truth value" % e.kind)

    def vars_nonempty_idiom(self, a, b, s, env, G):
        """(c->var != NULL) && (c->var_num > 0)  <->  c_vars c is not empty."""
        a, b = strip(a), strip(b)
        if not (a.get("opcode") == "!=" and b.get("opcode") == ">"):
            return None
        al, ar = (strip(x) for x in a["inner"])
        bl, br = (strip(x) for x in b["inner"])

        def member(n, name):
            while n.get("kind") in ("ImplicitCastExpr", "ParenExpr"):
                n = n["inner"][0]
            f = self.field_of(n)
            return f[2] if f and f[0] == "cmd" and f[1] == name else None
        base_a, base_b = member(al, "var"), member(bl, "var_num")
        if base_a is None or base_b is None:
            return None
        if self.ex(ar, s, env, []).kind != "null":
            return None
        zero = self.ex(br, s, env, [])
        if zero.kind != "int" or zero.lit != 0:
            return None
        ca, cb = self.cmdrec_of(base_a, s, env, G), self.cmdrec_of(base_b, s, env, G)
        if ca != cb:
            return None
        return "match c_vars %s with [] => false | _ :: _ => true end" % par(ca)

    def comparison(self, node, op, s, env, G):
        a, b = node["inner"]
        ea, eb = self.ex(a, s, env, G), self.ex(b, s, env, G)
        neg = lambda t: "negb %s" % par(t)
        # pointers against NULL
        if "null" in (ea.kind, eb.kind):
            p = eb if ea.kind == "null" else ea
            if op not in ("==", "!=") or p.kind == "null":
                refuse(node, "pointer comparison other than == / != NULL")
            if p.kind == "fnptr":
                return p.term if op == "!=" else neg(p.term)
            if p.kind == "cmdptr":
                yes, no = ("false", "true") if op == "!=" else ("true", "false")
                return "match %s with None => %s | Some _ => %s end" % (p.term, yes, no)
            refuse(node, "comparison of a %s with NULL" % p.kind)
        # _Bool / truth values against 0, false, true
        for x, y in ((ea, eb), (eb, ea)):
            if x.kind in ("bool", "truth") and y.kind == "int" and op in ("==", "!="):
                if y.lit == 0:
                    return neg(x.term) if op == "==" else x.term
                if y.lit == 1 and x.kind == "bool":
                    return x.term if op == "==" else neg(x.term)
                refuse(node, "truth value compared with %d" % y.lit)
        if ea.kind == "int" and eb.kind == "int":
            refuse(node, "comparison of two literals")
        if ea.kind == "int":
            ea = self.coerce(a, ea, eb.kind)
        if eb.kind == "int":
            eb = self.coerce(b, eb, ea.kind)
        if ea.kind != eb.kind:
            refuse(node, "comparison of a %s with a %s" % (ea.kind, eb.kind))
        k, ta, tb = ea.kind, par(ea.term), par(eb.term)
        if k not in BEQ and k != "bool":
            ta, tb = opnd(ea.term), opnd(eb.term)
        if k in BEQ and op in ("==", "!="):
            t = "%s %s %s" % (BEQ[k], ta, tb)
            return t if op == "==" else neg(t)
        if k == "nat":
            if op == "!=":
                return neg("%s =? %s" % (ta, tb))
            return "(%s)" % self.CMP_NAT[op].format(a=ta, b=tb)
        if k == "Z":
            if op == "!=":
                return neg("(%s =? %s)%%Z" % (ta, tb))
            return "(%s)%%Z" % self.CMP_NAT[op].format(a=ta, b=tb)
        if k in ("byte", "lane") and op in ("==", "!="):      # chars: no ordering (signedness)
            t = "(%s =? %s)%%N" % (ta, tb)
            return t if op == "==" else neg(t)
        if k == "bool" and op in ("==", "!="):
            t = "Bool.eqb %s %s" % (ta, tb)
            return t if op == "==" else neg(t)
        refuse(node, "comparison '%s' on %s" % (op, k))


# ======================================================================================
# 4. Statements (continuation-passing)
# ======================================================================================

def ind(text, n=2):
    pad = " " * n
    return "\n".join(pad + line if line else line for line in text.split("\n"))


class Cont:
    """What happens after a block: call(state term, env, fault) -> Coq text.  `fault` says that
    the block was left because a partial read failed (only the end of the function cares)."""

    def __init__(self, call):
        self.call = call


def is_assert(node):
    """The expansion of glibc's assert(e): a parenthesised comma expression whose right side
    calls __assert_fail.  Accepted (and ignored) only if `e` has no side effect."""
    n = strip(node)
    if n.get("kind") != "BinaryOperator" or n.get("opcode") != ",":
        return False
    calls = [c for c in walk(n) if c.get("kind") == "CallExpr"]
    if not calls or not all(
            (strip_casts(c["inner"][0]).get("referencedDecl", {}).get("name") == "__assert_fail")
            for c in calls):
        return False
    for c in walk(n):
        if c.get("kind") == "UnaryOperator" and c.get("opcode") in ("++", "--"):
            return False
        if c.get("kind") == "CompoundAssignOperator" or \
                (c.get("kind") == "BinaryOperator" and c.get("opcode") == "="):
            return False
    return True


def strip_casts(node):
    while node.get("kind") in ("ImplicitCastExpr", "ParenExpr", "CStyleCastExpr"):
        node = node["inner"][0]
    return node


def local_reads(nodes):
    """ids of the local variables referenced in the given statements."""
    out = set()
    for n in nodes:
        for c in walk(n):
            if c.get("kind") == "DeclRefExpr" and c.get("referencedDecl", {}).get("kind") == "VarDecl":
                out.add(c["referencedDecl"]["id"])
    return out


def local_writes(nodes):
    """ids of the local variables assigned in the given statements."""
    out = set()
    for n in nodes:
        for c in walk(n):
            if c.get("kind") in ("BinaryOperator", "CompoundAssignOperator") and \
                    (c.get("opcode") == "=" or c.get("kind") == "CompoundAssignOperator"):
                tgt = strip(c["inner"][0])
                if tgt.get("kind") == "DeclRefExpr":
                    out.add(tgt.get("referencedDecl", {}).get("id"))
    return out


class StatementTranslator(FunctionTranslator):

    # ---- results ------------------------------------------------------------------------------------
    def result(self, node, s, env, G, value_node):
        """Coq term for `return value_node;` in state s."""
        if self.mode == "void":
            if value_node is not None:
                refuse(node, "return with a value in a void function")
            return s
        if value_node is None:
            refuse(node, "return without a value")
        if self.mode == "const":
            return s                                    # the value was checked by find_mode()
        return "(%s, %s)" % (s, self.value(value_node, self.ret_kind, s, env, G))

    def function_end(self):
        def call(st, env, fault=False):
            if self.mode == "void" or (fault and self.mode == "const"):
                return st
            if fault:
                raise Unsupported("partial read at the top level of a function whose "
                                  "returned status varies")
            raise Unsupported("control can reach the end of a non-void function")
        return Cont(call)

    def fault(self, kb, s, env):
        st = "(set_fault_flag %s)" % s
        self.origin[st] = self.origin.get(s, (None, False))
        return kb.call(st, env, True)

    def wrap(self, G, body, kb, s, env):
        """Put the guards collected while translating one statement around it + rest of block."""
        for g in reversed(G):
            body = "match %s with\n| %s => %s\n| %s =>\n%s\nend" % (
                g.scrut, g.fail_pat, self.fault(kb, s, env), g.ok_pat, ind(body))
        return self.budget(body)

    # ---- continuations -----------------------------------------------------------------------------
    def make_cont(self, stmt, rest, env, kb, kbrk, later):
        """Continuation for `rest` (the statements after `stmt` in its block), bound once by a
        `let`.  -> (let-text or '', Cont).  Locals assigned inside stmt and read afterwards
        become parameters."""
        if not rest:
            return "", kb
        need = (local_reads(rest) | later) & local_writes([stmt]) & set(env)
        params = sorted(need, key=lambda i: str(env[i][0] or "") + i)
        name, sN = self.fresh("kont"), self.fresh("s")
        inner_env, binders = dict(env), ["(%s : state)" % sN]
        for i in params:
            pname = self.fresh("x_" + self.local_names[i], True)
            inner_env[i] = (pname, env[i][1])
            binders.append("(%s : %s)" % (pname, COQ_TYPE[env[i][1]]))
        self.origin[sN] = (name, True)
        text = self.block(rest, sN, inner_env, kb, kbrk, later)
        if text == sN and not params:              # nothing left to do: no continuation needed
            return "", Cont(lambda st, e, fault=False: st)
        let = "let %s := fun %s =>\n%s in\n" % (name, " ".join(binders), ind(text, 4))

        def call(st, e, fault=False):
            if name in self.kont_needs:            # its body reads self->cmd->..: see cmdrec_of
                root, same = self.origin.get(st, (None, False))
                if not same:
                    raise Unsupported("self->cmd is dereferenced after a point that is reached "
                                      "after a helper call (it may have changed)")
                if root != "init":
                    self.kont_needs.add(root)
            vals = []
            for i in params:
                if e.get(i, (None,))[0] is None:
                    raise Unsupported("local '%s' may be used uninitialised" % self.local_names[i])
                vals.append(par(e[i][0]))
            return " ".join([name, par(st)] + vals)
        return let, Cont(call)

    # ---- blocks -----------------------------------------------------------------------------------
    def block(self, items, s, env, kb, kbrk, later):
        """Coq term for executing the statement list `items` in state s, then kb."""
        if not items:
            return kb.call(s, env, False)
        S, rest = items[0], items[1:]
        kind = S.get("kind")
        G, env0 = [], env          # guards of S; the environment before S (for the fault exits)

        if kind == "NullStmt" or is_assert(S) or self.is_void_cast(S):
            return self.block(rest, s, env, kb, kbrk, later)

        if kind == "CompoundStmt":
            let, kc = self.make_cont(S, rest, env, kb, kbrk, later)
            return let + self.block(S.get("inner", []), s, env, kc, kbrk,
                                    later | local_reads(rest))

        if kind == "ReturnStmt":
            v = S["inner"][0] if S.get("inner") else None
            body = self.result(S, s, env, G, v)
            return self.wrap(G, body, kb, s, env0)

        if kind == "BreakStmt":
            if kbrk is None:
                refuse(S, "break outside a switch")
            return kbrk.call(s, env, False)

        if kind == "IfStmt":
            if S.get("hasInit") or S.get("hasVar") or len(S.get("inner", [])) not in (2, 3):
                refuse(S, "if statement with initialiser/declaration")
            pre, s1, c = self.condition(S["inner"][0], s, env, G)
            let, kc = self.make_cont(S, rest, env, kb, kbrk, later)
            later2 = later | local_reads(rest)
            t = self.block([S["inner"][1]], s1, env, kc, kbrk, later2)
            e = self.block([S["inner"][2]] if len(S["inner"]) == 3 else [], s1, env, kc, kbrk, later2)
            body = "%s%sif %s then\n%s\nelse\n%s" % (let, pre, c, ind(t), ind(e))
            return self.wrap(G, body, kb, s, env)

        if kind == "SwitchStmt":
            return self.switch(S, rest, s, env, kb, kbrk, later)

        if kind == "DeclStmt":
            lets = []
            for d in S.get("inner", []):
                if d.get("kind") != "VarDecl" or d.get("storageClass"):
                    refuse(d, "declaration other than a plain local variable")
                self.local_names[d["id"]] = d.get("name", "anon")
                k = self.kind_of_type(d)
                if not d.get("inner"):
                    env = dict(env)
                    env[d["id"]] = (None, k)
                    continue
                if d.get("init") != "c" or len(d["inner"]) != 1:
                    refuse(d, "local declaration other than `T x = e;`")
                if d["id"] not in self.written_locals and self.constant_local(d):
                    continue
                env, text = self.bind_local(d, d["id"], k, d["inner"][0], s, env, G)
                lets.append(text)
            body = "".join(lets) + self.block(rest, s, env, kb, kbrk, later)
            return self.wrap(G, body, kb, s, env0)

        # expression statements
        text, s2, env2 = self.effect(S, s, env, G)
        after = self.block(rest, s2, env2, kb, kbrk, later)
        m = re.fullmatch(r"let (\w+) := (.*) in\n", text)
        if m and m.group(1) == after:              # `let s2 := e in s2` is just `e`
            body = m.group(2)
        else:
            body = text + after
        return self.wrap(G, body, kb, s, env0)

    def is_void_cast(self, S):
        n = strip(S)
        return n.get("kind") == "CStyleCastExpr" and n.get("castKind") == "ToVoid" and \
            strip_casts(n["inner"][0]).get("kind") == "DeclRefExpr"

    def kind_of_type(self, d):
        t = d.get("type", {})
        q = " ".join(w for w in t.get("qualType", "").split() if w not in ("const", "volatile"))
        table = {"size_t": "nat", "cat_status": "Z", "cat_return_state": "Z", "bool": "bool",
                 "_Bool": "bool", "cat_state": "cstate", "cat_unsolicited_state": "ustate",
                 "cat_cmd_type": "ctype", "cat_fsm_type": "fsm", "cat_var_access": "vaccess",
                 "uint8_t": "lane", "char": "byte", "int": "Z",
                 "struct cat_command *": "cmdrec", "struct cat_command const *": "cmdrec"}
        q = q.replace("const struct", "struct")
        if q not in table:
            refuse(d, "variable of unmapped type '%s'" % t.get("qualType"))
        return table[q]

    def constant_local(self, d):
        """`T x = <integer constant expression>;` with x never assigned again: x stands for the
        value (which must be representable in T)."""
        try:
            e = self.ex(d["inner"][0], "s", {}, [])
        except Unsupported:
            return False
        bits = int_bits(d)
        if e.kind != "int" or bits is None:
            return False
        lo, hi = int_range(d)
        if not lo <= e.lit <= hi:
            refuse(d, "constant %d does not fit the type of '%s'" % (e.lit, d.get("name")))
        self.const_locals[d["id"]] = e.lit
        return True

    def bind_local(self, node, did, k, init, s, env, G):
        """`x = init` for the local `did` of kind k.  -> (new env, let-text)."""
        env = dict(env)
        if k == "cmdrec":
            e = self.ex(init, s, env, G)
            if e.kind != "cmdrec":
                refuse(node, "command pointer initialised with something unmapped")
            env[did] = (e.term, k)         # the variable bound by the guard's pattern
            return env, ""
        name = self.fresh("x_" + self.local_names[did], True)
        env[did] = (name, k)
        return env, "let %s := %s in\n" % (name, self.value(init, k, s, env, G))

    # ---- conditions with the pre-increment idiom ------------------------------------------------------
    def condition(self, node, s, env, G):
        """-> (let-text executed before the test, state after it, Coq bool)."""
        n = strip(node)
        if n.get("kind") == "BinaryOperator" and n.get("opcode") in ("<", "<=", ">", ">=", "==", "!="):
            lhs = strip(n["inner"][0])
            if lhs.get("kind") == "UnaryOperator" and lhs.get("opcode") == "++" \
                    and not lhs.get("isPostfix"):
                tgt = strip(lhs["inner"][0])
                f = self.field_of(tgt)
                if any(self.field_of(c) == f for c in walk(n["inner"][1])
                       if c.get("kind") == "MemberExpr"):
                    refuse(n, "the incremented field is also read in the same condition")
                text, s1, _ = self.incr(lhs, tgt, s, env, G)
                # the comparison now reads the incremented field in the new state
                fake = dict(n)
                fake["inner"] = [{"kind": "ImplicitCastExpr", "castKind": "LValueToRValue",
                                  "type": tgt.get("type", {}), "inner": [tgt]}, n["inner"][1]]
                return text, s1, self.truth(fake, s1, env, G)
        for c in walk(n):
            if c.get("kind") == "UnaryOperator" and c.get("opcode") in ("++", "--"):
                refuse(c, "side effect inside a condition (only `++self->f CMP e` is supported)")
        call = self.leading_call(n)
        if call is not None and self.callee_name(call) not in VALUE_HELPERS \
                and self.callee_name(call) not in PARTIAL_HELPERS \
                and self.callee_name(call) not in LIBRARY_CALLS:
            # the condition starts by calling a helper outside the mapping table: it is run first
            # (it may modify *self), the test is then made on its result in the new state
            sig = self.aux_signature(call, self.callee_name(call))
            if sig["mode"] != "pair":
                refuse(call, "the value of a void/constant-status helper is tested")
            r, s1 = self.fresh("r"), self.fresh("s")
            self.origin[s1] = (self.origin.get(s, (None, False))[0], False)
            text = "let %s := %s in\nlet %s := fst %s in\n" % (r, self.aux_call(call, sig, s, env, G), s1, r)
            self.call_override[call["id"]] = Ex(sig["ret_kind"], "snd %s" % r)
            return text, s1, self.truth(n, s1, env, G)
        return "", s, self.truth(n, s, env, G)

    def leading_call(self, n):
        """The call in  f(..) / !f(..) / f(..) CMP <literal or enumerator>,  else None."""
        n = strip(n)
        if n.get("kind") == "UnaryOperator" and n.get("opcode") == "!":
            n = strip(n["inner"][0])
        elif n.get("kind") == "BinaryOperator" and n.get("opcode") in ("==", "!=", "<", "<=", ">", ">="):
            rhs = strip_casts(n["inner"][1])
            if rhs.get("kind") not in ("IntegerLiteral", "CharacterLiteral", "DeclRefExpr") or \
                    (rhs.get("kind") == "DeclRefExpr" and
                     rhs.get("referencedDecl", {}).get("kind") != "EnumConstantDecl"):
                return None
            n = strip(n["inner"][0])
        n = strip_casts(n)
        return n if n.get("kind") == "CallExpr" and self.callee_name(n) else None

    # ---- effects ------------------------------------------------------------------------------------
    def setter(self, node, tgt):
        f = self.field_of(tgt)
        if f is None or f[0] not in ("obj", "uns"):
            refuse(node, "store to something that is not a mapped field of self")
        table = OBJ_FIELDS if f[0] == "obj" else UNS_FIELDS
        if f[1] not in table or table[f[1]][2] is None:
            refuse(node, "store to field '%s', which is not in the mapping table" % f[1])
        if f == ("obj", "current_char") and self.reading:
            refuse(node, "the body of a reading state assigns current_char")
        if f == ("obj", "cmd"):
            self.assigns_obj_cmd = True
        return f, table[f[1]]

    def aux_signature(self, node, name):
        """A function of cat.c that is not in the mapping table is translated on the fly, like
        the handlers (it is then part of the GENERATED side of the tie, nothing is trusted)."""
        if self.aux is None:
            refuse(node, "call of '%s', which is not in the mapping table" % name)
        try:
            return self.aux.get(name, self.reading)
        except Unsupported as e:
            refuse(node, "call of '%s', which is not in the mapping table and cannot be "
                         "translated as an auxiliary function: %s" % (name, e))

    def aux_call(self, node, sig, s, env, G):
        args = self.call_args(node, sig["c_name"], sig["param_kinds"], s, env, G)
        return " ".join([sig["coq_name"], "D"] + args + (["ch"] if self.reading else []) + [s])

    def same_cmd(self, s, s1):
        """s1 is s after a store that does not touch self->cmd."""
        self.origin[s1] = self.origin.get(s, (None, False))
        return s1

    def incr(self, node, tgt, s, env, G):
        f, (k, proj, setter) = self.setter(node, tgt)
        if k != "nat" or node.get("opcode") != "++":
            refuse(node, "'%s' on something that is not a size_t field" % node.get("opcode"))
        s1 = self.same_cmd(s, self.fresh("s"))
        rec = "k" if f[0] == "obj" else "u"
        return "let %s := %s (S (%s (%s %s))) %s in\n" % (s1, setter, proj, rec, s, s), s1, env

    def effect(self, S, s, env, G):
        """An expression statement.  -> (let-text, new state name, new env)."""
        n = strip(S)
        kind = n.get("kind")
        if kind == "UnaryOperator" and n.get("opcode") in ("++", "--"):
            return self.incr(n, strip(n["inner"][0]), s, env, G)
        if kind == "CallExpr":
            name = self.callee_name(n)
            if name in ("strncpy", "memset"):
                return self.fill_buffer(n, name, s, env, G)
            if name in STATE_HELPERS:
                tmpl, kinds = STATE_HELPERS[name]
                term = tmpl.format(*self.call_args(n, name, kinds, s, env, G), s=s)
            else:
                sig = self.aux_signature(n, name)
                term = self.aux_call(n, sig, s, env, G)
                if sig["mode"] == "pair":               # the returned value is not used
                    term = "fst (%s)" % term
            s1 = self.fresh("s")
            self.origin[s1] = (self.origin.get(s, (None, False))[0], False)
            return "let %s := %s in\n" % (s1, term), s1, env
        if kind == "BinaryOperator" and n.get("opcode") == "=":
            tgt, rhs = strip(n["inner"][0]), n["inner"][1]
            if tgt.get("kind") == "DeclRefExpr":                      # local variable
                did = tgt.get("referencedDecl", {}).get("id")
                if did not in env:
                    refuse(n, "assignment to an unmapped variable")
                env2, text = self.bind_local(n, did, env[did][1], rhs, s, env, G)
                return text, s, env2
            if tgt.get("kind") == "ArraySubscriptExpr":
                return self.buffer_store(n, tgt, rhs, s, env, G)
            f, (k, proj, setter) = self.setter(n, tgt)
            if k in ("cmdptr", "wbuf", "varidx"):
                v = self.pointer_store(n, f, k, rhs, s, env, G)
            else:
                v = self.value(rhs, k, s, env, G)
            s1 = self.fresh("s")
            if f != ("obj", "cmd"):
                self.same_cmd(s, s1)
            else:
                self.origin[s1] = (self.origin.get(s, (None, False))[0], False)
            return "let %s := %s %s %s in\n" % (s1, setter, par(v), s), s1, env
        refuse(S, "statement of kind %s" % kind)

    def fill_buffer(self, n, name, s, env, G):
        """strncpy(get_atcmd_buf(self), "LIT", get_atcmd_buf_size(self)) and
        memset(get_atcmd_buf(self), V, get_atcmd_buf_size(self)): the whole working buffer."""
        if name in self.defined_in_tu or len(n["inner"]) != 4:
            refuse(n, "%s is not the C library's, or has an unexpected number of arguments" % name)
        dst, src, size = (strip_casts(a) for a in n["inner"][1:])

        def self_call(c, fname):
            return c.get("kind") == "CallExpr" and self.callee_name(c) == fname \
                and len(c["inner"]) == 2 and self.is_self(c["inner"][1])
        if not (self_call(dst, "get_atcmd_buf") and self_call(size, "get_atcmd_buf_size")):
            refuse(n, "%s other than (get_atcmd_buf(self), .., get_atcmd_buf_size(self))" % name)
        if name == "strncpy":
            spelled = src.get("value", "")
            if src.get("kind") != "StringLiteral" or not re.fullmatch(r'"[A-Za-z0-9 +:_-]*"', spelled):
                refuse(n, "strncpy of something that is not a plain string literal")
            data = "strncpy_buf (asz %s) [%s]%%N" % (s, "; ".join(str(ord(c)) for c in spelled[1:-1]))
        else:
            v = self.coerce(n, self.ex(n["inner"][2], s, env, G), "Z")
            m = re.fullmatch(r"(\d+)%Z", v.term)
            if not m or not 0 <= int(m.group(1)) <= 255:
                refuse(n, "memset with a value that is not a constant byte")
            data = "repeat %s%%N (asz %s)" % (m.group(1), s)
        s1 = self.same_cmd(s, self.fresh("s"))
        return "let %s := set_cbuf (%s) %s in\n" % (s1, data, s), s1, env

    def buffer_store(self, node, tgt, rhs, s, env, G):
        """get_atcmd_buf(self)[i] = v   /   get_atcmd_buf(self)[self->f++] = v"""
        base, idx = strip_casts(tgt["inner"][0]), strip(tgt["inner"][1])
        if base.get("kind") != "CallExpr" or self.callee_name(base) != "get_atcmd_buf" \
                or len(base["inner"]) != 2 or not self.is_self(base["inner"][1]):
            refuse(node, "array store that is not into get_atcmd_buf(self)")
        post = None
        if idx.get("kind") == "UnaryOperator" and idx.get("opcode") == "++" and idx.get("isPostfix"):
            post = idx
            idx_read = {"kind": "ImplicitCastExpr", "castKind": "LValueToRValue",
                        "type": idx.get("type", {}), "inner": [strip(idx["inner"][0])]}
        else:
            idx_read = tgt["inner"][1]
        for c in walk(rhs):
            if c.get("kind") == "UnaryOperator" and c.get("opcode") in ("++", "--"):
                refuse(c, "side effect in the stored value")
        i = self.value(idx_read, "nat", s, env, G)
        v = self.value(rhs, "byte", s, env, G)
        s1 = self.same_cmd(s, self.fresh("s"))
        text = "let %s := store_c %s %s %s in\n" % (s1, par(i), par(v), s)
        if post is not None:                      # the increment reads the field, not the buffer
            t2, s2, _ = self.incr(post, strip(post["inner"][0]), s1, env, G)
            return text + t2, s2, env
        return text, s1, env

    def pointer_store(self, node, f, k, rhs, s, env, G):
        r = strip_casts(rhs)
        if k == "cmdptr":
            if r.get("kind") == "CallExpr":
                if self.callee_name(r) == "get_command_by_index" and f[0] == "obj":
                    args = self.call_args(r, "get_command_by_index", ["nat"], s, env, G)
                    return "Some %s" % args[0]
            elif self.ex(rhs, s, env, []).kind == "null":
                return "None"
            refuse(node, "store to ->cmd other than NULL / get_command_by_index(self, e)")
        if k == "wbuf":
            if r.get("kind") == "CallExpr" and len(r["inner"]) == 2 and self.is_self(r["inner"][1]):
                name = self.callee_name(r)
                if name == "get_new_line_chars":
                    return "WB_NL (k_cr (k %s))" % s
                if (name, f[0]) in (("get_atcmd_buf", "obj"), ("get_unsolicited_buf", "uns")):
                    return "WB_MAIN"
            refuse(node, "store to ->write_buf other than the listed ones")
        # varidx:  c->var  |  &c->var[e]
        if r.get("kind") == "UnaryOperator" and r.get("opcode") == "&":
            a = strip(r["inner"][0])
            if a.get("kind") == "ArraySubscriptExpr":
                m = strip_casts(a["inner"][0])
                fm = self.field_of(m)
                if fm and fm[0] == "cmd" and fm[1] == "var":
                    self.cmdrec_of(fm[2], s, env, G)
                    return self.value(a["inner"][1], "nat", s, env, G)
        fm = self.field_of(r)
        if fm and fm[0] == "cmd" and fm[1] == "var":
            self.cmdrec_of(fm[2], s, env, G)
            return "0"
        refuse(node, "store to ->var other than c->var / &c->var[e]")

    # ---- switch ---------------------------------------------------------------------------------------
    def is_handler_call(self, node):
        """self->cmd->write(..) / self->cmd->run(..) / call_cmd_read_by_fsm(self, fsm) / .._test_.."""
        n = strip_casts(node)
        if n.get("kind") != "CallExpr":
            return False
        if self.callee_name(n) in HANDLER_CALL_WRAPPERS:
            return True
        callee = strip_casts(n["inner"][0])
        f = self.field_of(callee) if callee.get("kind") == "MemberExpr" else None
        if not (f and f[0] == "cmd" and f[1] in HANDLER_POINTER_CALLS):
            return False
        base = self.field_of(strip_casts(f[2]))
        return base == ("obj", "cmd")

    def switch(self, S, rest, s, env, kb, kbrk_outer, later):
        if S.get("hasInit") or S.get("hasVar") or len(S.get("inner", [])) != 2:
            refuse(S, "switch with initialiser/declaration")
        G = []
        scrut_node, body = S["inner"]
        for c in walk(scrut_node):
            if c.get("kind") == "UnaryOperator" and c.get("opcode") in ("++", "--"):
                refuse(c, "side effect in the scrutinee of a switch")
        if self.post and not self.post_used and s == "s" and self.is_handler_call(scrut_node):
            self.post_used = True
            e = Ex("Z", "code")
        else:
            e = self.ex(scrut_node, s, env, G)
        if body.get("kind") != "CompoundStmt":
            refuse(S, "switch whose body is not a compound statement")
        arms, cur = [], None                     # arm = [labels (None = default), statements]
        for item in body.get("inner", []):
            labels = []
            while item.get("kind") in ("CaseStmt", "DefaultStmt"):
                if item["kind"] == "CaseStmt":
                    if len(item["inner"]) != 2:
                        refuse(item, "case range")
                    labels.append(item["inner"][0])
                    item = item["inner"][1]
                else:
                    labels.append(None)
                    item = item["inner"][0]
            if labels:
                if cur is not None and not cur[1]:
                    refuse(item, "unexpected label layout")
                cur = [labels, []]
                arms.append(cur)
            elif cur is None:
                refuse(item, "statement before the first case label")
            cur[1].append(item)
        if not arms:
            refuse(S, "switch without arms")
        let, kc = self.make_cont(S, rest, env, kb, kbrk_outer, later)
        later2 = later | local_reads(rest)

        def fallthrough(st, env_, fault=False):
            raise Unsupported("a case group of the switch at line %s can fall through into the "
                              "next one" % node_line(S))
        arm_texts, default_text, seen = [], None, set()
        for i, (labels, stmts) in enumerate(arms):
            last = i == len(arms) - 1
            text = self.block(stmts, s, env, kc if last else Cont(fallthrough), kc, later2)
            pats = []
            for lab in labels:
                if lab is None:
                    default_text = text
                    continue
                p = self.coerce(lab, self.ex(lab, s, env, []), e.kind).term
                if p in seen:
                    refuse(lab, "duplicate case label")
                seen.add(p)
                pats.append(p)
            if pats:
                arm_texts.append((pats, text))
        if default_text is None:
            default_text = kc.call(s, env, False)
        if e.kind in CONSTRUCTORS:
            lines = ["match %s with" % e.term]
            for pats, text in arm_texts:
                lines.append("| %s =>\n%s" % (" | ".join(pats), ind(text, 4)))
            if seen != set(CONSTRUCTORS[e.kind]):
                lines.append("| _ =>\n%s" % ind(default_text, 4))
            # else: the default arm is unreachable in the model (an enum object only holds its
            # enumerators) and is dropped
            body_text = "\n".join(lines) + "\nend"
        elif e.kind in ("byte", "lane", "Z", "nat"):
            scope = {"byte": "%N", "lane": "%N", "Z": "%Z", "nat": ""}[e.kind]
            body_text = default_text
            for pats, text in reversed(arm_texts):
                c = " || ".join("(%s =? %s)%s" % (opnd(e.term), p, scope) for p in pats)
                sep = " " if body_text.startswith("if ") else "\n  "
                body_text = "if %s then\n%s\nelse%s%s" % (
                    c, ind(text), sep, body_text if sep == " " else ind(body_text)[2:])
        else:
            refuse(S, "switch over a %s" % e.kind)
        return self.wrap(G, let + body_text, kb, s, env)


# ======================================================================================
# 5. Functions and the generated file
# ======================================================================================

GEN_HEADER = """\
(* GENERATED by tools/handler_translate.py from %(source)s -- do not edit, regenerated on every run.
   Each definition is the lifting of one C function into the vocabulary of the model (mapping
   table and rules: see the head of tools/handler_translate.py).  s, s1, s2 .. are the successive
   values of *self; kontN are the statements that follow an if/switch; x_* are C locals; tN are
   the results of partial reads. *)
From Coq Require Import List NArith ZArith Bool Arith.
From CatV Require Import Bytes Defs Codec Fsm.
From %(lp)s Require Import HandlerTieLib.
Import ListNotations.
Local Open Scope nat_scope.
"""

PARAM_KINDS = {"cat_state": "cstate", "cat_unsolicited_state": "ustate", "cat_fsm_type": "fsm",
               "cat_status": "Z", "size_t": "nat", "uint8_t": "lane", "cat_cmd_type": "ctype",
               "cat_var_access": "vaccess"}


def find_mode(tr, decl, body_items):
    """void / const (all returns return the same enumerator) / pair."""
    fn_type = decl.get("type", {}).get("qualType", "")
    ret = fn_type.split("(")[0].strip()
    if ret == "void":
        tr.mode = "void"
        return
    kinds = {"cat_status": "Z", "bool": "bool", "_Bool": "bool"}
    if ret not in kinds:
        refuse(decl, "return type '%s' is not mapped" % ret)
    tr.ret_kind = kinds[ret]
    names = set()
    for item in body_items:
        for n in walk(item):
            if n.get("kind") == "ReturnStmt":
                v = strip_casts(n["inner"][0]) if n.get("inner") else {}
                d = v.get("referencedDecl", {})
                names.add(d.get("name") if d.get("kind") == "EnumConstantDecl" else None)
    if len(names) == 1 and None not in names and tr.ret_kind == "Z":
        name = names.pop()
        if name not in ENUMERATORS:
            refuse(decl, "returned enumerator %s is not in the mapping table" % name)
        tr.mode, tr.const_status = "const", ENUMERATORS[name][1]
    else:
        tr.mode = "pair"


def split_reading_prologue(tr, items):
    """items = statements of the body.  Checks that, after leading asserts, the first statement is
    exactly `if (read_cmd_char(self) == 0) return CAT_STATUS_OK;` and returns the rest."""
    i = 0
    while i < len(items) and is_assert(items[i]):
        i += 1
    if i >= len(items) or items[i].get("kind") != "IfStmt" or len(items[i]["inner"]) != 2:
        raise Unsupported("reading prologue `if (read_cmd_char(self) == 0) return CAT_STATUS_OK;` not found")
    cond, then = strip(items[i]["inner"][0]), items[i]["inner"][1]
    ok = cond.get("kind") == "BinaryOperator" and cond.get("opcode") == "=="
    if ok:
        call, zero = strip(cond["inner"][0]), strip(cond["inner"][1])
        ok = call.get("kind") == "CallExpr" and tr.callee_name(call) == "read_cmd_char" \
            and len(call["inner"]) == 2 and tr.is_self(call["inner"][1]) \
            and zero.get("kind") == "IntegerLiteral" and zero.get("value") == "0"
    if ok:
        if then.get("kind") == "CompoundStmt" and len(then.get("inner", [])) == 1:
            then = then["inner"][0]
        v = strip_casts(then["inner"][0]) if then.get("kind") == "ReturnStmt" and then.get("inner") else {}
        ok = v.get("referencedDecl", {}).get("name") == "CAT_STATUS_OK"
    if not ok:
        raise Unsupported("reading prologue is not exactly "
                          "`if (read_cmd_char(self) == 0) return CAT_STATUS_OK;`")
    rest = items[i + 1:]
    for item in rest:
        for n in walk(item):
            if n.get("kind") == "CallExpr" and tr.callee_name(n) == "read_cmd_char":
                raise Unsupported("read_cmd_char called outside the prologue")
    return rest


class AuxRegistry:
    """Functions of cat.c that a handler calls and that are NOT in the mapping table (typically
    helpers introduced by a refactoring).  They are translated like the handlers, as
    g_aux_<name> (g_aux_<name>_rd, with the extra parameter ch, when called from the body of a
    reading state), emitted before their callers and unfolded by the tie tactic: they belong to
    the generated side of the tie."""

    def __init__(self, defs, defines_ok):
        self.defs, self.defines_ok = defs, defines_ok
        self.done, self.in_progress, self.texts = {}, set(), []

    def get(self, name, reading):
        key = (name, reading)
        if key in self.in_progress:
            raise Unsupported("recursive function")
        if key not in self.done:
            if name in HANDLER_POINTER_CALLS or name is None or name not in self.defs:
                raise Unsupported("not a function defined in cat.c")
            self.in_progress.add(key)
            try:
                text, rep = translate_function(name, self.defs[name], self.defines_ok,
                                               frozenset(self.defs), aux=self,
                                               as_aux="_rd" if reading else "")
            finally:
                self.in_progress.discard(key)
            if text:
                self.texts.append(text)
            self.done[key] = rep
        rep = self.done[key]
        if rep["status"] != "translated":
            raise Unsupported(rep.get("why", rep["status"]))
        return rep

    def coq_names(self):
        return [r["coq_name"] for r in self.done.values() if r["status"] == "translated"]


def translate_function(fn, decls, defines_ok, defined_in_tu=frozenset(), aux=None, as_aux=None):
    """-> (coq text or None, report entry).  as_aux: None for a tied function; '' or '_rd' for an
    auxiliary function ('_rd': called from the body of a reading state)."""
    if not decls:
        return None, {"status": "missing"}
    try:
        if len(decls) != 1:
            raise Unsupported("several definitions named %s" % fn)
        d = decls[0]
        prologue = fn in READING_STATES and as_aux is None
        reading = prologue or as_aux == "_rd"
        tr = StatementTranslator(fn, d, defines_ok, reading)
        tr.defined_in_tu, tr.aux = defined_in_tu, aux
        params = [c for c in d["inner"] if c.get("kind") == "ParmVarDecl"]
        body = [c for c in d["inner"] if c.get("kind") == "CompoundStmt"][0]
        if d.get("variadic") or not params or \
                params[0].get("type", {}).get("qualType") != "struct cat_object *":
            refuse(d, "first parameter is not `struct cat_object *self`")
        tr.self_id = params[0]["id"]
        env, binders, param_kinds = {}, [], []
        for p in params[1:]:
            q = " ".join(w for w in p.get("type", {}).get("qualType", "").split() if w != "const")
            if q not in PARAM_KINDS:
                refuse(p, "parameter of unmapped type '%s'" % p.get("type", {}).get("qualType"))
            name = "p_" + p.get("name", "anon")
            env[p["id"]] = (name, PARAM_KINDS[q])
            tr.local_names[p["id"]] = p.get("name", "anon")
            binders.append("(%s : %s)" % (name, COQ_TYPE[PARAM_KINDS[q]]))
            param_kinds.append(PARAM_KINDS[q])
        items = body.get("inner", [])
        tr.written_locals = local_writes(items)
        post = fn in POST_CALL_FUNCTIONS and as_aux is None
        if post:
            tr.post = True
            first = [i for i in items if not is_assert(i)]
            if not first or first[0].get("kind") != "SwitchStmt" \
                    or not tr.is_handler_call(first[0]["inner"][0]):
                raise Unsupported("the first statement is not `switch (<call of the command handler>)`")
        if prologue:
            items = split_reading_prologue(tr, items)
        find_mode(tr, d, items)
        term = tr.block(items, "s", env, tr.function_end(), None, set())
        if tr.uses_cmd_deref:
            if tr.assigns_obj_cmd:
                raise Unsupported("the function both dereferences and assigns self->cmd")
            fault = "set_fault_flag s" if tr.mode != "pair" else None
            if fault is None:
                raise Unsupported("self->cmd dereferenced in a function whose status varies")
            term = "match cmd_of D ATCMD s with\n| None => %s\n| Some c =>\n%s\nend" % (fault, ind(term))
        first, last = node_line(d), d.get("range", {}).get("end", {})
        last = last.get("expansionLoc", last).get("line")
        if post and not tr.post_used:
            raise Unsupported("the handler call was not found where it is expected")
        if as_aux is not None:
            gname = "g_aux_%s%s" % (fn, as_aux)
        else:
            gname = "g_%s%s" % (fn, "_body" if reading else "_post" if post else "")
        ch = ["(ch : N)"] if reading else ["(code : Z)"] if post else []
        rtype = "state * %s" % COQ_TYPE[tr.ret_kind] if tr.mode == "pair" else "state"
        text = "(* cat.c:%s-%s  %s *)\nDefinition %s %s : %s :=\n%s.\n" % (
            first, last, d.get("type", {}).get("qualType", "").replace("*)", "* )"), gname,
            " ".join(["(D : desc)"] + binders + ch + ["(s : state)"]), rtype, ind(term))
        if tr.mode == "const":
            text += "Definition %s_status : Z := %s.\n" % (gname, tr.const_status)
        return text, {"status": "translated", "coq_name": gname, "c_name": fn, "lines": [first, last],
                      "mode": tr.mode, "const_status": tr.const_status, "ret_kind": tr.ret_kind,
                      "param_kinds": param_kinds}
    except Unsupported as e:
        return None, {"status": "unsupported", "why": str(e)}
    except (KeyError, IndexError, TypeError, ValueError, AttributeError) as e:
        return None, {"status": "unsupported", "why": "unexpected AST shape: %r" % (e,)}


def translate_enum_values(enums):
    """The enumerators that the model represents by INTEGERS (cat_status, cat_return_state), with
    the values they have in cat.h: tied to the constants ST_* / RC_* of Fsm.v."""
    pairs = []
    for c_name, (kind, coq_name) in ENUMERATORS.items():
        if kind != "Z":
            continue
        if c_name not in enums:
            return None, {"status": "missing"}
        if enums[c_name] is None:
            return None, {"status": "unsupported",
                          "why": "cannot determine the value of enumerator %s" % c_name}
        v = enums[c_name]
        pairs.append("(%s, %s)" % (coq_name, "%d%%Z" % v if v >= 0 else "(%d)%%Z" % v))
    text = "(* cat.h: (model constant, value of the C enumerator of that name) *)\n" \
           "Definition g_enum_values : list (Z * Z) :=\n  [%s].\n" % ";\n   ".join(pairs)
    return text, {"status": "translated", "coq_name": "g_enum_values", "lines": [None, None],
                  "mode": "table", "const_status": None}


def translate_dispatch(fn, decls):
    """The dispatching switch of cat_service / unsolicited_events_service as a table."""
    if not decls:
        return None, {"status": "missing"}
    try:
        if len(decls) != 1:
            raise Unsupported("several definitions named %s" % fn)
        d = decls[0]
        field, coq_type = DISPATCH_FUNCTIONS[fn]
        tr = StatementTranslator(fn, d, {"lane": False, "wstate": False}, False)
        params = [c for c in d["inner"] if c.get("kind") == "ParmVarDecl"]
        body = [c for c in d["inner"] if c.get("kind") == "CompoundStmt"][0]
        if len(params) != 1 or params[0].get("type", {}).get("qualType") != "struct cat_object *":
            refuse(d, "the only parameter is not `struct cat_object *self`")
        tr.self_id = params[0]["id"]
        switches = []
        for item in body.get("inner", []):
            if item.get("kind") == "SwitchStmt":
                m = strip_casts(item["inner"][0])
                if m.get("kind") == "MemberExpr" and tr.field_of(m) == field:
                    switches.append(item)
        if len(switches) != 1:
            refuse(d, "expected exactly one top-level switch over the state field, found %d" % len(switches))
        sw = switches[0]
        # the status variable: the local the function returns in its last statement
        last = body.get("inner", [None])[-1] or {}
        ret = strip_casts(last["inner"][0]) if last.get("kind") == "ReturnStmt" and last.get("inner") else {}
        status_id = ret.get("referencedDecl", {}).get("id") if ret.get("kind") == "DeclRefExpr" else None
        if status_id is None or ret["referencedDecl"].get("kind") != "VarDecl":
            refuse(d, "the function does not end with `return <local variable>;`")

        def is_status_var(n):
            n = strip(n)
            return n.get("kind") == "DeclRefExpr" and n.get("referencedDecl", {}).get("id") == status_id

        def handler_call(n):
            """f(self[, FSM]) -> 'H_f' / '(H_f FSM)', or None."""
            n = strip(n)
            if n.get("kind") != "CallExpr":
                return None
            name, args = tr.callee_name(n), n["inner"][1:]
            if name not in DISPATCH_HANDLERS or not args or not tr.is_self(args[0]):
                refuse(n, "call of '%s', which is not a handler of the dispatch vocabulary" % name)
            if DISPATCH_HANDLERS[name]:
                if len(args) != 2:
                    refuse(n, "handler %s called without its fsm argument" % name)
                return "(H_%s %s)" % (name, tr.value(args[1], "fsm", "s", {}, []))
            if len(args) != 1:
                refuse(n, "handler %s called with extra arguments" % name)
            return "H_" + name

        def assign_to_status(n):
            """s = <rhs>  ->  rhs node, or None."""
            n = strip(n)
            if n.get("kind") == "BinaryOperator" and n.get("opcode") == "=" and is_status_var(n["inner"][0]):
                return n["inner"][1]
            return None

        def enumerator(n):
            return strip_casts(n).get("referencedDecl", {}).get("name")

        def busy_call_pair(stmts):
            if len(stmts) == 2:
                h, rhs = handler_call(stmts[0]), assign_to_status(stmts[1])
                if h and rhs is not None and enumerator(rhs) == "CAT_STATUS_BUSY":
                    return h
            return None

        def entry(stmts, where):
            if not stmts or stmts[-1].get("kind") != "BreakStmt":
                refuse(where, "an arm of the dispatching switch does not end with break")
            stmts = stmts[:-1]
            if not stmts:
                return "DNothing"
            if len(stmts) == 1:
                rhs = assign_to_status(stmts[0])
                if rhs is not None:
                    if strip_casts(rhs).get("kind") == "CallExpr":
                        return "DAssign %s" % handler_call(strip_casts(rhs))
                    if enumerator(rhs) == "CAT_STATUS_ERROR_UNKNOWN_STATE":
                        return "DUnknown"
                if stmts[0].get("kind") == "IfStmt" and len(stmts[0]["inner"]) == 2:
                    c, then = strip(stmts[0]["inner"][0]), stmts[0]["inner"][1]
                    if c.get("opcode") == "==" and strip_casts(c["inner"][0]).get("kind") == "CallExpr" \
                            and tr.callee_name(strip_casts(c["inner"][0])) == "is_unsolicited_buffer_empty" \
                            and tr.truth(c, "s", {}, []) == "negb (ring_empty s)":
                        inner = then.get("inner", []) if then.get("kind") == "CompoundStmt" else [then]
                        h = busy_call_pair(inner)
                        if h:
                            return "DIfEvents %s" % h
            h = busy_call_pair(stmts)
            if h:
                return "DBusy %s" % h
            refuse(where, "an arm of the dispatching switch has none of the supported shapes")

        arms, cur = [], None
        for item in sw["inner"][1].get("inner", []):
            labels = []
            while item.get("kind") in ("CaseStmt", "DefaultStmt"):
                labels.append(item["inner"][0] if item["kind"] == "CaseStmt" else None)
                item = item["inner"][-1]
            if labels:
                cur = [labels, []]
                arms.append(cur)
            elif cur is None:
                refuse(item, "statement before the first case label")
            cur[1].append(item)
        lines, seen, default = [], set(), None
        for labels, stmts in arms:
            e = entry(stmts, labels[0] or sw)
            for lab in labels:
                if lab is None:
                    default = e
                    continue
                ex = tr.ex(lab, "s", {}, [])
                if ex.kind != coq_type or ex.term in seen:
                    refuse(lab, "case label of the wrong enumeration, or duplicated")
                seen.add(ex.term)
                lines.append("  | %s => %s" % (ex.term, e))
        if seen != set(CONSTRUCTORS[coq_type]):
            lines.append("  | _ => %s" % (default or "DNothing"))
        gname = "g_%s_dispatch" % fn
        first = node_line(sw)
        text = "(* cat.c:%s  the switch over %s of %s *)\nDefinition %s (x : %s) : dispatch :=\n  match x with\n%s\n  end.\n" % (
            first, "self->" + ("unsolicited_fsm." if field[0] == "uns" else "") + field[1], fn,
            gname, coq_type, "\n".join(lines))
        return text, {"status": "translated", "coq_name": gname, "lines": [first, first],
                      "mode": "dispatch", "const_status": None}
    except Unsupported as e:
        return None, {"status": "unsupported", "why": str(e)}
    except (KeyError, IndexError, TypeError, ValueError, AttributeError) as e:
        return None, {"status": "unsupported", "why": "unexpected AST shape: %r" % (e,)}


def translate(repo_src_dir, functions=None):
    """Translate the handler functions of <repo_src_dir>/cat.c.
    -> (coq_text, report); report[fn]['status'] in {'translated','unsupported','missing'}."""
    functions = HANDLER_FUNCTIONS + POST_CALL_FUNCTIONS + list(DISPATCH_FUNCTIONS) + [ENUM_VALUES] \
        if functions is None else functions
    src = os.path.join(repo_src_dir, "cat.c")
    header = GEN_HEADER % {"source": src, "lp": GEN_LOGICAL_PATH}
    defs, enums, err = load_translation_unit(repo_src_dir)
    if err:
        return header, {fn: {"status": "unsupported", "why": err} for fn in functions}
    defines_ok = read_defines(repo_src_dir)
    report, texts = {}, []
    aux = AuxRegistry(defs, defines_ok)
    for fn in functions:
        if fn == ENUM_VALUES:
            text, report[fn] = translate_enum_values(enums)
        elif fn in DISPATCH_FUNCTIONS:
            text, report[fn] = translate_dispatch(fn, defs.get(fn, []))
        else:
            text, report[fn] = translate_function(fn, defs.get(fn, []), defines_ok, frozenset(defs),
                                                  aux=aux)
        if text:
            texts.append(text)
            report[fn]["auxiliary"] = sorted(n for n in aux.coq_names()
                                             if re.search(r"\b%s\b" % n, text))
    aux_text = ""
    if aux.coq_names():
        aux_text = ("(* ---- helpers of cat.c that are not in the mapping table, translated on the "
                    "fly ---- *)\n" + "\n".join(aux.texts) +
                    "\n(* the tie tactic unfolds them *)\n"
                    "Ltac tie_unfold_gen ::= cbv delta [%s].\n\n" % " ".join(aux.coq_names()))
    return header + "\n" + aux_text + "\n".join(texts), report



# ======================================================================================
# 6. The tie: assemble HandlerTie.v from the template, compile, diagnose
# ======================================================================================

MARK = re.compile(r"^\(\*@ (BEGIN) (\w+) (CHECK|THEOREM) @\*\)\s*$|^\(\*@ (END) @\*\)\s*$")


def parse_template(text):
    """Template = Coq text with marker lines (*@ BEGIN <fn> CHECK|THEOREM @*) ... (*@ END @*).
    -> list of segments (fn or None, kind or None, text); text outside markers is common."""
    segs, cur, owner = [], [], (None, None)
    for line in text.splitlines(keepends=True):
        m = MARK.match(line.rstrip("\n"))
        if not m:
            cur.append(line)
            continue
        segs.append((owner[0], owner[1], "".join(cur)))
        cur = []
        owner = (m.group(2), m.group(3)) if m.group(1) else (None, None)
    segs.append((owner[0], owner[1], "".join(cur)))
    return segs


def assemble(segs, fns, with_theorems=True):
    """The template restricted to the functions `fns` (optionally without the theorems)."""
    return "".join(t for fn, kind, t in segs
                   if fn is None or (fn in fns and (with_theorems or kind == "CHECK")))


def coqc(path, coq_dir, workdir):
    """Compile one file of the work directory. -> (ok, stdout, tail of the error output)."""
    cmd = ["timeout", str(COQC_TIMEOUT_S), "coqc", "-q", "-Q", coq_dir, "CatV",
           "-Q", workdir, GEN_LOGICAL_PATH, path]
    try:
        p = subprocess.run(cmd, capture_output=True, text=True, cwd=workdir)
    except OSError as e:
        return False, "", "could not run coqc: %r" % (e,)
    tail = (p.stderr.strip() or p.stdout.strip())[-700:]
    if p.returncode == 124:
        tail = "coqc timed out after %d s; %s" % (COQC_TIMEOUT_S, tail)
    return p.returncode == 0, p.stdout, tail


def write(path, text):
    with open(path, "w") as f:
        f.write(text)


def all_closed(stdout, text):
    """Every `Print Assumptions` of the compiled text answered 'Closed under the global context'."""
    n = len(re.findall(r"^\s*Print Assumptions\b", text, re.M))
    return n > 0 and stdout.count("Closed under the global context") == n \
        and "Axioms:" not in stdout


def find_witness(segs, fn, coq_dir, workdir):
    """Evaluate wit_<fn> (CHECK block of the template) with vm_compute in a file of its own.
    -> dict describing the first differing input, or None (they agree on the whole family, or the
    evaluation itself failed)."""
    path = os.path.join(workdir, "HandlerDiag_%s.v" % fn)
    write(path, assemble(segs, [fn], with_theorems=False)
          + "\nFrom Coq Require Import String.\nLocal Open Scope string_scope.\n"
            "Eval vm_compute in wit_%s.\n" % fn)
    ok, out, _ = coqc(path, coq_dir, workdir)
    if not ok:
        return None
    m = re.search(r"=\s*Some\s*(\{\|.*\|\})\s*:\s*option", out, re.S)
    if not m:
        return None
    rec = re.sub(r"\s+", " ", m.group(1))
    w = {}
    for key, nxt in (("w_input", "w_generated"), ("w_generated", "w_model"),
                     ("w_model", "w_differ_in"), ("w_differ_in", None)):
        pat = r"%s := (.*?)%s" % (key, r";\s*%s :=" % nxt if nxt else r"\s*\|\}$")
        mm = re.search(pat, rec)
        w[key[2:]] = mm.group(1).strip() if mm else None
    if w.get("differ_in"):
        w["differ_in"] = re.findall(r'"([^"]*)"', w["differ_in"])
    w["note"] = ("as printed by Coq.  Handlers: input = ([extra argument or character,] (index of "
                 "the test descriptor in HandlerTieLib.tD, state)); tables: input = the key")
    return w


def run_handler_tie(repo_src_dir, workdir, coq_dir, template_path=None):
    """Regenerate HandlerGen.v from the C source, assemble HandlerTie.v, compile, diagnose.
    -> dict: translated / unsupported / missing / proved / failed / wall_s (see module doc)."""
    t0 = time.time()
    repo_src_dir, workdir, coq_dir = (os.path.abspath(p) for p in (repo_src_dir, workdir, coq_dir))
    template_path = template_path or os.path.join(coq_dir, TEMPLATE_NAME)
    os.makedirs(workdir, exist_ok=True)
    for name in os.listdir(workdir):                  # never reuse anything from an older run
        if re.match(r"\.?Handler(Gen|Tie|Diag|TieLib)", name):
            os.remove(os.path.join(workdir, name))

    gen_text, report = translate(repo_src_dir)
    fns = list(report)
    translated = [f for f in fns if report[f]["status"] == "translated"]
    res = {
        "source": os.path.join(repo_src_dir, "cat.c"),
        "translated": translated,
        "unsupported": {f: report[f]["why"] for f in fns if report[f]["status"] == "unsupported"},
        "missing": [f for f in fns if report[f]["status"] == "missing"],
        "proved": [], "failed": {},
        "lines": {f: report[f]["lines"] for f in translated},
        # helpers whose correspondence with the model function of the same name is assumed
        "assumed_helpers": ASSUMED_HELPERS,
        # helpers outside the mapping table that were translated on the fly, per caller
        "auxiliary": {f: report[f]["auxiliary"] for f in translated if report[f].get("auxiliary")},
        "files": {"generated": os.path.join(workdir, "HandlerGen.v"),
                  "tie": os.path.join(workdir, "HandlerTie.v")},
    }

    def done():
        res["wall_s"] = round(time.time() - t0, 2)
        return res

    def fail_all(todo, what, tail):
        for f in todo:
            res["failed"][f] = {"witness": None, "error": what, "coqc": tail}
        return done()

    write(res["files"]["generated"], gen_text)
    lib = os.path.join(workdir, LIB_NAME)
    shutil.copyfile(os.path.join(coq_dir, LIB_NAME), lib)
    with open(template_path) as f:
        segs = parse_template(f.read())
    known = {fn for fn, _, _ in segs if fn}
    for f in translated:
        if f not in known:
            res["failed"][f] = {"witness": None, "error": "no block for this function in " + template_path}
    todo = [f for f in translated if f in known]

    ok, _, tail = coqc(lib, coq_dir, workdir)
    if not ok:
        return fail_all(todo, LIB_NAME + " does not compile", tail)
    ok, _, tail = coqc(res["files"]["generated"], coq_dir, workdir)
    if not ok:                                        # a translator bug, not a difference
        return fail_all(todo, "generated HandlerGen.v does not compile", tail)

    # 1st attempt: all translated functions in one HandlerTie.v
    tie = res["files"]["tie"]
    text = assemble(segs, todo)
    write(tie, text)
    ok, out, tail = coqc(tie, coq_dir, workdir)
    if ok and all_closed(out, text):
        res["proved"] = todo
        return done()

    # Something failed: check every function on its own (in parallel) to attribute the failure ...
    from concurrent.futures import ThreadPoolExecutor

    def check_one(f):
        path = os.path.join(workdir, "HandlerTie_%s.v" % f)
        text1 = assemble(segs, [f])
        write(path, text1)
        ok1, out1, tail1 = coqc(path, coq_dir, workdir)
        if ok1 and all_closed(out1, text1):
            return f, None
        w = find_witness(segs, f, coq_dir, workdir)
        return f, {"witness": w,
                   "coqc": tail1 if not ok1 else "Print Assumptions not closed: " + out1[-400:]}

    with ThreadPoolExecutor(max_workers=min(8, os.cpu_count() or 1)) as pool:
        for f, failure in pool.map(check_one, todo):
            if failure is None:
                res["proved"].append(f)
            else:
                if failure["witness"] is None:
                    failure["error"] = ("tie theorem not accepted, but generated and model agree on "
                                        "the whole test family (or the diagnosis could not be run): "
                                        "the proof script no longer applies")
                res["failed"][f] = failure
    # ... and leave a HandlerTie.v/.vo behind that contains exactly the proved theorems.
    text = assemble(segs, res["proved"])
    write(tie, text)
    ok, out, tail = coqc(tie, coq_dir, workdir)
    if not (ok and all_closed(out, text)):
        for f in res["proved"]:
            res["failed"][f] = {"witness": None, "coqc": tail,
                                "error": "proved alone but not in the assembled HandlerTie.v"}
        res["proved"] = []
    return done()


def main(argv):
    if len(argv) != 4:
        sys.stderr.write("usage: handler_translate.py <repo_src_dir> <workdir> <coq_dir>\n")
        return 2
    res = run_handler_tie(argv[1], argv[2], argv[3])
    print(json.dumps(res, indent=2))
    return 1 if any(v.get("witness") for v in res["failed"].values()) else 0


if __name__ == "__main__":
    sys.exit(main(sys.argv))
