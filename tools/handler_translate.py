#!/usr/bin/env python3
"""handler_translate.py -- vocabulary-lifting translator for the STATE HANDLERS of cat.c (the
loop-free ones, and the helpers around them: the 2-bit lanes of the name-matching bitmap, the
loops over the descriptor tables, the queue of unsolicited events, the public functions that take
the mutex; third pass: the two flush engines and the reader as functions of the answer of the io
oracle, the starters of the printers, the list printer, parse_write_args / format_read_args /
format_test_args around the typed decoders and formatters, the arguments of the handler calls,
cat_init; fourth pass: the getters of the buffers, of the current variable and of the new-line
string), and driver of the "handler tie": a Coq proof, re-checked on every run, that the Gallina
definition GENERATED from the C source of a function equals the HAND-WRITTEN model function of
coq/Fsm.v for ALL descriptors and ALL states.

    python3 tools/handler_translate.py /repo/src /verif/build/handlers /verif/coq

Pipeline (all offline: python3 stdlib + clang + coqc)

  cat.c --clang -ast-dump=json--> typed AST --translate()--> HandlerGen.v  (Definitions g_<fn>)
  coq/HandlerTieLib.v   (static: helper definitions, the tactic tie_auto, test families) -- copied
  coq/HandlerTie.v.in   (template) --assemble--> HandlerTie.v  (theorems tie_<fn>: g_<fn> = model)
  coqc HandlerTieLib.v ; coqc HandlerGen.v ; then HandlerTie.v is compiled IN PARTS, in parallel
  (HandlerTie_partK.v = the common text + the blocks of some of the functions; a part that is
  refused is re-checked function by function, HandlerTie_<fn>.v, to attribute the failure)
  a tie that fails -> HandlerDiag_<fn>.v: both sides evaluated (vm_compute) on a deterministic
  family of concrete states; the first state on which they differ is the WITNESS.

How this differs from leaf_translate.py.  The leaf translator gives C integer semantics to five
closed functions.  The state handlers read and write `struct cat_object`; the model has its own
representation of that object (record `state`, coq/Defs.v).  This translator does NOT model C
memory: it LIFTS each C statement into the model's vocabulary with the fixed MAPPING TABLE of
section 1 (field -> projection/setter, enumerator -> constructor, helper call -> the model function
of the same name, which is tied separately).  What is then PROVED is that the control structure
and the data flow of the C function, read through that table, are those of the model function.

Trusted in this tie: clang's parser/type checker; the MAPPING TABLE (section 1) and the
translation rules of sections 3-5 of this file; the statements in HandlerTie.v.in; Coq.
NOT trusted: the hand-written model functions (they are compared), the tactic (Coq checks it).

Translation rules (everything else is refused: 'unsupported', never guessed)
  * Abstractions shared with the model: size_t is nat (no wrap-around: the counters are bounded by
    commands_num / the buffer sizes); a C `char` object is the byte it holds (N, 0..255), so only
    == and != against character literals 0..127 are accepted on chars; enum objects only hold
    their enumerators; `self` is never NULL.
  * Statements are translated in continuation-passing style.  `T x = e;`/`x = e;` on locals are
    `let`; `self->f = e;` is `let s' := setk_f e s in`; `if`/`switch` followed by more statements
    bind the rest once (`let kontN := fun s => ... in`) and call it at the end of every branch;
    `break` calls the continuation of the switch, `return` ends the function.  A `case` group that
    can run into the next one (fall-through) is refused.  `assert(e)` with a side-effect-free `e`
    is ignored.
  * Status.  A function all of whose `return`s return the same enumerator E becomes
    `g_f : ... state -> state` plus `g_f_status : Z := E` (both are tied); a function whose
    returned value varies becomes `g_f : ... state -> state * Z`.  void functions: state -> state.
  * Reading states (READING_STATES): the function must begin, after its asserts, with exactly
    `if (read_cmd_char(self) == 0) return CAT_STATUS_OK;`.  That prologue is the model's `reading`
    combinator; THE REST is translated as `g_f_body D ch s`, where `ch` stands for every read of
    `self->current_char` (the body must not assign it); it is tied to the function the model
    passes to `reading` (restated in the template and proved to be the model's by reflexivity).
  * Partial operations follow the model's FAULT convention (state flag `fault`, Defs.set_fault_flag;
    a state with the flag set is outside the verified envelope):
      - a function that dereferences `self->cmd` is translated under
        `match cmd_of D ATCMD s with None => set_fault_flag s | Some c => ... end` around its WHOLE
        body (as the model does; refused if the function also assigns self->cmd);
      - partial READS (get_cmd_state, get_command_by_index, get_command_by_fsm, `x - 1` on a
        size_t, `cmd->name[i]`) guard the statement they occur in TOGETHER WITH the rest of its
        block: on failure the block yields `set_fault_flag s` and execution continues after the
        block (this is exactly where the model puts its `None => set_fault_flag s`);
      - stores into the working buffer are total: HandlerTieLib.store_c sets the flag when the
        index is outside the buffer; helper calls are total (the model helpers set the flag);
      - a partial read that fails in an arm of a `switch` (other than the last one) sets the flag
        and continues after the switch.
  * A call of a function of cat.c that is NOT in the mapping table (e.g. a helper introduced by
    a refactoring) is not guessed either: the callee is translated on the fly by the same rules,
    as g_aux_<name>, and called; it then belongs to the GENERATED side of the tie (class
    AuxRegistry).  If it cannot be translated the caller is 'unsupported'.  Its parameters are of the
    mapped scalar types (enums, size_t, bool, int, uint8_t, command pointers, `const char *` strings);
    a parameter that is ONLY stored into fields of self of one kind takes that kind (`int ws` stored
    into self->write_state: a wstate; `const char *b` stored into self->write_buf: a Defs.wbuf, and
    the argument at the call must be one of the listed pointer stores).  An auxiliary function
    that contains a loop is refused (its tie would need a loop lemma the template cannot state).
  * uint8_t arithmetic (get_cmd_state / set_cmd_state).  A uint8_t value is N (kind lane), the
    `int` it is promoted to is Z (kind mint) with the mathematical Z.shiftl Z.shiftr Z.land Z.lor
    Z.lxor Z.lnot + -; the translator carries an INTERVAL for every such value and refuses a shift
    whose amount is not in [0, 31], a shift of a possibly negative value, and any result not
    known to fit an int (so the Z operation IS the C operation).  Conversions are explicit:
    char -> uint8_t is u8 (Z.of_N b), int -> uint8_t is u8 x (x mod 256), size_t -> uint8_t only for
    a value with a known bound < 256.  On size_t (nat): x >> c is x / 2^c, x % c is x mod c,
    x << c needs a known bound, x & y is Nat.land, a - b is guarded (b > a: fault).  The leaf
    "generated arithmetic = Fsm.lane_get / lane_set" is decided by an exhaustive sweep over
    byte x lane (x value), see HandlerTieLib.lane_core.
  * PURE functions (PURE_FUNCTIONS, those returning uint8_t, those in POINTER_RETURN) become
    g_f : .. -> state -> option T: they must not modify *self, `return e` is Some e, a partial
    read makes them answer None.  Pointer results: NULL is None.
  * Loops.  Two shapes, in pure functions only, at the top level of the body (anything else is
    refused): (1) `for (i = 0; i < N; i++) BODY` where N is the length of an array the mapping
    table identifies with a model list (self->desc->cmd_group[..], c->var[..]) and i is only
    used as ARRAY[i]: a Fixpoint g_f_loopK over that list, the locals BODY assigns being extra
    arguments; `continue` / the end of BODY recurse on the tail, `break` / the empty list go to
    g_f_afterK (the statements after the loop), `return` answers.  (2) a countdown
    `while ((n > 0) && C) { .. --n; .. }`: a Fixpoint on n.  The tie of a loop needs a lemma
    generalised over the carried variables; it is stated by hand in HandlerTie.v.in and proved by
    the generic tactics HandlerTieLib.tie_loop / tie_wloop (induction).  The statement of that
    lemma depends on what the recursion carries, so HandlerTie.v.in states it per VARIANT
    (`loop=<kinds of the carried locals>`, reported by the translator; marker
    `(*@ BEGIN f THEOREM loop=bool @*)`): the flag + break shape `ok = false; for (..) { if (c)
    { ok = true; break; } } return ok;` carries the flag, the early-return shape `for (..) { if (c)
    return true; } return false;` carries nothing; both are accepted and proved by the same
    tactic.  A loop in a shape for which the template has no block is first evaluated on the
    test family (the witness search does not depend on the shape): a difference is reported as
    a failed tie with its witness, otherwise the function is reported as unsupported.
  * Behaviour-preserving spellings that are followed (each is translated by its C meaning; the
    proof is by case analysis, so no syntactic form is privileged): `const`-qualified self /
    struct pointers (a NoOp conversion of `self` at a call); a pointer or a bool as a truth value
    (`p` is `p != NULL`, `!x` is `x == false`); `return a == b;`; `A || B` / `A && B` in which a
    helper that may modify *self is called: C's left-to-right evaluation is made explicit
    (`if (A || B) T else E` is `if (A) T else if (B) T else E` with T bound once: split_if); a
    size_t subtraction in the RIGHT operand of && / || is guarded only when that operand is
    evaluated; a local `struct cat_unsolicited_fsm *x = &self->unsolicited_fsm` that is only used
    as x->F; a local command pointer written through `&x` by pop_unsolicited_cmd.
  * OUT-parameters (`T *p`, only written; OUT_PARAM_KINDS): the function answers
    (state, status, option T ..): Some v if it wrote *p.  At a call (OUT_HELPERS) `&local` makes
    the local an OPTION (reading it when the callee did not write it is a fault), `&self->f`
    stores the field if the callee wrote it.  A function with an out-parameter of kind K must not
    read a field of self of kind K (it could be the same object).
  * After a fault at the top level of a function whose status varies the function answers
    (set_fault_flag s, HandlerTieLib.fault_status): the state is outside the verified envelope,
    the value only has to be fixed.
  * ORACLE functions (ORACLE_FUNCTIONS: process_io_write, unsolicited_process_io_write, read_cmd_char,
    parse_write_args, format_read_args) call the environment through a pointer (io->write, io->read,
    var->write, var->read).  They are translated AS FUNCTIONS OF THE ORACLE'S ANSWER: an extra
    parameter `ans` stands for what the call returns (for the two variable callbacks also `env`:
    what the callback may do to the object while it runs, HandlerTieLib.cb_effect), and the result
    is an oview = (None | Some (request, object when the call is made), final object, status).
    One call site, at `if (CALL CMP literal)` or `if ((A) && (CALL CMP literal))`.  The model
    functions are restated the same way in HandlerTie.v.in (<f>_view) and lemma <f>_is_view (static)
    proves that running the view against the model's oracle (io_write / io_read / Fsm.call_h) IS the
    model function.  Their ties are stated up to faults (onorm: equal, or the fault flag is set on
    both sides) and up to the ghost counters gR / gL.
  * In an oracle function the statements after a top-level `switch` with at least four cases are
    generated as a definition of their own, g_<f>_kN (closure conversion: its extra parameters are
    the C locals and D / ans / env / c it mentions); it is tied once (a lemma stated by hand in
    HandlerTie.v.in) and the tie of the function rewrites with that lemma.
  * self->var->f / self->unsolicited_fsm.var->f read the variable descriptor HandlerTieLib.var_of
    finds (a partial read).  A function that BEGINS with self->cmd = get_command_by_index(self, e)
    and then dereferences self->cmd reads the descriptor cmd_by_index finds (bound around the whole
    body; HandlerTieLib.cmd_by_index_pool relates it to what self->cmd means in the model).
    int64_t / uint64_t locals are Z / N; (uint64_t *)&x on an int64_t x and the conversion back are
    explicit (HandlerTieLib.c_s64 / c_u64).
  * The CALL of a command handler (the four loops and the two wrappers call_cmd_read_by_fsm /
    call_cmd_test_by_fsm) is generated as a value of HandlerTieLib.hcall (which handler, on which
    command, buffer pointer, size pointer, integers: see HANDLER_CALL_FIELDS) and tied to the
    request the model builds (HandlerTie.v.in expected_*_call, hreq_of_call).
  * GETTERS (fourth pass, GETTER_FUNCTIONS): the two buffer-size getters, the two buffer-pointer
    getters, get_var_by_fsm, get_new_line_chars, get_left_buffer_space_by_fsm,
    get_current_buffer_by_fsm.  Pure functions state -> option T.  Those that read self->desc see it
    through HandlerTieLib.cdesc_of D junk (C has a pointer unsolicited_buf AND a size
    unsolicited_buf_size, the model one option: `junk` is the size field when the pointer is NULL and
    the ties hold for all junk).  A `char *` into desc->buf / desc->unsolicited_buf is option (array,
    offset) (bufptr), a pointer into a string literal option (bytes, offset) (strptr), NULL is None;
    &P[e] and P + e are ptr_add.  size_t: x >> c is x / 2^c, x / c for a positive literal c.  The sizes
    are tied to Defs.asz_of / usz_of (Nat.div2_div, for all sizes), the pointers to
    HandlerTieLib.atcmd_ptr / unsol_ptr, and the pseudo unit buffer_regions instantiates the region
    lemma HandlerTieLib.generated_regions (proved once from the four equalities) with the four
    GENERATED getters: command region inside buf, event region disjoint from it and inside buf
    (shared) or inside unsolicited_buf (separate).
  * cat_init: see INIT_FUNCTION in section 1.
  * The public functions that take the mutex: see API_FUNCTIONS in section 1.  The two tests of the
    mutex are recognised by EVALUATING their condition in every case of the environment (mutex_test /
    _MutexSim), so `if (!lock_mutex(self)) return E;` with a helper `return (self->mutex == NULL) ||
    (self->mutex->lock() == 0);` is the same test as the spelled-out one; a test that reaches the
    mutex interface but behaves otherwise is described in the reason of the refusal.
  * Besides whole functions, three PARTS of functions are tied (see the tables of section 1):
      - POST_CALL_FUNCTIONS: the switch over the code returned by a command handler, as a function
        of that code (g_<f>_post D code s);
      - DISPATCH_FUNCTIONS: the switch over the machine state of cat_service and of
        unsolicited_events_service, as a table state -> (handler called, how the status is made);
      - ENUM_VALUES: the numeric values of the cat_status / cat_return_state enumerators.

Report (run_handler_tie): per function translated / unsupported (with the reason) / missing (no
definition of that name in cat.c) / proved (every theorem of its block accepted and `Print
Assumptions` says "Closed under the global context") / failed.  failed[fn] = {'witness': {...}}
when generated and model DIFFER on a concrete input (printed with both results and the names of
the state fields that differ), or {'witness': None, 'coqc': ...} when they agree on the whole test
family: then only the proof script no longer applies (or they differ outside the family).
"""

import json
import os
import re
import shutil
import subprocess
import sys
import time

# ======================================================================================
# 1. THE MAPPING TABLE  (trusted: C vocabulary  <->  vocabulary of coq/Defs.v + coq/Fsm.v)
# ======================================================================================
# Kinds = the Coq types C values are lifted to.
#   nat (size_t)  byte (char: N, the byte)  lane (a uint8_t value: N; mint: the int it is promoted
#   to: Z)  Z (int, cat_status, cat_return_state)  bool  cstate ustate ctype wstate fsm vaccess
#   cmdptr (struct cat_command const *, as option nat = index into Fsm.pool)  cmdrec (a command
#   descriptor: Defs.cmd)  fnptr (a handler pointer, as the bool "is not NULL")  cstr (a C string
#   of the descriptor: list N)
#   grp (struct cat_command_group const *: an element of HandlerTieLib.enum_groups = group number,
#   number of commands before it, its commands)  varrec (struct cat_variable const *: Defs.var)
#   cmdidx (a NON-NULL struct cat_command const * that is only stored / compared: nat, the index
#   into Fsm.pool)  ringref (struct cat_unsolicited_cmd *: nat, the index into the ring)
COQ_TYPE = {"nat": "nat", "byte": "N", "lane": "N", "Z": "Z", "bool": "bool", "truth": "bool",
            "cstate": "cstate", "ustate": "ustate", "ctype": "ctype", "wstate": "wstate",
            "fsm": "fsm", "vaccess": "vaccess", "cmdrec": "cmd", "grp": "grp", "varrec": "var",
            "cmdidx": "nat", "ringref": "nat", "cmdptr": "option nat", "cmdrecopt": "option cmd",
            "str": "list N", "vtype": "vtype", "ask": "option (oreq * state)",
            "i64": "Z", "u64": "N", "hcall": "hcall",
            "bufptr": "option bufptr", "strptr": "option strptr", "varidx": "nat",
            "wbufc": "wbuf", "wbufu": "wbuf"}
#   wbufc / wbufu (a `const char *` PARAMETER of an auxiliary function that is only stored into
#   self->write_buf / self->unsolicited_fsm.write_buf: Defs.wbuf, see POINTER STORES)
#   bufptr (a `char *` into desc->buf / desc->unsolicited_buf: option (which array, offset), NULL =
#   None)  strptr (a `const char *` into a string literal: option (bytes of the literal, offset))
#   varidx (self->var: the index of the variable among those of the current command)
#   i64 / u64 (an int64_t / uint64_t VALUE: Z / N, its mathematical value)
#   str (a NUL-terminated C string that is only printed: list N, its bytes without the NUL)

# ---- fields of struct cat_object (self->F): kind, projection (read), setter (store) ----
OBJ_FIELDS = {
    "state":               ("cstate", "k_state",      "setk_state"),
    "cr_flag":             ("bool",   "k_cr",         "setk_cr"),
    "length":              ("nat",    "k_length",     "setk_length"),
    "index":               ("nat",    "k_index",      "setk_index"),
    "partial_cntr":        ("nat",    "k_partial",    "setk_partial"),
    "position":            ("nat",    "k_position",   "setk_position"),
    "write_size":          ("nat",    "k_write_size", "setk_write_size"),
    "cmd_type":            ("ctype",  "k_type",       "setk_type"),
    "current_char":        ("byte",   "k_char",       "setk_char"),
    "hold_state_flag":     ("bool",   "k_hold",       "setk_hold"),
    "hold_exit_status":    ("Z",      "k_hold_exit",  "setk_hold_exit"),
    "write_state":         ("wstate", "k_wstate",     "setk_wstate"),
    "write_state_after":   ("cstate", "k_wafter",     "setk_wafter"),
    "implicit_write_flag": ("bool",   "k_implicit",   "setk_implicit"),
    "cmd":                 ("cmdptr", "k_cmd",        "setk_cmd"),
    # stored only through the idioms of POINTER STORES below:
    "write_buf":           ("wbuf",   "k_wbuf",       "setk_wbuf"),
    "var":                 ("varidx", "k_var",        "setk_var"),
}
# ---- fields of struct cat_unsolicited_fsm (self->unsolicited_fsm.F) ----
UNS_FIELDS = {
    "state":             ("ustate", "u_state",    "setu_state"),
    "index":             ("nat",    "u_index",    "setu_index"),
    "position":          ("nat",    "u_position", "setu_position"),
    "cmd_type":          ("ctype",  "u_type",     "setu_type"),
    "write_state":       ("wstate", "u_wstate",   "setu_wstate"),
    "write_state_after": ("ustate", "u_wafter",   "setu_wafter"),
    "cmd":               ("cmdptr", "u_cmd",      "setu_cmd"),
    "write_buf":         ("wbuf",   "u_wbuf",     "setu_wbuf"),
    "var":               ("varidx", "u_var",      "setu_var"),
    # the queue of unsolicited events
    "unsolicited_cmd_buffer_tail":        ("nat", "u_tail",  "setu_tail"),
    "unsolicited_cmd_buffer_head":        ("nat", "u_head",  "setu_head"),
    "unsolicited_cmd_buffer_items_count": ("nat", "u_count", "setu_count"),
    # "unsolicited_cmd_buffer": only as  item = &self->unsolicited_fsm.unsolicited_cmd_buffer[e]
    #   (item : ringref = e);  item->cmd / item->type read  fst / snd of nth_error (u_ring (u s)) e
    #   (partial);  item->cmd = v / item->type = v  are  HandlerTieLib.ring_store
}
# ---- object-like macros of cat.h recognised BY NAME (the name is read back from the source text
#      at the expansion location clang reports).  The model does not fix the capacity of the
#      queue: it is the descriptor parameter Defs.d_cap (Fsm.cap).
MACRO_CONSTANTS = {"CAT_UNSOLICITED_CMD_BUFFER_SIZE": ("nat", "cap D")}
# self->commands_num is computed once by cat_init: the number of registered commands.
OBJ_CONSTANTS = {"commands_num": ("nat", "ncmds D")}

# ---- fields of struct cat_command read through a command descriptor c : Defs.cmd ----
CMD_FIELDS = {
    "only_test":      ("bool",  "c_only_test {c}"),
    "implicit_write": ("bool",  "c_implicit {c}"),
    "need_all_vars":  ("bool",  "c_need_all {c}"),
    "run":            ("fnptr", "c_hrun {c}"),      # handler pointers: only compared with NULL
    "read":           ("fnptr", "c_hread {c}"),
    "write":          ("fnptr", "c_hwrite {c}"),
    "test":           ("fnptr", "c_htest {c}"),
    "name":           ("cstr",  "c_name {c}"),
    "var_num":        ("nat",   "length (c_vars {c})"),
    # "var": only inside the idiom  (c->var != NULL) && (c->var_num > 0)   <->   c_vars c <> []
    #        and in the pointer stores  self->var = c->var  /  self->var = &c->var[i]
}

# ---- fields of struct cat_command_group read through a group g : HandlerTieLib.grp, and of
#      struct cat_variable read through v : Defs.var.  The `disable` flags are run-time state in
#      the model (Defs.dis_grp by group number, Defs.dis_cmd by GLOBAL command index, total lookups
#      nthb); `g->cmd[e].disable` is the flag of command number (commands before g) + e.
GRP_FIELDS = {
    "cmd_num": ("nat",  "length (grp_cmds {g})"),
    "disable": ("bool", "nthb (dis_grp {s}) (grp_index {g})"),
    # "cmd": only in  g->cmd[e].disable   nthb (dis_cmd s) (grp_off g + e)
    #        and      &g->cmd[e]          nth_error (grp_cmds g) e     (a returned descriptor)
}
VAR_FIELDS = {
    "access":    ("vaccess", "v_access {v}"),
    "type":      ("vtype",   "v_type {v}"),
    "data_size": ("nat",     "v_size {v}"),
    "read":      ("fnptr",   "v_hread {v}"),      # callback pointers: only compared with NULL / called
    "write":     ("fnptr",   "v_hwrite {v}"),     # (ORACLE CALLS below)
    # "name": an optional string (NULL = None): v->name != NULL, and v->name printed (partial)
}
# optional strings of the descriptors:  x->f == / != NULL  and  x->f used as a string (partial read)
OPTIONAL_STRINGS = {("cmdrec", "description"): "c_descr {x}", ("varrec", "name"): "v_name {x}"}
# ---- the arrays a `for (i = 0; i < N; i++)` loop may range over (the loop is translated into a
#      structural recursion over the model list; i may only be used as ARRAY[i]):
#   i < self->desc->cmd_group_num,  self->desc->cmd_group[i]   enum_groups (d_groups D) 0 0 : list grp
#   i < c->var_num,                 &c->var[i] / c->var[i]     c_vars c : list var
# ---- pointer-valued functions: what the returned pointer is lifted to
POINTER_RETURN = {"get_command_by_index": "cmdrecopt",      # option cmd  (NULL / no element -> None)
                  "get_command_by_fsm": "cmdptr",           # option nat  (NULL -> None)
                  "cat_get_processed_command": "cmdptr"}
# ---- functions translated as PURE functions  state -> option T  (they must not modify *self; a
#      partial read makes them answer None).  Besides these: every function that returns uint8_t
#      or is in POINTER_RETURN.
PURE_FUNCTIONS = ("is_command_disable", "is_variables_access_possible",
                  "cat_is_unsolicited_event_buffered")
# ---- status-returning functions whose tie is stated on (state, status) pairs: translated as
#      state -> state * Z even when every `return` of the C function returns the same enumerator
PAIR_FUNCTIONS = ("push_unsolicited_cmd", "pop_unsolicited_cmd", "hold_exit", "is_busy", "is_hold",
                  "cat_is_busy", "cat_is_hold", "cat_is_unsolicited_buffer_full",
                  "cat_trigger_unsolicited_event", "cat_hold_exit", "cat_service")

# ---- enumerators ----
ENUMERATORS = {}


def _enum(kind, prefix_c, prefix_coq, names, special=()):
    for n in names:
        ENUMERATORS[prefix_c + n] = (kind, prefix_coq + n)
    for c_name, coq_name in special:
        ENUMERATORS[c_name] = (kind, coq_name)


_enum("cstate", "CAT_STATE_", "CS_",
      ["ERROR", "IDLE", "PARSE_PREFIX", "PARSE_COMMAND_CHAR", "UPDATE_COMMAND_STATE",
       "SEARCH_COMMAND", "COMMAND_FOUND", "COMMAND_NOT_FOUND", "PARSE_COMMAND_ARGS",
       "PARSE_WRITE_ARGS", "FORMAT_READ_ARGS", "FORMAT_TEST_ARGS", "WRITE_LOOP", "READ_LOOP",
       "TEST_LOOP", "RUN_LOOP", "HOLD", "PRINT_CMD"],
      [("CAT_STATE_WAIT_READ_ACKNOWLEDGE", "CS_WAIT_READ_ACK"),
       ("CAT_STATE_WAIT_TEST_ACKNOWLEDGE", "CS_WAIT_TEST_ACK"),
       ("CAT_STATE_FLUSH_IO_WRITE_WAIT", "CS_FLUSH_WAIT"),
       ("CAT_STATE_FLUSH_IO_WRITE", "CS_FLUSH"),
       ("CAT_STATE_AFTER_FLUSH_RESET", "CS_AFTER_RESET"),
       ("CAT_STATE_AFTER_FLUSH_OK", "CS_AFTER_OK"),
       ("CAT_STATE_AFTER_FLUSH_FORMAT_READ_ARGS", "CS_AFTER_FMT_READ"),
       ("CAT_STATE_AFTER_FLUSH_FORMAT_TEST_ARGS", "CS_AFTER_FMT_TEST")])
_enum("ustate", "CAT_UNSOLICITED_STATE_", "US_",
      ["IDLE", "FORMAT_READ_ARGS", "FORMAT_TEST_ARGS", "READ_LOOP", "TEST_LOOP"],
      [("CAT_UNSOLICITED_STATE_FLUSH_IO_WRITE_WAIT", "US_FLUSH_WAIT"),
       ("CAT_UNSOLICITED_STATE_FLUSH_IO_WRITE", "US_FLUSH"),
       ("CAT_UNSOLICITED_STATE_AFTER_FLUSH_RESET", "US_AFTER_RESET"),
       ("CAT_UNSOLICITED_STATE_AFTER_FLUSH_OK", "US_AFTER_OK"),
       ("CAT_UNSOLICITED_STATE_AFTER_FLUSH_FORMAT_READ_ARGS", "US_AFTER_FMT_READ"),
       ("CAT_UNSOLICITED_STATE_AFTER_FLUSH_FORMAT_TEST_ARGS", "US_AFTER_FMT_TEST")])
_enum("ctype", "CAT_CMD_TYPE_", "T_", ["NONE", "RUN", "READ", "WRITE", "TEST"],
      [("CAT_CMD_TYPE__TOTAL_NUM", "T_TOTAL")])
_enum("fsm", "CAT_FSM_TYPE_", "", ["ATCMD"], [("CAT_FSM_TYPE_UNSOLICITED", "UNSOL")])
_enum("vaccess", "CAT_VAR_ACCESS_", "", [],
      [("CAT_VAR_ACCESS_READ_WRITE", "RW"), ("CAT_VAR_ACCESS_READ_ONLY", "RO"),
       ("CAT_VAR_ACCESS_WRITE_ONLY", "WO")])
_enum("vtype", "CAT_VAR_", "", [],
      [("CAT_VAR_INT_DEC", "VInt"), ("CAT_VAR_UINT_DEC", "VUint"), ("CAT_VAR_NUM_HEX", "VHex"),
       ("CAT_VAR_BUF_HEX", "VBufHex"), ("CAT_VAR_BUF_STRING", "VBufStr")])
_enum("Z", "CAT_STATUS_", "ST_", ["OK", "BUSY", "HOLD", "ERROR"],
      [("CAT_STATUS_ERROR_MUTEX_UNLOCK", "ST_MUTEX_UNLOCK"),
       ("CAT_STATUS_ERROR_MUTEX_LOCK", "ST_MUTEX_LOCK"),
       ("CAT_STATUS_ERROR_UNKNOWN_STATE", "ST_UNKNOWN_STATE"),
       ("CAT_STATUS_ERROR_BUFFER_FULL", "ST_BUFFER_FULL"),
       ("CAT_STATUS_ERROR_NOT_HOLD", "ST_NOT_HOLD"),
       ("CAT_STATUS_ERROR_BUFFER_EMPTY", "ST_BUFFER_EMPTY")])
_enum("Z", "CAT_RETURN_STATE_", "RC_",
      ["ERROR", "DATA_OK", "DATA_NEXT", "NEXT", "OK", "HOLD", "HOLD_EXIT_OK", "HOLD_EXIT_ERROR",
       "PRINT_CMD_LIST_OK"])

# all constructors of the enumerations a `switch` may range over (to know when it is exhaustive)
CONSTRUCTORS = {
    "cstate": sorted(v for k, v in ENUMERATORS.values() if k == "cstate"),
    "ustate": sorted(v for k, v in ENUMERATORS.values() if k == "ustate"),
    "ctype": ["T_NONE", "T_RUN", "T_READ", "T_WRITE", "T_TEST", "T_TOTAL"],
    "fsm": ["ATCMD", "UNSOL"],
    "wstate": ["WS_BEFORE", "WS_MAIN", "WS_AFTER"],
    "vaccess": ["RW", "RO", "WO"],
    "vtype": ["VInt", "VUint", "VHex", "VBufHex", "VBufStr"],
}
BEQ = {"cstate": "cstate_beq", "ustate": "ustate_beq", "ctype": "ctype_beq",
       "wstate": "wstate_beq", "fsm": "fsm_beq", "vaccess": "vaccess_beq", "vtype": "vtype_beq"}

# ---- object-like macros of cat.c whose NAME is lost in the AST: mapped BY VALUE.  The #define
#      lines are re-read from the source on every run; if one of a group differs from this table,
#      every integer literal used at that kind is refused.  (Should they become real enumerators,
#      they are mapped by name: see the two _enum lines below.) ----
EXPECTED_DEFINES = {
    "lane": {"CAT_CMD_STATE_NOT_MATCH": 0, "CAT_CMD_STATE_PARTIAL_MATCH": 1,
             "CAT_CMD_STATE_FULL_MATCH": 2},
    "wstate": {"CAT_WRITE_STATE_BEFORE": 0, "CAT_WRITE_STATE_MAIN_BUFFER": 1,
               "CAT_WRITE_STATE_AFTER": 2},
}
_enum("lane", "CAT_CMD_STATE_", "CMD_", ["NOT_MATCH"],
      [("CAT_CMD_STATE_PARTIAL_MATCH", "CMD_PARTIAL"), ("CAT_CMD_STATE_FULL_MATCH", "CMD_FULL")])
_enum("wstate", "CAT_WRITE_STATE_", "WS_", ["BEFORE", "AFTER"],
      [("CAT_WRITE_STATE_MAIN_BUFFER", "WS_MAIN")])
WSTATE_BY_VALUE = {0: "WS_BEFORE", 1: "WS_MAIN", 2: "WS_AFTER"}
LANE_BY_VALUE = {0: "CMD_NOT_MATCH", 1: "CMD_PARTIAL", 2: "CMD_FULL"}    # Fsm.CMD_* : N

# ---- characters with a name in coq/Bytes.v (others are written as numerals) ----
CHAR_NAMES = {0: "ch_NUL", 10: "ch_LF", 13: "ch_CR", 44: "ch_COMMA", 61: "ch_EQ", 63: "ch_QM",
              65: "ch_A", 84: "ch_T"}

# ---- helper calls: a call of the C function is translated to a call of the MODEL function.
#      {s} = current state, {0},{1}.. = translated arguments after self.  The helpers that are in
#      HANDLER_FUNCTIONS are themselves tied by this tool, the LEAF_HELPERS by leaf_translate.py;
#      the GETTER_FUNCTIONS too (fourth pass); for the others (the typed decoders / validators /
#      formatters and print_string_to_buf: ASSUMED_HELPERS, listed in every report) "C function ~
#      model function of that name" is an ASSUMPTION of THIS tie -- each of them is tied by a sibling
#      translator (TIED_ELSEWHERE).
# state transformers (called as statements):           model term,                argument kinds
STATE_HELPERS = {
    "ack_error":                          ("ack_error {s}", []),
    "ack_ok":                             ("ack_ok {s}", []),
    "reset_state":                        ("reset_state {s}", []),
    "unsolicited_reset_state":            ("unsolicited_reset_state {s}", []),
    "prepare_parse_command":              ("prepare_parse_command {s}", []),
    "prepare_search_command":             ("prepare_search_command {s}", []),
    "start_flush_io_buffer":              ("start_flush_c {0} {s}", ["cstate"]),
    "unsolicited_start_flush_io_buffer":  ("start_flush_u {0} {s}", ["ustate"]),
    "start_flush_io_buffer_raw":          ("start_flush_raw_c {0} {s}", ["cstate"]),
    "end_processing_with_error":          ("end_with_error {0} {s}", ["fsm"]),
    "end_processing_with_ok":             ("end_with_ok {0} {s}", ["fsm"]),
    "enable_hold_state":                  ("enable_hold_state {s}", []),
    "start_processing_format_read_args":  ("start_processing_format_read_args D {0} {s}", ["fsm"]),
    "start_processing_format_test_args":  ("start_processing_format_test_args D {0} {s}", ["fsm"]),
    "start_print_cmd_list":               ("start_print_cmd_list D {s}", []),
    "set_cmd_state":                      ("set_cmd_state {s} {0} {1}", ["nat", "lane"]),
    "hold_exit":                          ("fst (hold_exit {s} {0})", ["Z"]),   # status ignored
}
# helpers that return a status AND may modify *self, called for their value:  x = f(self, ..) /
# if (f(self, ..) CMP ..):  result kind, model term of type state * kind, argument kinds
PAIR_HELPERS = {
    # print_string_to_buf(self, str, fsm): 0 / -1  (HandlerTieLib.print_string_c = Fsm.print_string)
    "print_string_to_buf":  ("Z", "print_string_c {1} {s} {0}", ["str", "fsm"]),
    "hold_exit":            ("Z", "hold_exit {s} {0}", ["Z"]),
    "push_unsolicited_cmd": ("Z", "push_unsolicited_cmd D {s} {0} {1}", ["cmdidx", "ctype"]),
    # the model functions seen as the C functions (HandlerTieLib.v): 0 / -1, BUSY / OK
    "print_response_test":     ("Z", "print_response_test_c D {0} {s}", ["fsm"]),
    "next_format_var_by_fsm":  ("Z", "next_format_var_c D {0} {s}", ["fsm"]),
    "format_info_type":        ("Z", "format_info_type_c D {0} {s}", ["fsm"]),
    "print_current_cmd_full_name": ("Z", "print_current_cmd_full_name_c D {0} {s}", ["str"]),
    "cmd_list_next_cmd":       ("bool", "cmd_list_next_cmd D {s}", []),
    # the two buffer decoders and the two range validators (tools/codec_translate.py): they store into
    # the variable self->var points to and write self->write_size (HandlerTieLib.v)
    "parse_buffer_hexadecimal": ("Z", "parse_bufhex_c D {s}", []),
    "parse_buffer_string":      ("Z", "parse_bufstr_c D {s}", []),
    "validate_int_range":       ("Z", "validate_int_c D {s} {0}", ["i64"]),
    "validate_uint_range":      ("Z", "validate_uint_c D {s} {0}", ["u64"]),
    # the five typed formatters (tools/format_translate.py ties each of them to Codec.fmt_var on a
    # variable of the type it is dispatched for): HandlerTieLib.fmt_c T = fmt_var on the current
    # variable read AS a variable of type T, run on the cursor of the machine; 0 / -1
    "format_int_decimal":        ("Z", "fmt_c VInt D {0} {s}", ["fsm"]),
    "format_uint_decimal":       ("Z", "fmt_c VUint D {0} {s}", ["fsm"]),
    "format_num_hexadecimal":    ("Z", "fmt_c VHex D {0} {s}", ["fsm"]),
    "format_buffer_hexadecimal": ("Z", "fmt_c VBufHex D {0} {s}", ["fsm"]),
    "format_buffer_string":      ("Z", "fmt_c VBufStr D {0} {s}", ["fsm"]),
}
# helpers whose MODEL term does not store into k_cmd (HandlerTieLib.print_string_c_cmd): self->cmd may
# be dereferenced after them through the descriptor bound when the function was entered
CMD_PRESERVING_HELPERS = ("print_string_to_buf", "parse_int_decimal", "parse_uint_decimal",
                          "parse_num_hexadecimal", "parse_buffer_hexadecimal", "parse_buffer_string",
                          "validate_int_range", "validate_uint_range")
# helpers with OUT-parameters (T *p, only written): result kind, model term of type
# state * kind * option T1 * .. (None = *p not written), argument kinds, kinds of the out-parameters.
# HandlerTieLib.pop_c is Fsm.pop_unsolicited_cmd seen that way.
OUT_HELPERS = {
    "pop_unsolicited_cmd":  ("Z", "pop_c D {s}", [], ["cmdptr", "ctype"]),
    # the three numeric decoders (tied by tools/codec_translate.py to Codec.parse_int / parse_uint /
    # parse_hex on the text behind the cursor): HandlerTieLib.parse_*_c = that model function run on
    # get_atcmd_buf(self) from self->position, the status as -1 / 0 / 1, *ret written on success only
    "parse_int_decimal":     ("Z", "parse_int_c D {s}", [], ["i64"]),
    "parse_uint_decimal":    ("Z", "parse_uint_c D {s}", [], ["u64"]),
    "parse_num_hexadecimal": ("Z", "parse_hex_c D {s}", [], ["u64"]),
}
OUT_PARAM_KINDS = {"struct cat_command **": "cmdptr", "cat_cmd_type *": "ctype"}
# pure helpers (called in expressions):  result kind,  model term,                 argument kinds
VALUE_HELPERS = {
    "get_new_line_chars":            ("str",   "nl_chars {s}", []),      # as a string to print
    "is_busy":                       ("Z",     "is_busy {s}", []),
    "is_hold":                       ("Z",     "is_hold {s}", []),
    "is_command_disable":            ("bool",  "is_command_disable D {s} {0}", ["nat"]),
    "is_variables_access_possible":  ("bool",  "vars_access_possible {0} {1}", ["cmdrec", "vaccess"]),
    "get_atcmd_buf_size":            ("nat",   "asz {s}", []),
    "get_unsolicited_buf_size":      ("nat",   "usz {s}", []),
    "is_unsolicited_buffer_empty":   ("bool",  "ring_empty {s}", []),
    "is_unsolicited_buffer_full":    ("bool",  "ring_full D {s}", []),
    # leaf functions (tied by tools/leaf_translate.py on the whole byte domain); no self argument
    "to_upper":                      ("byte",  "to_upper {0}", ["byte"]),
    "is_valid_cmd_name_char":        ("truth", "is_name_char {0}", ["byte"]),
}
LEAF_HELPERS = ("to_upper", "is_valid_cmd_name_char")
# partial reads: result kind, scrutinee (an option), argument kinds
PARTIAL_HELPERS = {
    "get_cmd_state":        ("lane",   "get_cmd_state D {s} {0}", ["nat"]),
    "get_command_by_index": ("cmdrec", "cmd_by_index (d_groups D) {0}", ["nat"]),
    "get_command_by_fsm":   ("cmdrec", "cmd_of D {0} {s}", ["fsm"]),
    # self->var / self->unsolicited_fsm.var is the index of a variable of the current command
    "get_var_by_fsm":       ("varrec", "var_of D {0} {s}", ["fsm"]),
}
# the same calls when the POINTER is the value (returned, not dereferenced): kind, term, arg kinds
POINTER_VALUE_HELPERS = {
    "get_command_by_fsm":   ("cmdptr", "g_cmd {0} {s}", ["fsm"]),
}
# ---- THE GETTERS (fourth pass): small pure functions that the tables above map to model terms and that
#      are themselves translated and tied here.  C function: (kind of the result, it reads the
#      descriptor).  They are translated as pure functions  state -> option T  (NULL / a size_t
#      subtraction that would wrap around = None); those that read the descriptor take one more
#      parameter, `junk` (see DESC_FIELDS).  Only inside these functions:
#        self->desc->F                      DESC_FIELDS / DESC_POINTERS  (through the C view of the
#                                           descriptor, HandlerTieLib.cdesc_of D junk: in shared mode
#                                           unsolicited_buf is NULL and unsolicited_buf_size holds
#                                           `junk`, an arbitrary value the ties quantify over)
#        P == NULL / P != NULL, &P[e], P + e, c ? P : Q, (char * )P     on such pointers (ptr_add)
#        static const char *x = "LIT"; / static const char x[] = "LIT";   (x never assigned) a pointer
#                                           into the literal: Some (bytes of LIT, 0)  (strptr)
#        (struct cat_variable * )self->var  the index Defs.k_var / u_var  (varidx)
#        get_atcmd_buf(self) / get_unsolicited_buf(self) as VALUES        PTR_HELPERS
GETTER_FUNCTIONS = {
    "get_atcmd_buf_size":           ("nat", True),      # tied to Some (Defs.asz_of D)
    "get_unsolicited_buf_size":     ("nat", True),      # Some (Defs.usz_of D)
    "get_atcmd_buf":                ("bufptr", True),   # HandlerTieLib.atcmd_ptr D = Some (PB_buf, 0)
    "get_unsolicited_buf":          ("bufptr", True),   # unsol_ptr D = (PB_ubuf, 0) / (PB_buf, uoff_of D)
    "get_var_by_fsm":               ("varidx", False),  # Some (Defs.g_var f s)
    "get_new_line_chars":           ("strptr", False),  # its view = Fsm.nl_chars s ++ [NUL]
    "get_left_buffer_space_by_fsm": ("nat", False),     # HandlerTieLib.left_space f s
    "get_current_buffer_by_fsm":    ("bufptr", False),  # HandlerTieLib.cur_ptr D f s
}
GETTER_RETURN_TYPES = {"nat": ("size_t",), "bufptr": ("char *", "uint8_t *"), "strptr": ("const char *",),
                       "varidx": ("struct cat_variable *", "const struct cat_variable *",
                                  "struct cat_variable const *")}
CDESC = "(cdesc_of D junk)"
DESC_FIELDS = {"buf_size": ("nat", "cd_buf_size {v}"),
               "unsolicited_buf_size": ("nat", "cd_ubuf_size {v}")}
DESC_POINTERS = {"buf": ("bufptr", "cd_buf_ptr {v}"),
                 "unsolicited_buf": ("bufptr", "cd_ubuf_ptr {v}")}
PTR_KINDS = ("bufptr", "strptr")
BYTE_POINTER_TYPES = ("char *", "uint8_t *", "unsigned char *")          # qualifiers removed
# the two buffer pointers as VALUES inside a getter: the model terms their ties are stated against
PTR_HELPERS = {"get_atcmd_buf": ("bufptr", "atcmd_ptr D"),
               "get_unsolicited_buf": ("bufptr", "unsol_ptr D")}
# pseudo unit: the region lemma (HandlerTieLib.generated_regions) instantiated with the four generated
# buffer getters -- the two regions are disjoint and inside the arrays of the descriptor
BUFFER_REGIONS = "buffer_regions"
REGION_GETTERS = ("get_atcmd_buf_size", "get_unsolicited_buf_size", "get_atcmd_buf",
                  "get_unsolicited_buf")
# ---- POINTER STORES (the only assignments of pointer type that are accepted):
#   self->cmd = NULL                                   setk_cmd None          (same for u)
#   self->cmd = get_command_by_index(self, e)          setk_cmd (Some e)
#   self->write_buf = get_new_line_chars(self)         setk_wbuf (WB_NL (k_cr (k s)))   (same for u)
#   self->write_buf = get_atcmd_buf(self)              setk_wbuf WB_MAIN
#   self->unsolicited_fsm.write_buf = get_unsolicited_buf(self)    setu_wbuf WB_MAIN
#   self->var = c->var   /   self->var = &c->var[e]    setk_var 0  /  setk_var e        (same for u)
# ---- BUFFER STORES:  get_atcmd_buf(self)[e] = v      store_c e v s   (HandlerTieLib.v)
# ---- library calls (the callee must be declared but NOT defined in the translation unit):
#   strlen(c->name)                                                    length (c_name c)
#   strncpy(get_atcmd_buf(self), "LIT", get_atcmd_buf_size(self))      set_cbuf (strncpy_buf (asz s) LIT) s
#   memset(get_atcmd_buf(self), V, get_atcmd_buf_size(self))           set_cbuf (repeat V (asz s)) s
#   (the working buffer of the model IS the first get_atcmd_buf_size bytes of desc->buf, so a
#    library call that fills exactly that many bytes replaces the whole of cbuf)
#   strcpy(local char array, "LIT")  (LIT fits the array)                the local IS the string LIT
LIBRARY_CALLS = ("strlen", "strncpy", "memset", "strcpy")

# ---- ORACLE CALLS: calls through the pointers of the io interface and of the descriptor (the
#      environment of the library).  A function that makes such a call (ORACLE_FUNCTIONS) is
#      translated AS A FUNCTION OF THE ORACLE'S ANSWER: an extra parameter `ans` stands for what the
#      call returns, and the function answers a triple (HandlerTieLib.oview)
#          (None | Some (request, the object when the call was made),  final object,  returned status)
#      The function may contain ONE call site, at one of the positions
#          if (CALL CMP literal) ..        if ((A) && (CALL CMP literal)) ..   (A: no side effect)
#      Requests (HandlerTieLib.oreq) and the kind of the answer:
#        self->io->write(e)                         QIoWrite e      ans : Z  (the int returned)
#        self->io->read(&self->current_char)        QIoRead         ans : option N  (None: returned 0 and
#                                                   stored nothing; Some b: returned 1 after storing b)
#        self->var->write(self->var, e)             QVarWrite e     ans : Z
#        v->read(v),  v = get_var_by_fsm(self, F)   QVarRead F      ans : Z
#      The two variable callbacks run application code, which may call the public API of the library
#      and store into variables: the object after the call is HandlerTieLib.cb_apply env <object
#      before>, for an arbitrary `env : cb_effect` (new variable memory, queue of events, hold exit
#      status, fault flag: what Fsm.call_h can change; proved in HandlerTie.v.in, call_h_effect);
#      in particular self->cmd / self->var still point where they did.
ORACLE_FUNCTIONS = {          # C function: (answer kind, Coq type of `ans`, the callee may modify the object)
    "process_io_write":             ("Z", "Z", False),
    "unsolicited_process_io_write": ("Z", "Z", False),
    "read_cmd_char":                ("optbyte", "option N", False),
    "parse_write_args":             ("Z", "Z", True),
    "format_read_args":             ("Z", "Z", True),
}
ASK_ID = "__ask__"            # pseudo local: the request made so far (option (oreq * state))

# ---- what is translated (in this order) ----
READING_STATES = ["error_state", "parse_prefix", "parse_command", "wait_read_acknowledge",
                  "wait_test_acknowledge", "process_idle_state", "parse_command_args"]
HANDLER_FUNCTIONS = [
    "reset_state", "unsolicited_reset_state", "is_busy", "is_hold", "enable_hold_state",
    "hold_exit", "process_hold_state", "prepare_search_command", "start_flush_io_buffer",
    "unsolicited_start_flush_io_buffer", "start_flush_io_buffer_raw", "process_io_write_wait",
    "unsolicited_process_io_write_wait",
] + READING_STATES + [
    "command_found", "search_command", "update_command",
    "end_processing_with_error", "end_processing_with_ok",
    "command_not_found", "start_print_cmd_list", "cmd_list_next_cmd",
    "ack_error", "ack_ok", "prepare_parse_command",
    # the 2-bit lanes of the name-matching bitmap (C bit operations, tied by an exhaustive sweep)
    "get_cmd_state", "set_cmd_state",
    # loops over the descriptor tables (translated into structural recursions, tied by induction)
    "get_command_by_index", "is_command_disable", "is_variables_access_possible",
    # the queue of unsolicited events
    "is_unsolicited_buffer_full", "is_unsolicited_buffer_empty", "push_unsolicited_cmd",
    "pop_unsolicited_cmd", "check_unsolicited_buffers",
    "get_command_by_fsm", "cat_get_processed_command", "cat_is_unsolicited_event_buffered",
    "next_format_var_by_fsm", "print_response_test", "format_info_type",
    # third pass.  Functions of the answer of an oracle (ORACLE_FUNCTIONS): the two flush engines,
    # the reader
    "process_io_write", "unsolicited_process_io_write", "read_cmd_char",
    # the starters of the two printers
    "start_processing_format_read_args", "start_processing_format_test_args",
    # the list printer
    "print_current_cmd_full_name", "print_cmd_list",
    # the argument collector: the switch over the type of the variable, the variable write callback
    # (an oracle), the comma / var_num / need_all_vars bookkeeping
    "parse_write_args",
    # the argument printers: the variable read callback (an oracle), the switch over the type of the
    # variable, the hand-over to the read handler / the flush; the TEST text
    "format_read_args", "format_test_args",
    # the two wrappers around the read / test handler calls (see HANDLER_CALL_FIELDS)
    "call_cmd_read_by_fsm", "call_cmd_test_by_fsm",
    # fourth pass: the getters (GETTER_FUNCTIONS)
    "get_atcmd_buf_size", "get_unsolicited_buf_size", "get_atcmd_buf", "get_unsolicited_buf",
    "get_var_by_fsm", "get_new_line_chars", "get_left_buffer_space_by_fsm",
    "get_current_buffer_by_fsm",
]

# helpers that the tables map to model terms and that are NOT tied by this tool.  All of them are tied
# by a sibling translator (TIED_ELSEWHERE; anything else would be reported as assumed_helpers_untied)
ASSUMED_HELPERS = sorted(
    (set(STATE_HELPERS) | set(VALUE_HELPERS) | set(PARTIAL_HELPERS) | set(PAIR_HELPERS)
     | set(OUT_HELPERS))
    - set(HANDLER_FUNCTIONS) - set(LEAF_HELPERS))
TIED_ELSEWHERE = {
    "parse_int_decimal": "tools/codec_translate.py", "parse_uint_decimal": "tools/codec_translate.py",
    "parse_num_hexadecimal": "tools/codec_translate.py", "parse_buffer_hexadecimal": "tools/codec_translate.py",
    "parse_buffer_string": "tools/codec_translate.py", "validate_int_range": "tools/codec_translate.py",
    "validate_uint_range": "tools/codec_translate.py",
    "format_int_decimal": "tools/format_translate.py", "format_uint_decimal": "tools/format_translate.py",
    "format_num_hexadecimal": "tools/format_translate.py", "format_buffer_hexadecimal": "tools/format_translate.py",
    "format_buffer_string": "tools/format_translate.py", "print_string_to_buf": "tools/format_translate.py",
}

# ---- the four loops that call a command handler: only what happens AFTER the call is translated
#      (`switch (<the call>) { case CAT_RETURN_STATE_..: .. }`), as a function g_<fn>_post of the
#      returned code; the call itself (arguments, what the handler may do) is not tied here.
#      The call must be the scrutinee of a switch that is the first statement after the asserts.
POST_CALL_FUNCTIONS = ["process_write_loop", "process_run_loop", "process_read_loop",
                       "process_test_loop"]
HANDLER_POINTER_CALLS = ("write", "run")          # switch (self->cmd->write(...)) / ->run(...)
HANDLER_CALL_WRAPPERS = ("call_cmd_read_by_fsm", "call_cmd_test_by_fsm")
# ---- the handler CALL itself (third pass): which handler is called on which command with which
#      arguments, as a value of HandlerTieLib.hcall (generated as g_<f>_call : .. -> option hcall for
#      the four loops, and as g_<wrapper> for the two wrappers, which are translated whole):
#        X->write(X, (uint8_t*)get_atcmd_buf(self), L, I)       HC_write <X> B_atcmd L I
#        X->run(X)                                              HC_run <X>
#        X->read(X, (uint8_t*)BUF, &POS, SIZE)                  HC_read <X> <BUF> <POS> SIZE     (test: HC_test)
#      X = self->cmd (k_cmd (k s)) or a local obtained from get_command_by_fsm(self, F) (g_cmd F s); the
#      handler must be taken from the command that is passed as first argument.  BUF = get_atcmd_buf(self)
#      (B_atcmd) / get_unsolicited_buf(self) (B_unsol); POS = &self->position (P_atcmd) /
#      &self->unsolicited_fsm.position (P_unsol).  What these mean in the model (the hreq of Fsm.v: the
#      text the buffer holds, Fsm.apply_edit for the size pointer) is HandlerTie.v.in, hreq_of_call.
HANDLER_CALL_FIELDS = {"write": "HC_write", "run": "HC_run", "read": "HC_read", "test": "HC_test"}

# ---- the two dispatching switches.  Each arm must have one of the shapes below; it becomes an
#      entry (type HandlerTieLib.dispatch) of a table  state -> entry.  H_<f> is the constructor of
#      HandlerTieLib.hname for the C function f (a handler not listed there is refused).
#        s = f(self[, FSM]); break;                              DAssign (H_f [FSM])
#        f(self[, FSM]); s = CAT_STATUS_BUSY; break;             DBusy (H_f [FSM])
#        if (is_unsolicited_buffer_empty(self) == false) { f(self); s = CAT_STATUS_BUSY; } break;
#                                                                DIfEvents H_f
#        f(self[, FSM]); break;                                  DCallOnly (H_f [FSM])   (s unchanged)
#        s = CAT_STATUS_ERROR_UNKNOWN_STATE; break;              DUnknown
#        break;                                                  DNothing
#      and, since the arms are EVALUATED (which handlers are called, which status the function
#      returns: translate_dispatch.run), the same entries written with `return`:
#        return f(self[, FSM]);                                  DAssign
#        f(self[, FSM]); break;  .. return CAT_STATUS_BUSY; after the switch      DBusy
#        if (is_unsolicited_buffer_empty(self)) return CAT_STATUS_OK; f(self); break; ..        DIfEvents
#      "s unchanged" means the status the model takes for it (DISPATCH_S0): when an entry depends
#      on it the status variable must be initialised with that enumerator.
# the status that stands for "no arm assigned it" in the model's reading of the table (HandlerTie.v.in,
# run_dispatch s0): cat_service declares its status variable without initialiser and every arm assigns it
# (an arm that does not would be DNothing / DCallOnly, which the expected table does not contain);
# unsolicited_events_service initialises it with CAT_STATUS_OK -- checked when an entry depends on it
DISPATCH_S0 = {"cat_service": "CAT_STATUS_ERROR_UNKNOWN_STATE", "unsolicited_events_service": "CAT_STATUS_OK"}
DISPATCH_S0_NEEDS_INIT = {"cat_service": False, "unsolicited_events_service": True}
DISPATCH_FUNCTIONS = {          # C function: (field the switch ranges over, Coq type of the state)
    "cat_service": (("obj", "state"), "cstate"),
    "unsolicited_events_service": (("uns", "state"), "ustate"),
}
ENUM_VALUES = "enum_values"     # pseudo function: the numeric values of the Z-valued enumerators
# ---- the public functions that take the mutex.  Shape (anything else is recorded in the generated
#      HandlerTieLib.api_shape and makes the tie fail, or is refused):
#          <declarations, asserts>
#          if ((self->mutex != NULL) && (self->mutex->lock() != 0)) return E1;
#          BODY                                    (no `return`, no use of self->mutex)
#          if ((self->mutex != NULL) && (self->mutex->unlock() != 0)) return E2;
#          return <expression over locals>;
#      Generated: g_<f>_shape (what precedes the lock, E1, E2, returns inside BODY, what follows the
#      unlock) and g_<f>_body = BODY + the final return, as a function state -> state * Z, tied to
#      what the model passes to Fsm.bracket.  For cat_service (unit cat_service_bracket) BODY is
#      instead described as a list of HandlerTieLib.body_item (order of the two machines) and the
#      final merge of the two statuses is generated as g_cat_service_merge.
API_FUNCTIONS = ["cat_is_busy", "cat_is_hold", "cat_is_unsolicited_buffer_full",
                 "cat_trigger_unsolicited_event", "cat_hold_exit"]
SERVICE_BRACKET = "cat_service_bracket"
# ---- cat_init (unit cat_init): see translate_init.  The function must consist of
#          declarations and asserts (ignored; their lines are listed in the generated file)
#          self->commands_num = 0;  for (i = 0; i < desc->cmd_group_num; i++) { cmd_group = desc->cmd_group[i];
#              <asserts>  self->commands_num += cmd_group->cmd_num;  <a for loop of asserts> }
#                                             g_cat_init_commands_num D : nat, tied to ncmds D (what
#                                             OBJ_CONSTANTS maps self->commands_num to)
#          self->desc = desc; self->io = io; self->mutex = mutex;      g_cat_init_env (the environment of
#                                             the model: the descriptor D and the Section variables)
#          everything else (stores to mapped fields, helper calls)     g_cat_init_body D s : state, tied to
#                                             HandlerTie.v.in init_fields, which is what Fsm.init_state fixes
#                                             for the fields cat_init writes
INIT_FUNCTION = "cat_init"
INIT_ENV_FIELDS = {"desc": "E_desc", "io": "E_io", "mutex": "E_mutex"}   # field: set from the parameter of that name

DISPATCH_HANDLERS = {           # C function name -> takes a cat_fsm_type argument?
    "error_state": False, "process_idle_state": False, "parse_prefix": False,
    "parse_command": False, "update_command": False, "wait_read_acknowledge": False,
    "search_command": False, "command_found": False, "command_not_found": False,
    "parse_command_args": False, "parse_write_args": False, "format_read_args": True,
    "wait_test_acknowledge": False, "format_test_args": True, "process_write_loop": False,
    "process_read_loop": True, "process_test_loop": True, "process_run_loop": False,
    "process_hold_state": False, "process_io_write_wait": False, "process_io_write": False,
    "unsolicited_process_io_write_wait": False, "unsolicited_process_io_write": False,
    "reset_state": False, "unsolicited_reset_state": False, "ack_ok": False,
    "start_processing_format_read_args": True, "start_processing_format_test_args": True,
    "end_processing_with_ok": True, "print_cmd_list": False, "check_unsolicited_buffers": False,
}

# ======================================================================================
# 2. Getting the AST out of clang
# ======================================================================================

HERE = os.path.dirname(os.path.abspath(__file__))
COQ_SRC_DIR = os.path.normpath(os.path.join(HERE, "..", "coq"))
TEMPLATE_NAME = "HandlerTie.v.in"
LIB_NAME = "HandlerTieLib.v"
GEN_LOGICAL_PATH = "HandlerTieGen"
COQC_TIMEOUT_S = 300
CLANG_TIMEOUT_S = 60


def is_object_pointer(param):
    """The type of a parameter is `struct cat_object *`, possibly const-qualified (pointer to const
    and / or const pointer): the qualifiers change nothing to what the function may be translated to
    (a function that takes a pointer to const cannot store through it; clang checks that)."""
    q = param.get("type", {}).get("qualType", "")
    return " ".join(w for w in q.replace("*", " * ").split() if w != "const") == "struct cat_object *"


class Unsupported(Exception):
    """Raised inside the translation of ONE function; becomes report[fn] = unsupported/why."""


def _fill_locations(obj, last):
    """clang's JSON omits 'line'/'file' in a location when equal to the previously printed one;
    fill them in (document order) so that every location is self-contained."""
    if isinstance(obj, dict):
        if "offset" in obj:
            for key in ("file", "line"):
                if key in obj:
                    last[key] = obj[key]
                elif key in last:
                    obj[key] = last[key]
        for v in obj.values():
            _fill_locations(v, last)
    elif isinstance(obj, list):
        for v in obj:
            _fill_locations(v, last)


def load_translation_unit(src_dir):
    """-> (dict name -> list of FunctionDecl nodes WITH a body,
           dict enumerator name -> its integer value (None if it cannot be determined),
           error text or None)."""
    cat_c = os.path.join(src_dir, "cat.c")
    try:
        p = subprocess.run(["clang", "-fsyntax-only", "-Xclang", "-ast-dump=json",
                            "-I" + src_dir, cat_c],
                           capture_output=True, text=True, timeout=CLANG_TIMEOUT_S)
    except (OSError, subprocess.TimeoutExpired) as e:
        return {}, {}, "could not run clang: %r" % (e,)
    if p.returncode != 0:
        return {}, {}, "clang failed (exit %d): %s" % (p.returncode, p.stderr.strip()[-800:])
    try:
        tu = json.loads(p.stdout)
    except ValueError as e:
        return {}, {}, "cannot parse clang's JSON output: %s" % (e,)
    _fill_locations(tu, {})
    defs, enums = {}, {}
    for d in tu.get("inner", []):
        if d.get("kind") == "FunctionDecl" and \
                any(c.get("kind") == "CompoundStmt" for c in d.get("inner", [])):
            defs.setdefault(d.get("name"), []).append(d)
        if d.get("kind") == "EnumDecl":
            prev = -1                   # C11 6.7.2.2: first enumerator 0, then previous + 1;
            for c in d.get("inner", []):            # clang prints the value of explicit ones
                if c.get("kind") != "EnumConstantDecl":
                    continue
                init = [x for x in c.get("inner", []) if "value" in x]
                if c.get("inner") and not init:
                    prev = None
                elif init:
                    prev = int(init[0]["value"])
                elif prev is not None:
                    prev += 1
                enums[c.get("name")] = None if c.get("name") in enums else prev
    return defs, enums, None


def read_defines(src_dir):
    """-> {'lane': bool, 'wstate': bool}: the object-like macros of that group are written in
    cat.c exactly as EXPECTED_DEFINES says (each defined once, with that value)."""
    try:
        with open(os.path.join(src_dir, "cat.c")) as f:
            text = f.read()
    except OSError:
        text = ""
    ok = {}
    for group, names in EXPECTED_DEFINES.items():
        ok[group] = True
        for name, value in names.items():
            m = re.findall(r"^[ \t]*#[ \t]*define[ \t]+%s[ \t]+\(?(\d+)[uU]?\)?[ \t]*$" % name,
                           text, re.M)
            ok[group] = ok[group] and len(m) == 1 and int(m[0]) == value
    return ok


_SOURCE_CACHE = {}


def reset_globals():
    """Per-run state of the module: the cache of source texts (the same path may hold another text
    in the next run of the same process)."""
    _SOURCE_CACHE.clear()


def macro_name(node):
    """Name of the object-like macro whose expansion `node` is exactly (None if it is not one):
    the text of the source file at the expansion location reported by clang."""
    r = node.get("range", {})
    b, e = r.get("begin", {}).get("expansionLoc"), r.get("end", {}).get("expansionLoc")
    if not b or not e or b.get("offset") != e.get("offset") or "file" not in b:
        return None
    if b.get("isMacroArgExpansion") or e.get("isMacroArgExpansion"):
        return None
    path = b["file"]
    if path not in _SOURCE_CACHE:
        try:
            with open(path, "rb") as f:
                _SOURCE_CACHE[path] = f.read()
        except OSError:
            _SOURCE_CACHE[path] = b""
    text = _SOURCE_CACHE[path][b["offset"]:b["offset"] + b.get("tokLen", 0)]
    try:
        text = text.decode("ascii")
    except UnicodeDecodeError:
        return None
    return text if re.fullmatch(r"[A-Za-z_]\w*", text) else None


def node_line(node):
    for loc in (node.get("range", {}).get("begin", {}), node.get("loc", {})):
        loc = loc.get("expansionLoc", loc)
        if "line" in loc:
            return loc["line"]
    return None


def refuse(node, why):
    line = node_line(node) if isinstance(node, dict) else None
    raise Unsupported(why + (" (line %d)" % line if line else ""))


def strip(node):
    """Remove parentheses and value-preserving wrappers that carry no meaning here."""
    while node.get("kind") in ("ParenExpr", "ConstantExpr"):
        node = node["inner"][0]
    return node


def walk(node):
    yield node
    for c in node.get("inner", []) or []:
        if isinstance(c, dict):
            yield from walk(c)


# ======================================================================================
# 3. Expressions
# ======================================================================================

INT_BITS = {"char": 8, "signed char": 8, "unsigned char": 8, "bool": 1, "_Bool": 1,
            "short": 16, "unsigned short": 16, "int": 32, "unsigned int": 32,
            "long": 64, "unsigned long": 64, "long long": 64, "unsigned long long": 64}


def int_bits(node):
    """Width of the integer/enum type of an expression node, or None (not an integer)."""
    t = node.get("type", {})
    spelled = t.get("desugaredQualType", t.get("qualType", ""))
    words = " ".join(w for w in spelled.split() if w not in ("const", "volatile"))
    if words in INT_BITS:
        return INT_BITS[words]
    if words.startswith("enum ") or words.startswith("cat_"):
        return 32
    return None


def int_range(node):
    """Value range of the integer/enum type of an expression node (enum: that of int)."""
    bits = int_bits(node)
    if bits is None:
        refuse(node, "conversion to a non-integer type")
    t = node.get("type", {})
    spelled = t.get("desugaredQualType", t.get("qualType", ""))
    if bits == 1 or "unsigned" in spelled:
        return 0, 2 ** bits - 1
    return -2 ** (bits - 1), 2 ** (bits - 1) - 1


class Ex:
    """A lifted C expression: kind (section 1), Coq term; lit = python int for integer and
    character literals (which take the kind of what they are compared with / stored to)."""

    def __init__(self, kind, term, lit=None, rng=None, ub=None):
        self.kind, self.term, self.lit = kind, term, lit
        self.rng = rng      # kinds mint / lane: (lo, hi), an interval that contains the value
        self.ub = ub        # kind nat: an upper bound of the value, when one is known


def par(t):
    """Parenthesise a Coq term unless it is atomic."""
    return t if re.fullmatch(r"[\w.']+|\(.*\)", t) and _balanced_atom(t) else "(%s)" % t


def opnd(t):
    """Parenthesise a Coq term used as an operand of an infix operator, unless it is an
    application of atoms (application binds tighter than every infix operator)."""
    depth = 0
    for tok in re.findall(r"\(|\)|[^\s()]+", t):
        if tok == "(":
            depth += 1
        elif tok == ")":
            depth -= 1
        elif depth == 0 and (tok in ("if", "match", "fun", "let") or
                             not re.fullmatch(r"[\w.']+(%\w+)?", tok)):
            return "(%s)" % t
    return t


def _balanced_atom(t):
    if not t.startswith("("):
        return True
    depth = 0
    for i, ch in enumerate(t):
        depth += ch == "("
        depth -= ch == ")"
        if depth == 0 and i < len(t) - 1:
            return False
    return True


def nlit(n):
    return CHAR_NAMES.get(n, "%d%%N" % n)


def zlit(n):
    return "%d%%Z" % n if n >= 0 else "(%d)%%Z" % n


def c_type_name(node):
    """Desugared spelling of the type of an expression node, without qualifiers."""
    t = node.get("type", {})
    spelled = t.get("desugaredQualType", t.get("qualType", ""))
    return " ".join(w for w in spelled.split() if w not in ("const", "volatile"))


INT_MIN, INT_MAX = -2 ** 31, 2 ** 31 - 1


def bit_rng(op, a, b):
    """Interval of a & b, a | b, a ^ b (two's complement, unbounded) from those of a and b."""
    (al, ah), (bl, bh) = a, b
    if op == "&":
        if al >= 0 and bl >= 0:
            return 0, min(ah, bh)
        if al >= 0:
            return 0, ah
        if bl >= 0:
            return 0, bh
    if al >= 0 and bl >= 0:
        return 0, (1 << max(ah, bh).bit_length()) - 1
    m = max(abs(al), abs(bl), ah + 1, bh + 1, 1).bit_length()
    return -(1 << m), (1 << m) - 1


class Guard:
    """A partial read: `match scrut with fail_pat => <fault> | ok_pat => <body> end`."""

    def __init__(self, scrut, fail_pat, ok_pat):
        self.scrut, self.fail_pat, self.ok_pat = scrut, fail_pat, ok_pat


class FunctionTranslator:
    MAX_OUTPUT_CHARS = 60000

    def __init__(self, fn, decl, defines_ok, reading):
        self.fn, self.decl, self.defines_ok, self.reading = fn, decl, defines_ok, reading
        self.counter = {}
        self.uses_cmd_deref = False      # self->cmd->f seen: whole body under `match cmd_of ..`
        self.assigns_obj_cmd = False
        self.lead_cmd_index = None       # e, when the function begins with self->cmd = get_command_by_index(self, e)
        self.mode = None                 # 'void' | 'const' | 'pair'
        self.const_status = None
        self.ret_kind = None
        self.emitted = 0
        self.self_id = None
        # Where self->cmd is known to be what it was when the function was entered:
        # origin[state name] = (root, same): root = 'init' or the continuation whose parameter the
        # state descends from; same = no helper call / store to ->cmd since root.
        self.origin = {"s": ("init", True)}
        self.kont_needs = set()          # continuations whose body dereferences self->cmd
        self.local_names = {}            # clang decl id -> C name of a local / parameter
        self.const_locals = {}           # clang decl id -> value of a never re-assigned local
                                         # initialised with an integer constant expression
        self.written_locals = set()      # ids of the locals assigned somewhere in the function
        self.defined_in_tu = set()       # names of the functions DEFINED in the translation unit
        self.post = False                # POST_CALL_FUNCTIONS: the handler call is the parameter `code`
        self.post_used = False
        self.post_call_term = None       # POST_CALL_FUNCTIONS: the handler call, a term of type option hcall
        self.aux = None                  # AuxRegistry: helpers of cat.c outside the mapping table
        self.call_override = {}          # clang id of a call already evaluated -> its value (Ex)
        self.local_rng = {}              # Coq name of a uint8_t local -> interval of its value
        self.local_ub = {}               # Coq name of a size_t local -> known upper bound
        self.pure = True                 # no statement translated so far produced a new state
        self.array_size = {}             # clang id of a local char array -> its size
        self.table = None                # a constant table being translated, see table_switch()
        self.out_ids = []                # clang ids of the OUT-parameters (T *p), in order
        self.optional_names = set()      # Coq names of locals held as option (maybe unassigned)
        self.loop = None                 # the for loop being translated (dict), see for_loop()
        self.loop_continue = None        # Cont for `continue` / the end of the loop body
        self.pre_defs = []               # definitions emitted before the function (loops)
        self.top_kb = None               # the continuation "end of the function"
        self.binders_all = []            # binders of the function's parameters (after D)
        self.oracle = None               # ORACLE_FUNCTIONS entry: the function is translated as a
                                         # function of the answer of the oracle it calls
        self.oracle_sites = 0            # oracle call sites translated so far
        self.ptr_origin = {}             # Coq name of a pointer local -> (helper it came from, fsm term)
        self.getter = None               # GETTER_FUNCTIONS entry: (kind of the result, reads the descriptor)
        self.result_pointer_ids = set()  # ids of the command-pointer locals that are only assigned / returned
        self.uns_alias_ids = set()       # clang ids of the locals that are only ever &self->unsolicited_fsm
        self.outarg_locals = {}          # clang id of a local passed as &x to an OUT_HELPERS callee -> kind
        self.loop_sig = None             # 'loop=<kinds of the carried locals>' / 'wloop=..': selects the
                                         # block of the template that states the loop lemma (see MARK)

    # ---- names -----------------------------------------------------------------------
    def fresh(self, base, bare_first=False):
        """s1, s2, .. / t1, .. / kont1, ..; with bare_first (successive values of a C local):
        x_len, x_len'2, ..  (no clash possible: a C identifier cannot contain a quote)."""
        self.counter[base] = n = self.counter.get(base, 0) + 1
        if bare_first:
            return base if n == 1 else "%s'%d" % (base, n)
        return "%s%d" % (base, n)

    def budget(self, text):
        self.emitted += len(text)
        if self.emitted > self.MAX_OUTPUT_CHARS:
            raise Unsupported("function too large for the handler translator")
        return text

    # ---- literals ----------------------------------------------------------------------
    def coerce(self, node, ex, kind):
        """Give an integer literal the kind it is used at; check kinds otherwise."""
        if ex.kind == kind or (ex.kind == "truth" and kind == "bool"):
            return ex
        if ex.kind == "int":
            n = ex.lit
            if kind == "nat" and n >= 0:
                return Ex("nat", str(n))
            if kind == "byte" and 0 <= n <= 127:
                return Ex("byte", nlit(n))
            if kind == "Z":
                return Ex("Z", "%d%%Z" % n if n >= 0 else "(%d)%%Z" % n)
            if kind == "bool" and n in (0, 1):
                return Ex("bool", "true" if n else "false")
            if kind == "lane" and n in LANE_BY_VALUE and self.defines_ok["lane"]:
                return Ex("lane", LANE_BY_VALUE[n], rng=(n, n))
            if kind == "lane" and n not in LANE_BY_VALUE and 0 <= n <= 255:
                return Ex("lane", "%d%%N" % n, rng=(n, n))      # a plain uint8_t constant
            if kind == "mint" and -2 ** 31 <= n < 2 ** 31:
                return Ex("mint", zlit(n), rng=(n, n))
            if kind == "wstate" and n in WSTATE_BY_VALUE and self.defines_ok["wstate"]:
                return Ex("wstate", WSTATE_BY_VALUE[n])
            refuse(node, "integer literal %d used where a %s is expected" % (n, kind))
        if ex.kind == "null" and kind == "cmdrecopt":  # NULL as a pointer to a command descriptor
            return Ex("cmdrecopt", "(@None cmd)")
        if ex.kind == "cmdidx" and kind == "cmdptr":  # a non-NULL command pointer
            return Ex("cmdptr", "Some %s" % par(ex.term))
        if ex.kind == "cstr" and kind == "str":       # the name of a command, printed
            return Ex("str", ex.term)
        if ex.kind == "lane" and kind == "byte":      # uint8_t -> char: the same byte
            return Ex("byte", ex.term)
        if ex.kind == "lane" and kind == "mint":      # integer promotion uint8_t -> int
            return Ex("mint", "Z.of_N %s" % par(ex.term), rng=ex.rng or (0, 255))
        refuse(node, "a %s is used where a %s is expected" % (ex.kind, kind))

    # ---- self and its fields ---------------------------------------------------------------
    def is_self(self, node):
        """node is `self` (read; possibly converted to `const struct cat_object *` because the callee
        takes a pointer to const: a NoOp conversion)."""
        node = strip(node)
        while node.get("kind") == "ImplicitCastExpr" and node.get("castKind") in ("LValueToRValue", "NoOp"):
            node = strip(node["inner"][0])
        return node.get("kind") == "DeclRefExpr" and \
            node.get("referencedDecl", {}).get("id") == self.self_id

    def field_of(self, node):
        """node = MemberExpr.  -> ('obj'|'uns', field name)  or  ('cmd', field name, base node)
        or None."""
        if node.get("kind") != "MemberExpr":
            return None
        base, name = strip(node["inner"][0]), node.get("name")
        if node.get("isArrow") and self.is_self(base):
            return ("obj", name)
        if node.get("isArrow") and strip_casts(base).get("kind") == "DeclRefExpr" and \
                strip_casts(base).get("referencedDecl", {}).get("id") in self.uns_alias_ids:
            return ("uns", name)                   # x->F with x = &self->unsolicited_fsm
        if not node.get("isArrow") and base.get("kind") == "MemberExpr" \
                and base.get("name") == "unsolicited_fsm" and base.get("isArrow") \
                and self.is_self(base["inner"][0]):
            return ("uns", name)
        if node.get("isArrow"):
            return ("cmd", name, base)
        return None

    def cmdrec_of(self, node, s, env, G):
        """A `struct cat_command *` valued expression used to reach a command descriptor."""
        ex = self.ex(node, s, env, G)
        if ex.kind == "cmdrec":
            return ex.term
        if ex.kind == "cmdptr" and ex.term == "k_cmd (k %s)" % s:
            # self->cmd->...: the descriptor bound ONCE around the whole body (see translate_function)
            root, same = self.origin.get(s, (None, False))
            if not same:
                refuse(node, "self->cmd dereferenced after a helper call or a store to it "
                             "(it may differ from what it was when the function was entered)")
            if root != "init":
                self.kont_needs.add(root)
            self.uses_cmd_deref = True
            return "c"
        refuse(node, "cannot reach a command descriptor through this expression")

    def read_lvalue(self, node, s, env, G):
        node = strip(node)
        kind = node.get("kind")
        if kind == "DeclRefExpr":
            did = node.get("referencedDecl", {}).get("id")
            if self.loop is not None and did == self.loop["index_id"]:
                refuse(node, "the loop index is used other than as %s" % self.loop["shape"])
            if did in self.const_locals:
                return Ex("int", None, lit=self.const_locals[did])
            if did in env:
                name, k = env[did]
                if name is None:
                    refuse(node, "local variable read before it is assigned")
                if did in self.out_ids:
                    refuse(node, "an out-parameter is read")
                if name in self.optional_names:       # written only if the callee wrote *p
                    t = self.fresh("t")
                    G.append(Guard(name, "None", "Some " + t))
                    return Ex(k, t)
                return Ex(k, name, rng=self.local_rng.get(name, (0, 255)) if k == "lane" else None,
                          ub=self.local_ub.get(name))
            refuse(node, "read of an unmapped variable '%s'"
                   % node.get("referencedDecl", {}).get("name"))
        if kind == "MemberExpr":
            opt = self.optional_string(node, s, env, G)
            if opt is not None:                   # printed: NULL would be a fault
                t = self.fresh("t")
                G.append(Guard(opt, "None", "Some " + t))
                return Ex("str", t)
            special = self.struct_member(node, s, env, G)
            if special is not None:
                return special
            dm = self.desc_member(node)
            if dm is not None:
                return dm
            f = self.field_of(node)
            if f is None:
                refuse(node, "unmapped member access '.%s'" % node.get("name"))
            if f[0] == "obj" and f[1] in OBJ_CONSTANTS:
                k, term = OBJ_CONSTANTS[f[1]]
                return Ex(k, term)
            if f[0] == "obj" and f[1] == "current_char" and self.reading:
                return Ex("byte", "ch")
            if f[0] in ("obj", "uns"):
                table, rec = (OBJ_FIELDS, "k") if f[0] == "obj" else (UNS_FIELDS, "u")
                if f[1] not in table:
                    refuse(node, "field '%s' is not in the mapping table" % f[1])
                k, proj, _ = table[f[1]]
                if k == "varidx" and self.getter is not None and self.getter[0] == "varidx":
                    return Ex("varidx", "%s (%s %s)" % (proj, rec, s))    # the pointer as a VALUE
                if k in ("wbuf", "varidx"):
                    refuse(node, "field '%s' is only mapped for the listed pointer stores" % f[1])
                if any(env[i][1] == k for i in self.out_ids):
                    refuse(node, "field '%s' is read in a function with an out-parameter that "
                                 "may point to it" % f[1])
                return Ex(k, "%s (%s %s)" % (proj, rec, s))
            if f[1] not in CMD_FIELDS:
                refuse(node, "command field '%s' is not in the mapping table" % f[1])
            c = self.cmdrec_of(f[2], s, env, G)
            k, tmpl = CMD_FIELDS[f[1]]
            return Ex(k, tmpl.format(c=c))
        if kind == "ArraySubscriptExpr":
            base, idx = node["inner"]
            if self.is_loop_element(node):
                return Ex(self.loop["kind"], self.loop["elem"])
            if self.is_self_call(strip_casts(base), "get_atcmd_buf"):
                # get_atcmd_buf(self)[e]: a read outside the working buffer is a fault
                i = self.coerce(idx, self.ex(idx, s, env, G), "nat")
                t = self.fresh("t")
                G.append(Guard("nth_error (cbuf %s) %s" % (s, par(i.term)), "None", "Some " + t))
                return Ex("byte", t)
            mb = strip_casts(base)
            fb = self.field_of(mb) if mb.get("kind") == "MemberExpr" else None
            if fb in (("obj", "write_buf"), ("uns", "write_buf")):
                # self->write_buf[e]: the pointer is the new-line string or the machine's buffer
                # (Defs.wbuf); Fsm.wbuf_char reads it, None = outside (a fault)
                i = self.coerce(idx, self.ex(idx, s, env, G), "nat")
                rec, proj, buf = ("k", "k_wbuf", "cbuf") if fb[0] == "obj" else ("u", "u_wbuf", "ubuf")
                t = self.fresh("t")
                G.append(Guard("wbuf_char (%s (%s %s)) (%s %s) %s" % (proj, rec, s, buf, s, par(i.term)),
                               "None", "Some " + t))
                return Ex("byte", t)
            b = self.ex(base, s, env, G)
            if b.kind != "cstr":
                refuse(node, "array read that is not cmd->name[i] / get_atcmd_buf(self)[i] / "
                             "self->write_buf[i]")
            i = self.coerce(idx, self.ex(idx, s, env, G), "nat")
            t = self.fresh("t")
            G.append(Guard("nth_error %s %s" % (par(b.term), par(i.term)), "None", "Some " + t))
            return Ex("byte", t)
        refuse(node, "read of an lvalue of kind %s" % kind)

    # ---- structures reached through a mapped pointer ---------------------------------------------
    def local_kind(self, node, env):
        """Kind of the local variable / parameter that `node` (casts stripped) names, else None."""
        n = strip_casts(node)
        if n.get("kind") == "DeclRefExpr":
            ent = env.get(n.get("referencedDecl", {}).get("id"))
            if ent is not None and ent[0] is not None:
                return ent[1], ent[0]
        return None, None

    def group_cmd_element(self, node, s, env, G):
        """node = g->cmd[e] with g a group.  -> (term of g, term of e) or None."""
        node = strip(node)
        if node.get("kind") != "ArraySubscriptExpr":
            return None
        m = strip_casts(node["inner"][0])
        if m.get("kind") != "MemberExpr" or m.get("name") != "cmd" or not m.get("isArrow"):
            return None
        k, g = self.local_kind(m["inner"][0], env)
        if k != "grp":
            return None
        e = self.coerce(node["inner"][1], self.ex(node["inner"][1], s, env, G), "nat")
        return g, e.term

    def struct_member(self, node, s, env, G):
        """x->f with x a group / a variable descriptor, and g->cmd[e].disable; else None."""
        base, name = strip(node["inner"][0]), node.get("name")
        if node.get("isArrow"):
            k, x = self.local_kind(base, env)
            if k == "grp":
                if name not in GRP_FIELDS:
                    refuse(node, "group field '%s' is not in the mapping table" % name)
                kk, tmpl = GRP_FIELDS[name]
                return Ex(kk, tmpl.format(g=x, s=s))
            if k == "varrec":
                if name not in VAR_FIELDS:
                    refuse(node, "variable field '%s' is not in the mapping table" % name)
                kk, tmpl = VAR_FIELDS[name]
                return Ex(kk, tmpl.format(v=x, s=s))
            if k is None and base.get("kind") == "ImplicitCastExpr":
                b2 = strip_casts(base)
                if b2.get("kind") == "MemberExpr" and self.field_of(b2) in (("obj", "var"), ("uns", "var")):
                    if name not in VAR_FIELDS:          # self->var->f
                        refuse(node, "variable field '%s' is not in the mapping table" % name)
                    kk, tmpl = VAR_FIELDS[name]
                    return Ex(kk, tmpl.format(v=self.self_var(b2, s, G), s=s))
            if k == "ringref":
                if name not in ("cmd", "type"):
                    refuse(node, "field '%s' of a queue entry is not in the mapping table" % name)
                scrut = "nth_error (u_ring (u %s)) %s" % (s, par(x))
                same = [g for g in G if g.scrut == scrut and g.fail_pat == "None"]
                if same:                             # the same entry was already read
                    t = same[0].ok_pat.split()[1]
                else:
                    t = self.fresh("t")
                    G.append(Guard(scrut, "None", "Some " + t))
                return Ex("cmdidx", "fst %s" % t) if name == "cmd" else Ex("ctype", "snd %s" % t)
            return None
        ge = self.group_cmd_element(base, s, env, G)
        if ge is not None:
            if name != "disable":
                refuse(node, "g->cmd[e].%s is not in the mapping table" % name)
            return Ex("bool", "nthb (dis_cmd %s) (grp_off %s + %s)" % (s, ge[0], opnd(ge[1])))
        return None

    def is_loop_element(self, node):
        """node = ARRAY[i] for the array and the index of the loop being translated."""
        if self.loop is None:
            return False
        node = strip(node)
        if node.get("kind") != "ArraySubscriptExpr":
            return False
        base, idx = strip_casts(node["inner"][0]), strip_casts(node["inner"][1])
        return idx.get("kind") == "DeclRefExpr" \
            and idx.get("referencedDecl", {}).get("id") == self.loop["index_id"] \
            and self.loop["is_array"](base)

    def desc_member(self, node):
        """self->desc->F inside a getter that reads the descriptor (DESC_FIELDS / DESC_POINTERS)."""
        if self.getter is None or node.get("kind") != "MemberExpr":
            return None
        for table in (DESC_FIELDS, DESC_POINTERS):
            name = node.get("name")
            if name in table and self.is_desc_member(node, name):
                if not self.getter[1]:
                    refuse(node, "self->desc->%s read in a getter that is not declared to read the "
                                 "descriptor" % name)
                k, tmpl = table[name]
                return Ex(k, tmpl.format(v=CDESC))
        return None

    def is_desc_member(self, node, name):
        """node = self->desc-><name>"""
        n = strip_casts(node)
        if n.get("kind") != "MemberExpr" or n.get("name") != name or not n.get("isArrow"):
            return False
        d = strip_casts(n["inner"][0])
        return d.get("kind") == "MemberExpr" and d.get("name") == "desc" and d.get("isArrow") \
            and self.is_self(d["inner"][0])

    # ---- calls -------------------------------------------------------------------------------
    def is_self_call(self, c, fname):
        """c is exactly  fname(self)."""
        return c.get("kind") == "CallExpr" and self.callee_name(c) == fname \
            and len(c["inner"]) == 2 and self.is_self(c["inner"][1])

    def callee_name(self, call):
        c = call["inner"][0]
        while c.get("kind") in ("ImplicitCastExpr", "ParenExpr"):
            c = c["inner"][0]
        d = c.get("referencedDecl", {})
        if c.get("kind") != "DeclRefExpr" or d.get("kind") != "FunctionDecl":
            return None
        return d.get("name")

    def call_args(self, call, name, kinds, s, env, G, leaf=False):
        args = call["inner"][1:]
        if not leaf:
            if not args or not self.is_self(args[0]):
                refuse(call, "call of %s whose first argument is not self" % name)
            args = args[1:]
        if len(args) != len(kinds):
            refuse(call, "call of %s with %d arguments, mapping table says %d"
                   % (name, len(args), len(kinds)))
        out = []
        for a, k in zip(args, kinds):
            if k == "cmdrec":
                out.append(par(self.cmdrec_of(a, s, env, G)))
            elif k in ("wbufc", "wbufu"):
                out.append(par(self.wbuf_value(a, a, "obj" if k == "wbufc" else "uns", s, env)))
            else:
                out.append(par(self.coerce(a, self.ex(a, s, env, G), k).term))
        return out

    def value_call(self, node, s, env, G):
        name = self.callee_name(node)
        if node.get("id") in self.call_override:
            return self.call_override[node["id"]]
        if name in VALUE_HELPERS:
            k, tmpl, kinds = VALUE_HELPERS[name]
            args = self.call_args(node, name, kinds, s, env, G, leaf=name in LEAF_HELPERS)
            return Ex(k, tmpl.format(*args, s=s))
        if name in PTR_HELPERS and self.getter is not None:
            k, term = PTR_HELPERS[name]
            self.call_args(node, name, [], s, env, G)
            return Ex(k, term)
        if name in PARTIAL_HELPERS:
            k, tmpl, kinds = PARTIAL_HELPERS[name]
            args = self.call_args(node, name, kinds, s, env, G)
            t = self.fresh("t")
            G.append(Guard(tmpl.format(*args, s=s), "None", "Some " + t))
            self.ptr_origin[t] = (name, args[0] if args else None)
            return Ex(k, t)
        if name is None and self.oracle_callee(node):
            refuse(node, "oracle call (through a pointer of the io interface / a variable callback) at "
                         "a position other than `if (CALL CMP literal)` / `if ((A) && (CALL CMP literal))`")
        if name in PAIR_HELPERS or name in OUT_HELPERS:
            refuse(node, "call of '%s', which may modify *self, inside an expression" % name)
        if name == "strlen" and len(node["inner"]) == 2 and name not in self.defined_in_tu:
            a = self.ex(node["inner"][1], s, env, G)
            if a.kind == "cstr":
                return Ex("nat", "length %s" % par(a.term))
            refuse(node, "strlen of something that is not a command name")
        if name in self.defined_in_tu and self.aux is not None and name not in LIBRARY_CALLS:
            # a helper of cat.c outside the mapping table, used for its value: translated on the
            # fly; accepted if it is a pure function (mode opt: partial; pair: must not modify *self)
            sig = self.aux_signature(node, name)
            if sig["mode"] == "opt":
                t = self.fresh("t")
                G.append(Guard(self.aux_call(node, sig, s, env, G), "None", "Some " + t))
                return Ex(sig["ret_kind"], t)
            if sig["mode"] == "pair" and sig.get("pure"):
                return Ex(sig["ret_kind"], "snd (%s)" % self.aux_call(node, sig, s, env, G))
            refuse(node, "call of '%s' (not in the mapping table) in an expression, and it is "
                         "not a pure function" % name)
        refuse(node, "call of '%s', which is not in the mapping table" % name)

    # ---- general expressions ---------------------------------------------------------------------
    def ex(self, node, s, env, G):
        if node.get("kind") in ("ParenExpr", "CStyleCastExpr", "IntegerLiteral"):
            m = macro_name(node)
            if m in MACRO_CONSTANTS:
                k, term = MACRO_CONSTANTS[m]
                return Ex(k, term)
        node = strip(node)
        kind = node.get("kind")
        if kind in ("IntegerLiteral", "CharacterLiteral"):
            return Ex("int", None, lit=int(node["value"]))
        if kind == "StringLiteral":
            return Ex("str", self.string_literal(node))
        if kind == "DeclRefExpr" and node.get("referencedDecl", {}).get("kind") == "EnumConstantDecl":
            name = node["referencedDecl"].get("name")
            if name not in ENUMERATORS:
                refuse(node, "enumerator %s is not in the mapping table" % name)
            k, term = ENUMERATORS[name]
            return Ex(k, term)
        if kind in ("ImplicitCastExpr", "CStyleCastExpr"):
            ck, sub = node.get("castKind"), node["inner"][0]
            if ck == "LValueToRValue":
                return self.read_lvalue(sub, s, env, G)
            if ck in ("IntegralCast", "NoOp", "IntegralToBoolean"):
                e = self.ex(sub, s, env, G)
                if ck == "IntegralToBoolean":
                    if e.kind == "intcond":             # (c) ? 1 : 0 converted to bool
                        ct, x, y = e.term
                        return Ex("bool", "if %s then %s else %s" % (
                            ct, "true" if x != 0 else "false", "true" if y != 0 else "false"))
                    return self.coerce(node, e, "bool")
                if ck == "IntegralCast" and e.kind != "int":
                    conv = self.int_conversion(node, e)
                    if conv is not None:
                        return conv
                    src, dst = int_bits(strip(sub)), int_bits(node)
                    if src is None or dst is None or dst < src:
                        refuse(node, "narrowing or non-integer conversion")
                if ck == "IntegralCast" and e.kind == "int":
                    lo, hi = int_range(node)
                    if not lo <= e.lit <= hi:
                        refuse(node, "constant %d converted to a type that cannot hold it" % e.lit)
                return e
            if ck in ("NullToPointer",):
                return Ex("null", None)
            if ck in ("BitCast", "ArrayToPointerDecay") and self.getter is not None:
                if ck == "ArrayToPointerDecay" and strip(sub).get("kind") == "DeclRefExpr" and \
                        env.get(strip(sub).get("referencedDecl", {}).get("id"), (None, None))[1] == "strptr":
                    return self.read_lvalue(sub, s, env, G)          # static const char x[] = "LIT"
                if ck == "ArrayToPointerDecay" and strip(sub).get("kind") == "StringLiteral":
                    return Ex("strptr", "Some (%s, 0)" % self.c_string_bytes(strip(sub)))
                if ck == "BitCast" and c_type_name(node) in BYTE_POINTER_TYPES:
                    e = self.ex(sub, s, env, G)      # (char * )p on a pointer to bytes: the same pointer
                    if e.kind in PTR_KINDS + ("null",):
                        return e
                    refuse(node, "conversion of a %s to a pointer to bytes" % e.kind)
            if ck in ("BitCast", "ArrayToPointerDecay") and node.get("kind") == "ImplicitCastExpr":
                if ck == "ArrayToPointerDecay" and strip(sub).get("kind") == "DeclRefExpr" and \
                        env.get(strip(sub).get("referencedDecl", {}).get("id"), (None, None))[1] == "str":
                    return self.read_lvalue(sub, s, env, G)          # a local string buffer
                e = self.ex(sub, s, env, G)
                if e.kind in ("null", "cmdrec", "cmdptr", "cstr", "str"):
                    return e
            refuse(node, "conversion of kind %s" % ck)
        if kind == "MemberExpr" or kind == "ArraySubscriptExpr":
            refuse(node, "lvalue used without being read")
        if kind == "CallExpr":
            return self.value_call(node, s, env, G)
        if kind == "UnaryOperator":
            op, sub = node.get("opcode"), node["inner"][0]
            if op == "!":
                return Ex("bool", "negb %s" % par(self.truth(sub, s, env, G)))
            if op == "-":
                e = self.ex(sub, s, env, G)
                if e.kind == "int":
                    return Ex("int", None, lit=-e.lit)
            if op == "&":
                a = strip(sub)
                if a.get("kind") == "ArraySubscriptExpr" and \
                        self.field_of(strip_casts(a["inner"][0])) == ("uns", "unsolicited_cmd_buffer"):
                    i = self.coerce(a["inner"][1], self.ex(a["inner"][1], s, env, G), "nat")
                    return Ex("ringref", i.term)
                if self.is_loop_element(a) and self.loop["kind"] == "varrec":
                    return Ex("varrec", self.loop["elem"])           # &c->var[i]
                ge = self.group_cmd_element(a, s, env, G)
                if ge is not None:                                   # &g->cmd[e]: a descriptor
                    return Ex("cmdrecopt", "nth_error (grp_cmds %s) %s" % (ge[0], par(ge[1])))
                if self.getter is not None and a.get("kind") == "ArraySubscriptExpr":
                    b = self.ex(a["inner"][0], s, env, G)            # &P[e] on a pointer to bytes
                    if b.kind in PTR_KINDS:
                        i = self.value_ex(a["inner"][1], "nat", s, env, G)
                        return Ex(b.kind, "ptr_add %s %s" % (par(b.term), par(i.term)))
                    refuse(node, "address of an element of something that is not a mapped pointer to bytes")
            if op == "~" and c_type_name(node) == "int":
                e = self.as_mint(sub, self.ex(sub, s, env, G))
                return Ex("mint", "Z.lnot %s" % par(e.term), rng=(-e.rng[1] - 1, -e.rng[0] - 1))
            refuse(node, "unary operator '%s' in an expression" % op)
        if kind == "BinaryOperator":
            op = node.get("opcode")
            if op in ("==", "!=", "<", "<=", ">", ">=", "&&", "||"):
                return Ex("bool", self.truth(node, s, env, G))
            a, b = node["inner"]
            if op in ("<<", "|", "&", "+", "-", "*"):
                folded = self.fold(node, op, a, b, s, env)
                if folded is not None:
                    return folded
            if op in ("<<", ">>", "&", "|", "^", "+", "-") and c_type_name(node) == "int":
                ea = self.as_mint(a, self.ex(a, s, env, G))
                eb = self.as_mint(b, self.ex(b, s, env, G), shift_amount=op in ("<<", ">>"))
                return self.mint_op(node, op, ea, eb)
            if op in ("<<", ">>", "&", "%", "/") and c_type_name(node) == "unsigned long":
                return self.nat_op(node, op, self.ex(a, s, env, G), self.ex(b, s, env, G))
            if op == "+":
                ea, eb = self.ex(a, s, env, G), self.ex(b, s, env, G)
                if self.getter is not None and eb.kind in PTR_KINDS:
                    ea, eb, a, b = eb, ea, b, a
                if self.getter is not None and ea.kind in PTR_KINDS:          # P + e
                    if eb.kind not in ("nat", "int", "intcond") or (eb.kind == "int" and eb.lit < 0):
                        refuse(node, "pointer plus something that is not a size_t / a non-negative literal")
                    return Ex(ea.kind, "ptr_add %s %s" % (par(ea.term), par(self.as_kind(b, eb, "nat").term)))
                if ea.kind == "nat" and eb.kind == "int" and eb.lit == 1:
                    return Ex("nat", "S %s" % par(ea.term))
                if ea.kind == "nat" and eb.kind in ("nat", "int"):
                    return Ex("nat", "%s + %s" % (par(ea.term), par(self.coerce(b, eb, "nat").term)))
                refuse(node, "'+' on operands that are not size_t")
            if op == "-":
                ea, eb = self.ex(a, s, env, G), self.ex(b, s, env, G)
                if ea.kind == "nat" and eb.kind == "int" and eb.lit == 1:
                    t = self.fresh("t")     # x - 1 on size_t: x = 0 would wrap around -> fault
                    G.append(Guard(ea.term, "O", "S " + t))
                    return Ex("nat", t)
                if ea.kind == "nat" and eb.kind == "nat":
                    # a - b on size_t: b > a would wrap around -> fault
                    G.append(Guard("%s <=? %s" % (opnd(eb.term), opnd(ea.term)), "false", "true"))
                    return Ex("nat", "%s - %s" % (opnd(ea.term), opnd(eb.term)), ub=ea.ub)
                refuse(node, "'-' on operands that are not size_t")
            refuse(node, "binary operator '%s'" % op)
        if kind == "ConditionalOperator":
            c, a, b = node["inner"]
            ct = self.truth(c, s, env, G)
            ea, eb = self.ex(a, s, env, G), self.ex(b, s, env, G)
            if ea.kind == "int" and eb.kind == "int":
                return Ex("intcond", (ct, ea.lit, eb.lit))      # resolved by coerce_any
            if ea.kind == "int":
                ea = self.coerce(a, ea, eb.kind)
            if eb.kind == "int":
                eb = self.coerce(b, eb, ea.kind)
            if ea.kind != eb.kind:
                refuse(node, "branches of ?: of different kinds (%s, %s)" % (ea.kind, eb.kind))
            return Ex(ea.kind, "if %s then %s else %s" % (ct, ea.term, eb.term))
        refuse(node, "expression of kind %s" % kind)

    # ---- machine integers (C integer promotion made explicit) --------------------------------------
    # uint8_t values are N (kind lane); the `int` they are promoted to is Z (kind mint), with the
    # mathematical operations of Z.  That IS the C operation as long as no operation is undefined
    # or implementation-defined and the result fits `int`: this is checked HERE, on intervals
    # (refused otherwise).  The conversions back to uint8_t are explicit: HandlerTieLib.u8.
    def as_mint(self, node, e, shift_amount=False):
        if e.kind == "mint":
            return e
        if e.kind == "int":
            return self.coerce(node, e, "mint")
        if e.kind == "lane":
            return self.coerce(node, e, "mint")
        if e.kind == "nat" and shift_amount:       # the right operand of a shift keeps its own type
            if e.ub is None:
                refuse(node, "shift by a size_t amount that has no known bound")
            return Ex("mint", "Z.of_nat %s" % par(e.term), rng=(0, e.ub))
        refuse(node, "a %s is used in integer arithmetic" % e.kind)

    def mint_op(self, node, op, ea, eb):
        (al, ah), (bl, bh) = ea.rng, eb.rng
        if op in ("+", "-"):
            rng = (al + bl, ah + bh) if op == "+" else (al - bh, ah - bl)
            if rng[0] < INT_MIN or rng[1] > INT_MAX:
                refuse(node, "'%s' whose result is not known to fit an int" % op)
            return Ex("mint", "(%s %s %s)%%Z" % (opnd(ea.term), op, opnd(eb.term)), rng=rng)
        if op in ("<<", ">>"):
            if bl < 0 or bh > 31:
                refuse(node, "shift amount not known to be in [0, 31] (undefined behaviour)")
            if al < 0:
                refuse(node, "shift of a possibly negative value")
            if op == "<<":
                rng, fn = (al << bl, ah << bh), "Z.shiftl"
            else:
                rng, fn = (al >> bh, ah >> bl), "Z.shiftr"
        else:
            rng, fn = bit_rng(op, ea.rng, eb.rng), {"&": "Z.land", "|": "Z.lor", "^": "Z.lxor"}[op]
        if rng[0] < INT_MIN or rng[1] > INT_MAX:
            refuse(node, "'%s' whose result is not known to fit an int" % op)
        return Ex("mint", "%s %s %s" % (fn, par(ea.term), par(eb.term)), rng=rng)

    def nat_op(self, node, op, ea, eb):
        """>> << % / by a literal and & on size_t (nat: no wrap-around, so << needs a bound)."""
        if ea.kind == "int" and op == "&":
            ea, eb = eb, ea
        if ea.kind != "nat":
            refuse(node, "'%s' on a %s" % (op, ea.kind))
        if op == "&":
            eb = self.coerce(node, eb, "nat") if eb.kind == "int" else eb
            if eb.kind != "nat":
                refuse(node, "'&' of a size_t and a %s" % eb.kind)
            ubs = [u for u in (ea.ub, eb.ub) if u is not None]
            return Ex("nat", "Nat.land %s %s" % (par(ea.term), par(eb.term)), ub=min(ubs) if ubs else None)
        if op == "/":                    # size_t division by a positive literal: Nat.div
            if eb.kind != "int" or not 1 <= eb.lit < 2 ** 31:
                refuse(node, "'/' on a size_t by something that is not a positive literal")
            return Ex("nat", "%s / %d" % (opnd(ea.term), eb.lit),
                      ub=None if ea.ub is None else ea.ub // eb.lit)
        if eb.kind != "int" or not 0 <= eb.lit < 31:
            refuse(node, "'%s' on a size_t by something that is not a small literal" % op)
        c = eb.lit
        if op == ">>":
            return Ex("nat", "%s / %d" % (opnd(ea.term), 2 ** c), ub=None if ea.ub is None else ea.ub >> c)
        if op == "%":
            if c == 0:
                refuse(node, "modulo zero")
            return Ex("nat", "%s mod %d" % (opnd(ea.term), c), ub=c - 1)
        if ea.ub is None or (ea.ub << c) > INT_MAX:
            refuse(node, "'<<' on a size_t value that has no known small bound (it could wrap around)")
        return Ex("nat", "%s * %d" % (opnd(ea.term), 2 ** c), ub=ea.ub << c)

    def int_conversion(self, node, e):
        """Implicit/explicit integer conversions that involve uint8_t / char / int; None = the
        general rule (a widening that keeps the kind) applies."""
        dst = c_type_name(node)
        if e.kind in ("i64", "u64"):
            # int64_t <-> uint64_t: modulo 2^64 (C11 6.3.1.3p2) / the two's complement reading
            if (e.kind, dst) in (("i64", "long"), ("u64", "unsigned long")):
                return e
            if (e.kind, dst) == ("i64", "unsigned long"):
                return Ex("u64", "c_u64 %s" % par(e.term))
            if (e.kind, dst) == ("u64", "long"):
                return Ex("i64", "c_s64 %s" % par(e.term))
            refuse(node, "conversion of a 64-bit value to %s" % dst)
        if dst == "unsigned char":
            if e.kind == "byte":                   # char -> uint8_t: the byte itself
                return Ex("lane", "u8 (Z.of_N %s)" % par(e.term), rng=(0, 255))
            if e.kind == "mint":                   # int -> uint8_t: modulo 256
                ok = 0 <= e.rng[0] and e.rng[1] <= 255
                return Ex("lane", "u8 %s" % par(e.term), rng=e.rng if ok else (0, 255))
            if e.kind == "nat":
                if e.ub is None or e.ub > 255:
                    refuse(node, "conversion to uint8_t of a size_t value not known to be < 256")
                return Ex("lane", "u8 (Z.of_nat %s)" % par(e.term), rng=(0, e.ub))
            if e.kind == "lane":
                return e
        if dst == "char" and e.kind == "lane":
            return Ex("byte", e.term)
        if dst == "int" and e.kind == "mint":
            return e
        if e.kind == "mint":
            refuse(node, "conversion of an int value to %s" % dst)
        return None

    def string_literal(self, node):
        spelled = node.get("value", "")
        if not re.fullmatch(r'"[ !#-\[\]-~]*"', spelled):        # printable ASCII, no " and no \
            refuse(node, "string literal with an escape or a non-ASCII character")
        return "[%s]%%N" % "; ".join(str(ord(c)) for c in spelled[1:-1])

    SIMPLE_ESCAPES = {"n": 10, "r": 13, "t": 9, "0": 0, "\\": 92, '"': 34, "'": 39, "a": 7, "b": 8,
                      "f": 12, "v": 11}

    def c_string_bytes(self, node):
        """Bytes of a narrow string literal (simple escapes and \\xHH accepted), WITHOUT the
        terminating NUL; checked against the size of its array type."""
        spelled = node.get("value", "")
        if not (len(spelled) >= 2 and spelled[0] == '"' and spelled[-1] == '"'):
            refuse(node, "string literal with a prefix")
        body, out, i = spelled[1:-1], [], 0
        while i < len(body):
            ch = body[i]
            if ch == '"' or not 32 <= ord(ch) < 127:
                refuse(node, "string literal that is not one plain ASCII literal")
            if ch != "\\":
                out.append(ord(ch))
                i += 1
                continue
            nxt = body[i + 1:i + 2]
            if nxt == "x" and re.fullmatch(r"[0-9a-fA-F]{2}", body[i + 2:i + 4]) and \
                    not re.match(r"[0-9a-fA-F]", body[i + 4:i + 5]):
                out.append(int(body[i + 2:i + 4], 16))
                i += 4
            elif nxt in self.SIMPLE_ESCAPES and not (nxt == "0" and re.match(r"[0-7]", body[i + 2:i + 3])):
                out.append(self.SIMPLE_ESCAPES[nxt])
                i += 2
            else:
                refuse(node, "string literal with an escape sequence that is not supported")
        m = re.fullmatch(r"(?:const )?char\[(\d+)\]", node.get("type", {}).get("qualType", ""))
        if not m or int(m.group(1)) != len(out) + 1:
            refuse(node, "string literal whose array type does not match its spelling")
        return "[%s]%%N" % "; ".join(str(b) for b in out)

    def optional_string(self, node, s, env, G):
        """node = x->f with (kind of x, f) in OPTIONAL_STRINGS -> the Coq term (an option), else None."""
        n = strip_casts(node)
        if n.get("kind") != "MemberExpr" or not n.get("isArrow"):
            return None
        k, x = self.local_kind(n["inner"][0], env)
        if k == "varrec" and ("varrec", n.get("name")) in OPTIONAL_STRINGS:
            return OPTIONAL_STRINGS[("varrec", n["name"])].format(x=x)
        if ("cmdrec", n.get("name")) in OPTIONAL_STRINGS and k in (None, "cmdrec"):
            f = self.field_of(n)
            if f and f[0] == "cmd":
                try:
                    c = self.cmdrec_of(f[2], s, env, G)
                except Unsupported:
                    return None
                return OPTIONAL_STRINGS[("cmdrec", n["name"])].format(x=par(c))
        return None

    def fold(self, node, op, a, b, s, env):
        """Integer constant expression over literals: computed here (only while every
        intermediate value stays in [0, 2^31), where int and unsigned int agree)."""
        try:
            ea, eb = self.ex(a, s, env, []), self.ex(b, s, env, [])
        except Unsupported:
            return None
        if ea.kind != "int" or eb.kind != "int":
            return None
        x, y = ea.lit, eb.lit
        if x < 0 or y < 0 or (op == "<<" and y > 30):
            refuse(node, "constant expression with a negative operand or a large shift")
        v = {"<<": x << y, "|": x | y, "&": x & y, "+": x + y, "-": x - y, "*": x * y}[op]
        if not 0 <= v < 2 ** 31:
            refuse(node, "constant expression whose value leaves [0, 2^31)")
        return Ex("int", None, lit=v)

    def value_ex(self, node, kind, s, env, G):
        """Translate `node` as a value of the given kind (an Ex of that kind)."""
        return self.as_kind(node, self.ex(node, s, env, G), kind)

    def as_kind(self, node, e, kind):
        """Give the lifted expression e the kind it is used at (literals, c ? lit : lit)."""
        if e.kind == "intcond":
            ct, x, y = e.term
            tx = self.coerce(node, Ex("int", None, lit=x), kind).term
            ty = self.coerce(node, Ex("int", None, lit=y), kind).term
            return Ex(kind, "if %s then %s else %s" % (ct, tx, ty))
        return self.coerce(node, e, kind)

    def value(self, node, kind, s, env, G):
        return self.value_ex(node, kind, s, env, G).term

    # ---- truth values ----------------------------------------------------------------------------
    CMP_NAT = {"==": "{a} =? {b}", "<": "{a} <? {b}", "<=": "{a} <=? {b}",
               ">": "{b} <? {a}", ">=": "{b} <=? {a}"}

    def truth(self, node, s, env, G):
        """Coq bool for `node != 0` (the C truth value of node)."""
        node = strip(node)
        kind, op = node.get("kind"), node.get("opcode")
        if kind == "BinaryOperator" and op in ("&&", "||"):
            a, b = node["inner"]
            idiom = self.vars_nonempty_idiom(a, b, s, env, G) if op == "&&" else None
            if idiom:
                return idiom
            ta = self.truth(a, s, env, G)
            G2 = list(G)                          # the right operand is evaluated conditionally: it
            tb = self.truth(b, s, env, G2)        # may only repeat partial reads already made,
            for g in G2[len(G):]:                 # or make one that binds nothing (a size_t
                if (g.fail_pat, g.ok_pat) != ("false", "true"):      # subtraction): that one is
                    refuse(b, "partial read in the right operand of %s" % op)   # guarded by "the right
                # operand is evaluated": it fails only if the left operand does not decide the result
                G.append(Guard("%s || %s" % (opnd(ta) if op == "||" else "negb %s" % par(ta), opnd(g.scrut)),
                               "false", "true"))
            return "%s %s %s" % (opnd(ta), op, opnd(tb))
        if kind == "UnaryOperator" and op == "!":
            return "negb %s" % par(self.truth(node["inner"][0], s, env, G))
        if kind == "BinaryOperator" and op in ("==", "!=", "<", "<=", ">", ">="):
            return self.comparison(node, op, s, env, G)
        # a pointer used as a truth value: p  is  p != NULL
        idiom = self.var_null_idiom(node, None, "!=", s, env, G)
        if idiom is not None:
            return idiom
        opt = self.optional_string(node, s, env, G)
        if opt is not None:
            return "match %s with None => false | Some _ => true end" % opt
        e = self.ex(node, s, env, G)
        if e.kind in ("bool", "truth", "fnptr"):
            return e.term
        if e.kind in PTR_KINDS or e.kind in ("cmdptr", "cmdrecopt"):
            return "match %s with None => false | Some _ => true end" % e.term
        if e.kind == "int":
            return "true" if e.lit != 0 else "false"
        if e.kind == "nat":
            return "negb (%s =? 0)" % opnd(e.term)
        if e.kind == "Z":
            return "negb (%s =? 0)%%Z" % opnd(e.term)
        refuse(node, "a %s used as a truth value" % e.kind)

    def vars_nonempty_idiom(self, a, b, s, env, G):
        """(c->var != NULL) && (c->var_num > 0)  <->  c_vars c is not empty."""
        a, b = strip(a), strip(b)

        def member(n, name):
            while n.get("kind") in ("ImplicitCastExpr", "ParenExpr"):
                n = n["inner"][0]
            f = self.field_of(n)
            return f[2] if f and f[0] == "cmd" and f[1] == name else None
        if a.get("kind") == "BinaryOperator" and a.get("opcode") == "!=":
            al, ar = (strip(x) for x in a["inner"])
        else:
            al, ar = a, None                      # c->var as a truth value
        if b.get("kind") == "BinaryOperator" and b.get("opcode") in (">", "!="):
            bl, br = (strip(x) for x in b["inner"])
        else:
            bl, br = b, None                      # c->var_num as a truth value
        base_a, base_b = member(al, "var"), member(bl, "var_num")
        if base_a is None or base_b is None:
            return None
        try:
            if ar is not None and self.ex(ar, s, env, []).kind != "null":
                return None
            zero = self.ex(br, s, env, []) if br is not None else Ex("int", None, lit=0)
        except Unsupported:
            return None
        if zero.kind != "int" or zero.lit != 0:
            return None
        ca, cb = self.cmdrec_of(base_a, s, env, G), self.cmdrec_of(base_b, s, env, G)
        if ca != cb:
            return None
        return "match c_vars %s with [] => false | _ :: _ => true end" % par(ca)

    def var_null_idiom(self, a, b, op, s, env, G):
        """c->var == NULL / != NULL  <->  c_vars c is / is not empty (the model's descriptor has
        one list for var / var_num: var == NULL is identified with var_num == 0)."""
        if op not in ("==", "!="):
            return None
        for x, y in ((a, b), (b, a)) if b is not None else ((a, None),):
            m = strip_casts(x)
            f = self.field_of(m) if m.get("kind") == "MemberExpr" else None
            if f and f[0] == "cmd" and f[1] == "var" and self.local_kind(f[2], env)[0] in (None, "cmdrec"):
                try:
                    if y is not None and self.ex(y, s, env, []).kind != "null":
                        return None
                except Unsupported:
                    return None
                c = self.cmdrec_of(f[2], s, env, G)
                yes, no = ("true", "false") if op == "==" else ("false", "true")
                return "match c_vars %s with [] => %s | _ :: _ => %s end" % (par(c), yes, no)
        return None

    def comparison(self, node, op, s, env, G):
        a, b = node["inner"]
        idiom = self.var_null_idiom(a, b, op, s, env, G)
        if idiom is not None:
            return idiom
        if op in ("==", "!="):
            for x, y in ((a, b), (b, a)):
                opt = self.optional_string(x, s, env, G)
                if opt is not None:
                    if self.ex(y, s, env, []).kind != "null":
                        refuse(node, "an optional string compared with something else than NULL")
                    yes, no = ("true", "false") if op == "==" else ("false", "true")
                    return "match %s with None => %s | Some _ => %s end" % (opt, yes, no)
        ea, eb = self.ex(a, s, env, G), self.ex(b, s, env, G)
        neg = lambda t: "negb %s" % par(t)
        # pointers against NULL
        if "null" in (ea.kind, eb.kind):
            p = eb if ea.kind == "null" else ea
            if op not in ("==", "!=") or p.kind == "null":
                refuse(node, "pointer comparison other than == / != NULL")
            if p.kind == "fnptr":
                return p.term if op == "!=" else neg(p.term)
            if p.kind == "cmdptr" or p.kind in PTR_KINDS:
                yes, no = ("false", "true") if op == "!=" else ("true", "false")
                return "match %s with None => %s | Some _ => %s end" % (p.term, yes, no)
            refuse(node, "comparison of a %s with NULL" % p.kind)
        # _Bool / truth values against 0, false, true
        for x, y in ((ea, eb), (eb, ea)):
            if x.kind in ("bool", "truth") and y.kind == "int" and op in ("==", "!="):
                if y.lit == 0:
                    return neg(x.term) if op == "==" else x.term
                if y.lit == 1 and x.kind == "bool":
                    return x.term if op == "==" else neg(x.term)
                refuse(node, "truth value compared with %d" % y.lit)
        if {ea.kind, eb.kind} == {"cmdptr", "cmdidx"} and op in ("==", "!="):
            p, i = (ea, eb) if ea.kind == "cmdptr" else (eb, ea)      # a pointer against a non-NULL one
            t = "match %s with Some c => c =? %s | None => false end" % (p.term, opnd(i.term))
            return t if op == "==" else neg(t)
        if ea.kind == "cmdidx" and eb.kind == "cmdidx" and op in ("==", "!="):
            t = "(%s =? %s)" % (opnd(ea.term), opnd(eb.term))
            return t if op == "==" else neg(t)
        if ea.kind == "int" and eb.kind == "int":
            refuse(node, "comparison of two literals")
        if ea.kind == "int":
            ea = self.coerce(a, ea, eb.kind)
        if eb.kind == "int":
            eb = self.coerce(b, eb, ea.kind)
        if ea.kind != eb.kind:
            refuse(node, "comparison of a %s with a %s" % (ea.kind, eb.kind))
        k, ta, tb = ea.kind, par(ea.term), par(eb.term)
        if k not in BEQ and k != "bool":
            ta, tb = opnd(ea.term), opnd(eb.term)
        if k in BEQ and op in ("==", "!="):
            t = "%s %s %s" % (BEQ[k], ta, tb)
            return t if op == "==" else neg(t)
        if k == "nat":
            if op == "!=":
                return neg("%s =? %s" % (ta, tb))
            return "(%s)" % self.CMP_NAT[op].format(a=ta, b=tb)
        if k in ("Z", "mint"):
            if op == "!=":
                return neg("(%s =? %s)%%Z" % (ta, tb))
            return "(%s)%%Z" % self.CMP_NAT[op].format(a=ta, b=tb)
        if k in ("byte", "lane") and op in ("==", "!="):      # chars: no ordering (signedness)
            t = "(%s =? %s)%%N" % (ta, tb)
            return t if op == "==" else neg(t)
        if k == "bool" and op in ("==", "!="):
            t = "Bool.eqb %s %s" % (ta, tb)
            return t if op == "==" else neg(t)
        refuse(node, "comparison '%s' on %s" % (op, k))


# ======================================================================================
# 4. Statements (continuation-passing)
# ======================================================================================

def ind(text, n=2):
    pad = " " * n
    return "\n".join(pad + line if line else line for line in text.split("\n"))


class Cont:
    """What happens after a block: call(state term, env, fault) -> Coq text.  `fault` says that
    the block was left because a partial read failed (only the end of the function cares)."""

    def __init__(self, call):
        self.call = call


def is_assert(node):
    """The expansion of glibc's assert(e): a parenthesised comma expression whose right side
    calls __assert_fail.  Accepted (and ignored) only if `e` has no side effect."""
    n = strip(node)
    if n.get("kind") != "BinaryOperator" or n.get("opcode") != ",":
        return False
    calls = [c for c in walk(n) if c.get("kind") == "CallExpr"]
    if not calls or not all(
            (strip_casts(c["inner"][0]).get("referencedDecl", {}).get("name") == "__assert_fail")
            for c in calls):
        return False
    for c in walk(n):
        if c.get("kind") == "UnaryOperator" and c.get("opcode") in ("++", "--"):
            return False
        if c.get("kind") == "CompoundAssignOperator" or \
                (c.get("kind") == "BinaryOperator" and c.get("opcode") == "="):
            return False
    return True


def strip_casts(node):
    while node.get("kind") in ("ImplicitCastExpr", "ParenExpr", "CStyleCastExpr"):
        node = node["inner"][0]
    return node


def local_reads(nodes):
    """ids of the local variables referenced in the given statements."""
    out = set()
    for n in nodes:
        for c in walk(n):
            if c.get("kind") == "DeclRefExpr" and c.get("referencedDecl", {}).get("kind") == "VarDecl":
                out.add(c["referencedDecl"]["id"])
    return out


def var_reads(nodes):
    """ids of the local variables AND parameters referenced in the given statements."""
    out = set()
    for n in nodes:
        for c in walk(n):
            if c.get("kind") == "DeclRefExpr" and \
                    c.get("referencedDecl", {}).get("kind") in ("VarDecl", "ParmVarDecl"):
                out.add(c["referencedDecl"]["id"])
    return out


def local_writes(nodes):
    """ids of the local variables assigned in the given statements."""
    out = set()
    for n in nodes:
        for c in walk(n):
            if c.get("kind") in ("BinaryOperator", "CompoundAssignOperator") and \
                    (c.get("opcode") == "=" or c.get("kind") == "CompoundAssignOperator"):
                tgt = strip(c["inner"][0])
                if tgt.get("kind") == "UnaryOperator" and tgt.get("opcode") == "*":
                    tgt = strip_casts(tgt["inner"][0])          # *p = e on an out-parameter
                if tgt.get("kind") == "DeclRefExpr":
                    out.add(tgt.get("referencedDecl", {}).get("id"))
            if c.get("kind") == "UnaryOperator" and c.get("opcode") in ("++", "--"):
                tgt = strip(c["inner"][0])
                if tgt.get("kind") == "DeclRefExpr":
                    out.add(tgt.get("referencedDecl", {}).get("id"))
            if c.get("kind") == "CallExpr" and len(c.get("inner", [])) == 3 and \
                    strip_casts(c["inner"][0]).get("referencedDecl", {}).get("name") == "strcpy":
                tgt = strip_casts(c["inner"][1])            # strcpy(local array, ..)
                if tgt.get("kind") == "DeclRefExpr":
                    out.add(tgt.get("referencedDecl", {}).get("id"))
    return out


class StatementTranslator(FunctionTranslator):

    # ---- results ------------------------------------------------------------------------------------
    def result(self, node, s, env, G, value_node):
        """Coq term for `return value_node;` in state s."""
        if self.table is not None:               # inside a constant table: the arm answers None
            if self.table["ret"] is not None and \
                    self.value(self.table["ret"]["inner"][0], self.ret_kind, s, env, []) != \
                    self.value(value_node, self.ret_kind, s, env, []):
                refuse(node, "the arms of a constant table return different values")
            self.table["ret"] = self.table["ret"] or node
            return "(@None (list N))"
        if self.mode == "void":
            if value_node is not None:
                refuse(node, "return with a value in a void function")
            return s
        if value_node is None:
            refuse(node, "return without a value")
        if self.mode == "const":
            return s                                    # the value was checked by find_mode()
        if self.mode == "opt" and self.ret_kind == "hcall":
            # a wrapper around a handler call: `return <the call>;` answers the call; any other
            # return (no handler is called) answers None
            v = strip_casts(value_node)
            if v.get("kind") == "CallExpr":
                term, is_opt = self.handler_call_term(v, s, env, G)
                if is_opt:
                    refuse(node, "a wrapper that calls a wrapper")
                return "Some (%s)" % term
            return "(@None hcall)"
        if self.mode == "opt" and self.ret_kind in PTR_KINDS + ("varidx",):
            e = self.ex(value_node, s, env, G)
            if e.kind == "null":
                return self.none()
            if e.kind != self.ret_kind:
                refuse(node, "the returned pointer is a %s, the mapping table says %s"
                       % (e.kind, self.ret_kind))
            return e.term if e.kind in PTR_KINDS else "Some %s" % par(e.term)
        if self.mode == "opt" and self.ret_kind in ("cmdrecopt", "cmdptr"):
            call = strip_casts(value_node)
            if call.get("kind") == "CallExpr" and self.callee_name(call) in POINTER_VALUE_HELPERS \
                    and POINTER_VALUE_HELPERS[self.callee_name(call)][0] == self.ret_kind:
                name = self.callee_name(call)
                _, tmpl, kinds = POINTER_VALUE_HELPERS[name]
                return tmpl.format(*self.call_args(call, name, kinds, s, env, G), s=s)
            e = self.ex(value_node, s, env, G)
            if e.kind == "null":
                return self.none()
            if e.kind != self.ret_kind:
                refuse(node, "the returned pointer is not one the mapping table knows")
            return e.term
        if self.mode == "opt":
            return "Some %s" % par(self.value(value_node, self.ret_kind, s, env, G))
        return "(%s)" % ", ".join(self.ask(env) + [s, self.value(value_node, self.ret_kind, s, env, G)]
                                   + self.outs(env))

    def ask(self, env):
        """Oracle functions: the request made so far is the first component of every result."""
        return [env[ASK_ID][0]] if self.oracle is not None else []

    def none(self):
        """None at the result type of a pure function (explicit: it may be all a branch says)."""
        inner = {"cmdrecopt": "cmd", "cmdptr": "nat", "bufptr": "bufptr",
                 "strptr": "strptr"}.get(self.ret_kind) or COQ_TYPE[self.ret_kind]
        return "(@None %s)" % inner

    def outs(self, env):
        """Current values of the out-parameters: Some v / None (not written)."""
        return ["Some %s" % par(env[i][0]) if env[i][0] is not None else "None" for i in self.out_ids]

    FAULT_VALUE = {"Z": "fault_status", "bool": "false"}

    def function_end(self):
        def call(st, env, fault=False):
            if self.mode == "void" or (fault and self.mode == "const"):
                return st
            if fault and self.mode == "opt":
                return self.none()
            if fault and self.mode == "pair" and self.ret_kind in self.FAULT_VALUE:
                # outside the verified envelope: the flag is set, the value is a fixed default
                return "(%s)" % ", ".join(self.ask(env) + [st, self.FAULT_VALUE[self.ret_kind]]
                                           + self.outs(env))
            if fault:
                raise Unsupported("partial read at the top level of a function whose "
                                  "returned status varies")
            raise Unsupported("control can reach the end of a non-void function")
        return Cont(call)

    def fault(self, kb, s, env):
        if self.table is not None:
            raise Unsupported("partial read inside a constant table")
        if self.mode == "opt":             # a pure function: the partial read makes it answer None
            return self.none()
        st = "(set_fault_flag %s)" % s
        self.origin[st] = self.origin.get(s, (None, False))
        return kb.call(st, env, True)

    def wrap(self, G, body, kb, s, env):
        """Put the guards collected while translating one statement around it + rest of block."""
        for g in reversed(G):
            body = "match %s with\n| %s => %s\n| %s =>\n%s\nend" % (
                g.scrut, g.fail_pat, self.fault(kb, s, env), g.ok_pat, ind(body))
        return self.budget(body)

    # ---- continuations -----------------------------------------------------------------------------
    def make_cont(self, stmt, rest, env, kb, kbrk, later):
        """Continuation for `rest` (the statements after `stmt` in its block), bound once by a
        `let`.  -> (let-text or '', Cont).  Locals assigned inside stmt and read afterwards
        become parameters."""
        if not rest:
            return "", kb
        need = (local_reads(rest) | later) & (local_writes([stmt]) - self.uns_alias_ids) & set(env)
        if self.oracle is not None and self.has_oracle_site(stmt):
            need = need | {ASK_ID}             # the statement may make the request
        params = sorted(need, key=lambda i: str(env[i][0] or "") + i)
        name, sN = self.fresh("kont"), self.fresh("s")
        inner_env, binders = dict(env), ["(%s : state)" % sN]
        for i in params:
            pname = self.fresh("x_" + self.local_names[i], True)
            inner_env[i] = (pname, env[i][1])
            if env[i][0] in self.optional_names:
                self.optional_names.add(pname)
                binders.append("(%s : option %s)" % (pname, par(COQ_TYPE[env[i][1]])))
            else:
                binders.append("(%s : %s)" % (pname, COQ_TYPE[env[i][1]]))
        self.origin[sN] = (name, True)
        text = self.block(rest, sN, inner_env, kb, kbrk, later)
        if text == sN and not params:              # nothing left to do: no continuation needed
            return "", Cont(lambda st, e, fault=False: st)
        let = "let %s := fun %s =>\n%s in\n" % (name, " ".join(binders), ind(text, 4))
        hoisted = None
        if self.oracle is not None and stmt.get("kind") == "SwitchStmt" and kb is self.top_kb \
                and sum(1 for c in walk(stmt) if c.get("kind") == "CaseStmt") >= 4:
            hoisted = self.hoist(text, env, binders)
        if hoisted is not None:
            # (the arms of the switch all end here: as a definition of its own the continuation is
            #  tied once, and the tie of the function does not unfold it in every arm)
            let, hname, hargs = "", hoisted[0], hoisted[1]

        def call(st, e, fault=False):
            if hoisted is not None:
                vals = []
                for i in params:
                    if e.get(i, (None,))[0] is None:
                        raise Unsupported("local '%s' may be used uninitialised" % self.local_names[i])
                    vals.append(par(e[i][0]))
                return " ".join([hname] + hargs + [par(st)] + vals)
            if name in self.kont_needs:            # its body reads self->cmd->..: see cmdrec_of
                root, same = self.origin.get(st, (None, False))
                if not same:
                    raise Unsupported("self->cmd is dereferenced after a point that is reached "
                                      "after a helper call (it may have changed)")
                if root != "init":
                    self.kont_needs.add(root)
            vals = []
            for i in params:
                if e.get(i, (None,))[0] is None:
                    raise Unsupported("local '%s' may be used uninitialised" % self.local_names[i])
                vals.append(par(e[i][0]))
            return " ".join([name, par(st)] + vals)
        return let, Cont(call)

    def hoist(self, text, env, binders):
        """Closure conversion of a continuation (text = its body, binders = its own parameters): a
        Definition g_<f>_kN whose extra parameters are the names of the enclosing scope that the
        body mentions.  -> (name, arguments at a call) or None (the body mentions a name that is
        bound by an enclosing match / let: not hoisted)."""
        own = set(re.findall(r"\((\S+) :", " ".join(binders)))
        bound = set(re.findall(r"let '?\(?([\w']+)", text)) | set(re.findall(r"fun \((\S+) :", text)) \
            | set(re.findall(r"Some ([\w']+) =>", text)) | own
        for m in re.finditer(r"let '\(([^)]*)\)", text):
            bound |= set(x.strip() for x in m.group(1).split(","))
        for m in re.finditer(r"fun ((?:\([^)]*\)\s*)+)=>", text):
            bound |= set(re.findall(r"\((\S+) :", m.group(1)))
        words = set(re.findall(r"[A-Za-z_][\w']*", text))
        extra, args = [], []
        scope = {}
        for i, (nm, kd) in env.items():
            if nm is not None and re.fullmatch(r"[\w']+", nm):
                scope[nm] = "option %s" % par(COQ_TYPE[kd]) if nm in self.optional_names else COQ_TYPE[kd]
        for w in sorted(words - bound):
            if w in scope:
                extra.append("(%s : %s)" % (w, scope[w]))
                args.append(w)
            elif re.fullmatch(r"kont\d+|t\d+|o\d+|r\d+|s\d*|ask\d+|e\d+|l\d+|n\d+", w):
                return None                  # a name of an enclosing scope that is not a C local
        pre = ["(D : desc)"]
        head = ["D"]
        for w, ty in (("ch", "N"), ("code", "Z"), ("ans", self.oracle[1] if self.oracle else "Z"),
                      ("env", "cb_effect"), ("c", "cmd")):
            if w in words - bound and w not in scope:
                pre.append("(%s : %s)" % (w, ty))
                head.append(w)
        n = self.fresh("k")[1:]
        hname = "g_%s_k%s" % (self.gname_base, n)
        self.pre_defs.append("Definition %s %s : %s :=\n%s.\n" % (
            hname, " ".join(pre + extra + binders), self.rtype_text, ind(text)))
        return hname, head[1:] and ["D"] + head[1:] + args or ["D"] + args

    # ---- blocks -----------------------------------------------------------------------------------
    def block(self, items, s, env, kb, kbrk, later):
        """Coq term for executing the statement list `items` in state s, then kb."""
        if not items:
            return kb.call(s, env, False)
        S, rest = items[0], items[1:]
        kind = S.get("kind")
        G, env0 = [], env          # guards of S; the environment before S (for the fault exits)

        if kind == "NullStmt" or is_assert(S) or self.is_void_cast(S):
            return self.block(rest, s, env, kb, kbrk, later)

        if kind == "CompoundStmt":
            let, kc = self.make_cont(S, rest, env, kb, kbrk, later)
            return let + self.block(S.get("inner", []), s, env, kc, kbrk,
                                    later | local_reads(rest))

        if kind == "ReturnStmt":
            v = S["inner"][0] if S.get("inner") else None
            body = self.result(S, s, env, G, v)
            return self.wrap(G, body, kb, s, env0)

        if kind == "BreakStmt":
            if kbrk is None:
                refuse(S, "break outside a switch / a loop")
            return kbrk.call(s, env, False)

        if kind == "ContinueStmt":
            if self.loop_continue is None:
                refuse(S, "continue outside a loop")
            return self.loop_continue.call(s, env, False)

        if kind == "ForStmt":
            return self.for_loop(S, rest, s, env, kb, later)

        if kind == "WhileStmt":
            return self.while_loop(S, rest, s, env, kb, later)

        if kind == "DoStmt":
            refuse(S, "do loop (only `for (i = 0; i < N; i++)` over a mapped array and "
                      "`while (n > 0 ..) { .. --n; .. }` are supported)")

        if kind == "IfStmt":
            if S.get("hasInit") or S.get("hasVar") or len(S.get("inner", [])) not in (2, 3):
                refuse(S, "if statement with initialiser/declaration")
            if self.is_merged_condition(S["inner"][0]):
                return self.split_if(S, rest, s, env, kb, kbrk, later)
            pre, s1, c, env = self.condition(S["inner"][0], s, env, G)
            self.check_pure(S, s, s1)
            let, kc = self.make_cont(S, rest, env, kb, kbrk, later)
            later2 = later | local_reads(rest)
            t = self.block([S["inner"][1]], s1, env, kc, kbrk, later2)
            e = self.block([S["inner"][2]] if len(S["inner"]) == 3 else [], s1, env, kc, kbrk, later2)
            # (what the condition runs first is bound before the continuation: the continuation may
            #  use the out-values of a call made in the condition)
            body = "%s%sif %s then\n%s\nelse\n%s" % (pre, let, c, ind(t), ind(e))
            return self.wrap(G, body, kb, s, env0)

        if kind == "SwitchStmt":
            if self.table is None and self.table_target(S) is not None:
                return self.table_switch(S, rest, s, env, kb, kbrk, later)
            return self.switch(S, rest, s, env, kb, kbrk, later)

        if kind == "DeclStmt":
            lets = []
            for d in S.get("inner", []):
                if self.getter is not None and d.get("kind") == "VarDecl" and \
                        d.get("storageClass") == "static":
                    env = dict(env)
                    env[d["id"]] = (self.static_literal(d), "strptr")
                    self.local_names[d["id"]] = d.get("name", "anon")
                    continue
                if d.get("kind") != "VarDecl" or d.get("storageClass"):
                    refuse(d, "declaration other than a plain local variable")
                self.local_names[d["id"]] = d.get("name", "anon")
                if d["id"] in self.uns_alias_ids:       # only ever &self->unsolicited_fsm: see field_of
                    continue
                k = self.kind_of_type(d)
                if not d.get("inner"):
                    env = dict(env)
                    env[d["id"]] = (None, k)
                    continue
                if d.get("init") != "c" or len(d["inner"]) != 1:
                    refuse(d, "local declaration other than `T x = e;`")
                if d["id"] not in self.written_locals and self.constant_local(d):
                    continue
                call = strip_casts(d["inner"][0])
                if call.get("kind") == "CallExpr" and self.is_stateful_callee(call):
                    # T x = f(self, ..);  f returns a status and may modify *self
                    text, s1, val, env1 = self.stateful_call(call, s, env, G)
                    self.check_pure(S, s, s1)
                    env, t2 = self.bind_local_ex(d["id"], k, self.coerce(d["inner"][0], val, k), env1)
                    lets.append(text + t2)
                    s = s1
                    continue
                env, text = self.bind_local(d, d["id"], k, d["inner"][0], s, env, G)
                lets.append(text)
            body = "".join(lets) + self.block(rest, s, env, kb, kbrk, later)
            return self.wrap(G, body, kb, s, env0)

        # expression statements
        text, s2, env2 = self.effect(S, s, env, G)
        self.check_pure(S, s, s2)
        after = self.block(rest, s2, env2, kb, kbrk, later)
        m = re.fullmatch(r"let (\w+) := (.*) in\n", text)
        if m and m.group(1) == after:              # `let s2 := e in s2` is just `e`
            body = m.group(2)
        else:
            body = text + after
        return self.wrap(G, body, kb, s, env0)

    # ---- merged conditions:  if (A || B) T else E  with calls that may modify *self in A / B ------
    def is_merged_condition(self, cond):
        """cond = A && B / A || B / !(..) of those, in which a helper that returns a status AND may
        modify *self is called (print_string_to_buf(..) != 0 || ..): C evaluates it left to right
        and stops as soon as the result is known."""
        n = strip(cond)
        while n.get("kind") == "UnaryOperator" and n.get("opcode") == "!":
            n = strip(n["inner"][0])
        if not (n.get("kind") == "BinaryOperator" and n.get("opcode") in ("&&", "||")):
            return False
        if self.has_oracle_site(n):
            return False                  # `(A) && (CALL CMP literal)`: see oracle_condition
        return any(c.get("kind") == "CallExpr" and self.is_stateful_callee(c) for c in walk(n))

    def split_if(self, S, rest, s, env, kb, kbrk, later):
        """if (A || B) T else E   is   if (A) T else if (B) T else E,
        if (A && B) T else E   is   if (A) { if (B) T else E } else E,   if (!A) T else E  is  if (A) E else T
        with T and E bound once, as continuations (so the merged form generates what the nested ifs
        with identical bodies generate)."""
        if S.get("hasInit") or S.get("hasVar") or len(S.get("inner", [])) not in (2, 3):
            refuse(S, "if statement with initialiser/declaration")
        cond = S["inner"][0]
        if local_writes([cond]):
            refuse(cond, "a local variable is assigned inside a merged condition")
        let, kc = self.make_cont(S, rest, env, kb, kbrk, later)
        later2 = later | local_reads(rest)
        let_t, k_then = self.make_cont(cond, [S["inner"][1]], env, kc, kbrk, later2)
        let_e, k_else = self.make_cont(cond, [S["inner"][2]] if len(S["inner"]) == 3 else [], env, kc,
                                       kbrk, later2)
        env_in = env

        def branch(n, st, kt, ke):
            n = strip(n)
            if n.get("kind") == "UnaryOperator" and n.get("opcode") == "!" and self.is_merged_condition(n):
                return branch(n["inner"][0], st, ke, kt)
            if n.get("kind") == "BinaryOperator" and n.get("opcode") in ("&&", "||") \
                    and self.is_merged_condition(n):
                a, b = n["inner"]
                if n["opcode"] == "||":
                    return branch(a, st, kt, Cont(lambda s2, e2, fault=False: branch(b, s2, kt, ke)))
                return branch(a, st, Cont(lambda s2, e2, fault=False: branch(b, s2, kt, ke)), ke)
            G = []
            pre, s1, c, env1 = self.condition(n, st, env_in, G)
            if {k: v for k, v in env1.items() if k != ASK_ID} != {k: v for k, v in env_in.items() if k != ASK_ID}:
                refuse(n, "a local variable is assigned inside a merged condition")
            self.check_pure(S, st, s1)
            body = "%sif %s then\n%s\nelse\n%s" % (pre, c, ind(kt.call(s1, env_in, False)),
                                                    ind(ke.call(s1, env_in, False)))
            return self.wrap(G, body, kb, st, env_in)
        return self.budget(let + let_t + let_e + branch(cond, s, k_then, k_else))

    def check_pure(self, node, s_before, s_after):
        if s_before != s_after and self.table is not None:
            refuse(node, "a constant table modifies *self")
        if s_before != s_after:
            self.pure = False
            if self.mode == "opt":
                refuse(node, "a function translated as a pure function modifies *self")

    # ---- constant tables ---------------------------------------------------------------------------
    def table_target(self, S):
        """S is a switch every arm of which is `strcpy(x, "LIT"); break;`, such a switch followed by
        break, or `return <constant>;`, for one local string buffer x -> the clang id of x; else None.
        Such a switch is a constant TABLE: it is generated as a definition of its own,
        g_f_tabK .. : option (list N) (None: an arm that returns), so that it is tied separately
        from the statements that use x."""
        target = [None]

        def arm_ok(stmts):
            if len(stmts) == 1 and stmts[0].get("kind") == "ReturnStmt" and stmts[0].get("inner"):
                v = strip_casts(stmts[0]["inner"][0])
                if v.get("kind") == "UnaryOperator" and v.get("opcode") == "-":
                    v = strip_casts(v["inner"][0])
                return v.get("kind") == "IntegerLiteral"
            if len(stmts) != 2 or stmts[1].get("kind") != "BreakStmt":
                return False
            n = strip(stmts[0])
            if n.get("kind") == "SwitchStmt":
                return switch_ok(n)
            if n.get("kind") == "CallExpr" and self.callee_name(n) == "strcpy" and len(n["inner"]) == 3:
                d = strip_casts(n["inner"][1])
                did = d.get("referencedDecl", {}).get("id") if d.get("kind") == "DeclRefExpr" else None
                if did is None or strip_casts(n["inner"][2]).get("kind") != "StringLiteral":
                    return False
                if target[0] is None:
                    target[0] = did
                return target[0] == did
            return False

        def switch_ok(sw):
            if len(sw.get("inner", [])) != 2 or sw["inner"][1].get("kind") != "CompoundStmt":
                return False
            arms, cur = [], None
            for item in sw["inner"][1].get("inner", []):
                labelled = False
                while item.get("kind") in ("CaseStmt", "DefaultStmt"):
                    labelled, item = True, item["inner"][-1]
                if labelled:
                    cur = []
                    arms.append(cur)
                elif cur is None:
                    return False
                cur.append(item)
            return bool(arms) and all(arm_ok(a) for a in arms)
        return target[0] if switch_ok(S) and target[0] is not None else None

    def table_switch(self, S, rest, s, env, kb, kbrk, later):
        did = self.table_target(S)
        if did not in env or env[did][1] != "str":
            refuse(S, "table over something that is not a local string buffer")
        used = [i for i in env if i in var_reads([S]) and i != did and env[i][0] is not None
                and re.fullmatch(r"[\w']+", env[i][0])]
        n = self.fresh("tab")[3:]
        name = "g_%s_tab%s" % (self.gname_base, n)
        self.table = {"target": did, "ret": None}
        try:
            text = self.switch(S, [], s, env,
                               Cont(lambda st, e, fault=False: "Some %s" % par(e[did][0])), None, {did})
        finally:
            table, self.table = self.table, None
        if s != "s":
            text = re.sub(r"\b%s\b" % re.escape(s), "s", text)     # the state is the parameter s
        self.pre_defs.append("Definition %s %s : option (list N) :=\n%s.\n" % (
            name, " ".join(["(D : desc)"] + ["(%s : %s)" % (env[i][0], COQ_TYPE[env[i][1]]) for i in used]
                           + ["(s : state)"]), ind(text)))
        x = self.fresh("x_" + self.local_names[did], True)
        env2 = dict(env)
        env2[did] = (x, "str")
        G = []
        none = self.result(table["ret"], s, env, G, table["ret"]["inner"][0]) if table["ret"] \
            else self.fault(kb, s, env)
        body = self.block(rest, s, env2, kb, kbrk, later)
        call = " ".join([name, "D"] + [par(env[i][0]) for i in used] + [s])
        return self.wrap(G, "match %s with\n| None => %s\n| Some %s =>\n%s\nend" % (call, none, x, ind(body)),
                         kb, s, env)

    # ---- for loops over a mapped array ------------------------------------------------------------
    def for_loop(self, S, rest, s, env, kb, later):
        """for (i = 0; i < N; i++) BODY; REST   in a pure function, at the top level of its body:

            Definition g_f_afterK D <vars> s : R := REST
            Fixpoint   g_f_loopK D <vars not assigned in BODY> s (l : list E) <vars assigned in BODY> : R :=
              match l with [] => g_f_afterK .. | e :: l' => BODY end
          where, in BODY, ARRAY[i] is e, `continue` and the end of BODY call g_f_loopK on l',
          `break` calls g_f_afterK, `return` answers.  The statement itself becomes the call of
          g_f_loopK on the model list."""
        if self.mode != "opt":
            refuse(S, "loop in a function that is not translated as a pure function")
        if self.loop is not None:
            refuse(S, "nested loops")
        if kb is not self.top_kb:
            refuse(S, "loop that is not at the top level of the function body")
        parts = S.get("inner", [])
        if len(parts) != 5 or parts[1]:
            refuse(S, "for statement with a condition variable / unexpected shape")
        init, _, cond, inc, body = parts
        # i = 0
        init = strip(init) if init else {}
        idx_id = None
        if init.get("kind") == "BinaryOperator" and init.get("opcode") == "=":
            tgt, zero = strip(init["inner"][0]), strip_casts(init["inner"][1])
            if tgt.get("kind") == "DeclRefExpr" and zero.get("kind") == "IntegerLiteral" \
                    and zero.get("value") == "0":
                idx_id = tgt.get("referencedDecl", {}).get("id")
        if idx_id is None or idx_id not in env or env[idx_id][1] != "nat":
            refuse(S, "the loop does not start with `i = 0` on a size_t local")
        # i++
        inc = strip(inc) if inc else {}
        if not (inc.get("kind") == "UnaryOperator" and inc.get("opcode") == "++" and
                strip(inc["inner"][0]).get("referencedDecl", {}).get("id") == idx_id):
            refuse(S, "the loop does not step with `i++`")
        # i < N
        cond = strip(cond) if cond else {}
        ok = cond.get("kind") == "BinaryOperator" and cond.get("opcode") == "<"
        if ok:
            lhs, bound = strip_casts(cond["inner"][0]), strip_casts(cond["inner"][1])
            ok = lhs.get("kind") == "DeclRefExpr" and lhs.get("referencedDecl", {}).get("id") == idx_id
        if not ok:
            refuse(S, "the loop condition is not `i < N`")
        loop = {"index_id": idx_id}
        if self.is_desc_member(bound, "cmd_group_num"):
            loop.update(kind="grp", list="enum_groups (d_groups D) 0 0",
                        shape="self->desc->cmd_group[i]",
                        is_array=lambda b: self.is_desc_member(b, "cmd_group"))
        else:
            f = self.field_of(bound) if bound.get("kind") == "MemberExpr" else None
            if not (f and f[0] == "cmd" and f[1] == "var_num"):
                refuse(S, "the loop bound is not the length of a mapped array")
            c = self.cmdrec_of(f[2], s, env, [])
            base_id = strip_casts(f[2]).get("referencedDecl", {}).get("id")

            def is_var_array(b):
                fb = self.field_of(b) if b.get("kind") == "MemberExpr" else None
                return bool(fb and fb[0] == "cmd" and fb[1] == "var" and
                            strip_casts(fb[2]).get("referencedDecl", {}).get("id") == base_id
                            and base_id is not None)
            loop.update(kind="varrec", list="c_vars %s" % par(c), shape="c->var[i]",
                        is_array=is_var_array)
        body_items = body.get("inner", []) if body.get("kind") == "CompoundStmt" else [body]
        written = local_writes(body_items) - self.uns_alias_ids
        if idx_id in written or any(
                c.get("kind") == "UnaryOperator" and c.get("opcode") in ("++", "--") and
                strip(c["inner"][0]).get("referencedDecl", {}).get("id") == idx_id
                for b in body_items for c in walk(b)):
            refuse(S, "the loop index is modified in the loop body")
        after_reads = local_reads(rest) | later
        if idx_id in after_reads:
            refuse(S, "the loop index is read after the loop")
        pointer_kinds = ("cmdrec", "grp", "varrec", "ringref")
        carried = [i for i in env if i in written and env[i][1] not in pointer_kinds]
        for i in written:
            if i in env and env[i][1] in pointer_kinds and i in after_reads:
                refuse(S, "a pointer assigned in the loop is used after it")
        for i in carried:
            if env[i][0] is None:
                refuse(S, "local '%s' is assigned in the loop before it has a value"
                       % self.local_names.get(i, "?"))
        used = var_reads(body_items) | var_reads(rest) | after_reads
        fixed = [i for i in env if i in used and i not in carried and i != idx_id
                 and env[i][0] is not None and re.fullmatch(r"[\w']+", env[i][0])]
        n = self.fresh("loop")[4:]
        base = "g_%s" % self.gname_base
        rtype = self.rtype_text
        self.loop_sig = "loop=" + ",".join(env[i][1] for i in carried)

        def binder(i, e):
            return "(%s : %s)" % (e[i][0], COQ_TYPE[e[i][1]])

        def args(e, ids):
            out = []
            for i in ids:
                if e.get(i, (None,))[0] is None:
                    raise Unsupported("local '%s' may be used uninitialised" % self.local_names.get(i, "?"))
                out.append(par(e[i][0]))
            return out
        # REST
        after_name = "%s_after%s" % (base, n)
        self.origin["s"] = ("init", True)
        after_text = self.block(rest, "s", env, kb, None, later)
        self.pre_defs.append("Definition %s %s : %s :=\n%s.\n" % (
            after_name, " ".join(["(D : desc)"] + [binder(i, env) for i in fixed] + ["(s : state)"] +
                                 [binder(i, env) for i in carried]), rtype, ind(after_text)))

        def call_after(st, e, fault=False):
            return " ".join([after_name, "D"] + args(e, fixed) + [par(st)] + args(e, carried))
        # BODY
        loop_name, elem, tail = "%s_loop%s" % (base, n), self.fresh("e"), self.fresh("l")
        loop["elem"] = elem

        def call_loop(st, e, fault=False):
            return " ".join([loop_name, "D"] + args(e, fixed) + [par(st), tail] + args(e, carried))
        self.loop, saved = loop, self.loop_continue
        self.loop_continue = Cont(call_loop)
        try:
            body_text = self.block(body_items, "s", env, self.loop_continue, Cont(call_after),
                                   after_reads | set(carried))
        finally:
            self.loop, self.loop_continue = None, saved
        self.pre_defs.append(
            "Fixpoint %s %s {struct l} : %s :=\n  match l with\n  | [] => %s\n  | %s :: %s =>\n%s\n  end.\n" % (
                loop_name,
                " ".join(["(D : desc)"] + [binder(i, env) for i in fixed] + ["(s : state)",
                         "(l : list %s)" % COQ_TYPE[loop["kind"]]] + [binder(i, env) for i in carried]),
                rtype, call_after("s", env), elem, tail, ind(body_text, 4)))
        return " ".join([loop_name, "D"] + args(env, fixed) + [par(s), par(loop["list"])] +
                        args(env, carried))

    def while_loop(self, S, rest, s, env, kb, later):
        """while ((n > 0) && C) { BODY with exactly one top-level `--n;` }  REST   in a pure function,
        at the top level of its body (a COUNTDOWN loop): a structural recursion on n.

            Definition g_f_afterK D <vars> s n <assigned vars> : R := REST
            Fixpoint   g_f_loopK D <vars> s (n : nat) <assigned vars> : R :=
              match n with O => g_f_afterK .. 0 .. | S n' => if C then BODY else g_f_afterK .. (S n') .. end
          in BODY n is S n' before `--n` and n' after it; the end of BODY calls g_f_loopK on n'."""
        if self.mode != "opt":
            refuse(S, "loop in a function that is not translated as a pure function")
        if self.loop is not None:
            refuse(S, "nested loops")
        if kb is not self.top_kb:
            refuse(S, "loop that is not at the top level of the function body")
        parts = [x for x in S.get("inner", [])]
        if len(parts) != 2:
            refuse(S, "while statement with a condition variable")
        cond, body = strip(parts[0]), parts[1]

        def positive(c):
            """c = `n > 0` / `n != 0` on a size_t local -> its id."""
            c = strip(c)
            if c.get("kind") == "BinaryOperator" and c.get("opcode") in (">", "!="):
                a, z = strip_casts(c["inner"][0]), strip_casts(c["inner"][1])
                if a.get("kind") == "DeclRefExpr" and z.get("kind") == "IntegerLiteral" and z.get("value") == "0":
                    did = a.get("referencedDecl", {}).get("id")
                    if did in env and env[did][1] == "nat":
                        return did
            return None
        rest_cond = None
        cid = positive(cond)
        if cid is None and cond.get("kind") == "BinaryOperator" and cond.get("opcode") == "&&":
            cid, rest_cond = positive(cond["inner"][0]), cond["inner"][1]
        if cid is None or env[cid][0] is None:
            refuse(S, "the loop condition is not `(n > 0) && ..` on a size_t local")
        body_items = body.get("inner", []) if body.get("kind") == "CompoundStmt" else [body]

        def is_dec(i):
            i = strip(i)
            return i.get("kind") == "UnaryOperator" and i.get("opcode") == "--" and \
                strip(i["inner"][0]).get("referencedDecl", {}).get("id") == cid
        decs = [i for i in body_items if is_dec(i)]
        others = [i for i in body_items if not is_dec(i)]
        if len(decs) != 1 or cid in local_writes(others):
            refuse(S, "the loop body does not decrement its counter exactly once, at its top level")
        if any(c.get("kind") == "ContinueStmt" for i in body_items for c in walk(i)):
            refuse(S, "continue in a countdown loop")
        if rest_cond is not None and cid in local_writes([rest_cond]):
            refuse(S, "the loop condition modifies the counter")
        written = local_writes(body_items) - self.uns_alias_ids
        after_reads = local_reads(rest) | later
        pointer_kinds = ("cmdrec", "grp", "varrec", "ringref")
        carried = [i for i in env if i in written and i != cid and env[i][1] not in pointer_kinds]
        for i in written:
            if i in env and env[i][1] in pointer_kinds and i in after_reads:
                refuse(S, "a pointer assigned in the loop is used after it")
        for i in carried:
            if env[i][0] is None:
                refuse(S, "local '%s' is assigned in the loop before it has a value"
                       % self.local_names.get(i, "?"))
        used = var_reads(body_items) | var_reads(rest) | after_reads | \
            (var_reads([rest_cond]) if rest_cond is not None else set())
        fixed = [i for i in env if i in used and i not in carried and i != cid
                 and env[i][0] is not None and re.fullmatch(r"[\w']+", env[i][0])]
        n = self.fresh("loop")[4:]
        base, rtype = "g_%s" % self.gname_base, self.rtype_text
        self.loop_sig = "wloop=" + ",".join(env[i][1] for i in carried)
        cname = "x_" + self.local_names[cid]
        pred = self.fresh("n")

        def binder(i, e):
            return "(%s : %s)" % (e[i][0], COQ_TYPE[e[i][1]])

        def args(e, ids):
            out = []
            for i in ids:
                if e.get(i, (None,))[0] is None:
                    raise Unsupported("local '%s' may be used uninitialised" % self.local_names.get(i, "?"))
                out.append(par(e[i][0]))
            return out
        after_name, loop_name = "%s_after%s" % (base, n), "%s_loop%s" % (base, n)
        env_def = dict(env)
        env_def[cid] = (cname, "nat")
        self.origin["s"] = ("init", True)
        after_text = self.block(rest, "s", env_def, kb, None, later)
        self.pre_defs.append("Definition %s %s : %s :=\n%s.\n" % (
            after_name, " ".join(["(D : desc)"] + [binder(i, env) for i in fixed] +
                                 ["(s : state)", "(%s : nat)" % cname] + [binder(i, env) for i in carried]),
            rtype, ind(after_text)))

        def call_after(st, e, fault=False):
            return " ".join([after_name, "D"] + args(e, fixed) + [par(st)] + args(e, [cid]) + args(e, carried))

        def call_loop(st, e, fault=False):
            if e[cid][0] != pred:
                raise Unsupported("the loop counter is not decremented on every path through the body")
            return " ".join([loop_name, "D"] + args(e, fixed) + [par(st), pred] + args(e, carried))
        env_body = dict(env)
        env_body[cid] = ("(S %s)" % pred, "nat")
        self.loop = {"index_id": None, "is_array": lambda b: False, "kind": None, "elem": None,
                     "shape": "", "count_id": cid, "count_succ": "(S %s)" % pred, "count_pred": pred}
        saved, self.loop_continue = self.loop_continue, None
        try:
            G = []
            c_text = self.truth(rest_cond, "s", env_body, G) if rest_cond is not None else None
            if G:
                refuse(S, "partial read in the loop condition")
            body_text = self.block(body_items, "s", env_body, Cont(call_loop), Cont(call_after),
                                   after_reads | set(carried) | {cid})
        finally:
            self.loop, self.loop_continue = None, saved
        if c_text is not None:
            body_text = "if %s then\n%s\nelse\n%s" % (c_text, ind(body_text),
                                                       ind(call_after("s", env_body)))
        env_zero = dict(env)
        env_zero[cid] = ("0", "nat")
        self.pre_defs.append(
            "Fixpoint %s %s {struct %s} : %s :=\n  match %s with\n  | O => %s\n  | S %s =>\n%s\n  end.\n" % (
                loop_name,
                " ".join(["(D : desc)"] + [binder(i, env) for i in fixed] +
                         ["(s : state)", "(%s : nat)" % cname] + [binder(i, env) for i in carried]),
                cname, rtype, cname, call_after("s", env_zero), pred, ind(body_text, 4)))
        return " ".join([loop_name, "D"] + args(env, fixed) + [par(s)] + args(env, [cid]) +
                        args(env, carried))

    def is_void_cast(self, S):
        n = strip(S)
        return n.get("kind") == "CStyleCastExpr" and n.get("castKind") == "ToVoid" and \
            strip_casts(n["inner"][0]).get("kind") == "DeclRefExpr"

    def static_literal(self, d):
        """static const char *x = "LIT";  /  static const char x[] = "LIT";  with x never assigned:
        x is a pointer to the first byte of the literal."""
        q = d.get("type", {}).get("qualType", "")
        if not (q == "const char *" or re.fullmatch(r"const char\[\d+\]", q)):
            refuse(d, "static local of type '%s' (only a constant string is supported)" % q)
        if d["id"] in self.written_locals:
            refuse(d, "the static local '%s' is assigned" % d.get("name"))
        if d.get("init") != "c" or len(d.get("inner", [])) != 1:
            refuse(d, "static local without a string literal as initialiser")
        init = d["inner"][0]
        while init.get("kind") == "ImplicitCastExpr" and init.get("castKind") in ("NoOp", "ArrayToPointerDecay"):
            init = init["inner"][0]
        if init.get("kind") != "StringLiteral":
            refuse(d, "static local without a string literal as initialiser")
        return "Some (%s, 0)" % self.c_string_bytes(init)

    def kind_of_type(self, d):
        t = d.get("type", {})
        q = " ".join(w for w in t.get("qualType", "").split() if w not in ("const", "volatile"))
        table = {"size_t": "nat", "cat_status": "Z", "cat_return_state": "Z", "bool": "bool",
                 "_Bool": "bool", "cat_state": "cstate", "cat_unsolicited_state": "ustate",
                 "cat_cmd_type": "ctype", "cat_fsm_type": "fsm", "cat_var_access": "vaccess",
                 "uint8_t": "lane", "char": "byte", "int": "Z", "int64_t": "i64", "uint64_t": "u64",
                 "struct cat_command *": "cmdrec", "struct cat_command const *": "cmdrec",
                 "struct cat_command_group *": "grp", "struct cat_variable *": "varrec",
                 "struct cat_unsolicited_cmd *": "ringref"}
        q = q.replace("const struct", "struct")
        if d.get("id") in self.outarg_locals and q in ("struct cat_command *", "struct cat_command const *"):
            return self.outarg_locals[d["id"]]     # a command pointer that a callee writes through &x
        if q in ("struct cat_command *", "struct cat_command const *") and self.ret_kind == "cmdrecopt" \
                and d.get("id") in self.result_pointer_ids:
            return "cmdrecopt"                     # the descriptor the function will return (or NULL)
        m = re.fullmatch(r"char\[(\d+)\]", q)
        if m:                               # a local string buffer, only filled by strcpy(.., "LIT")
            self.array_size[d.get("id")] = int(m.group(1))
            return "str"
        if q not in table:
            refuse(d, "variable of unmapped type '%s'" % t.get("qualType"))
        return table[q]

    def constant_local(self, d):
        """`T x = <integer constant expression>;` with x never assigned again: x stands for the
        value (which must be representable in T)."""
        try:
            e = self.ex(d["inner"][0], "s", {}, [])
        except Unsupported:
            return False
        bits = int_bits(d)
        if e.kind != "int" or bits is None:
            return False
        lo, hi = int_range(d)
        if not lo <= e.lit <= hi:
            refuse(d, "constant %d does not fit the type of '%s'" % (e.lit, d.get("name")))
        self.const_locals[d["id"]] = e.lit
        return True

    def bind_local(self, node, did, k, init, s, env, G):
        """`x = init` for the local `did` of kind k.  -> (new env, let-text)."""
        env = dict(env)
        if k in ("cmdrec", "grp", "varrec"):
            e = self.ex(init, s, env, G)
            if e.kind != k:
                refuse(node, "pointer variable initialised with something unmapped")
            env[did] = (e.term, k)         # the variable bound by the guard's pattern / the loop
            return env, ""
        return self.bind_local_ex(did, k, self.value_ex(init, k, s, env, G), env)

    def bind_local_ex(self, did, k, e, env):
        """The local `did` takes the value e (an Ex of kind k).  -> (new env, let-text)."""
        env = dict(env)
        name = self.fresh("x_" + self.local_names[did], True)
        env[did] = (name, k)
        if k == "lane" and e.rng is not None:
            self.local_rng[name] = (max(e.rng[0], 0), min(e.rng[1], 255))
        if k == "nat" and e.ub is not None:
            self.local_ub[name] = e.ub
        return env, "let %s := %s in\n" % (name, e.term)

    # ---- conditions with the pre-increment idiom ------------------------------------------------------
    def condition(self, node, s, env, G):
        """-> (let-text executed before the test, state after it, Coq bool)."""
        n = strip(node)
        if n.get("kind") == "BinaryOperator" and n.get("opcode") in ("<", "<=", ">", ">=", "==", "!="):
            lhs = strip(n["inner"][0])
            if lhs.get("kind") == "UnaryOperator" and lhs.get("opcode") == "++" \
                    and not lhs.get("isPostfix"):
                tgt = strip(lhs["inner"][0])
                if tgt.get("kind") == "DeclRefExpr":        # ++x CMP e on a size_t local
                    did = tgt.get("referencedDecl", {}).get("id")
                    if did in var_reads([n["inner"][1]]):
                        refuse(n, "the incremented variable is also read in the same condition")
                    text, _, env1 = self.local_step(lhs, did, s, env, G)
                    fake = dict(n)
                    fake["inner"] = [{"kind": "ImplicitCastExpr", "castKind": "LValueToRValue",
                                      "type": tgt.get("type", {}), "inner": [tgt]}, n["inner"][1]]
                    return text, s, self.truth(fake, s, env1, G), env1
                f = self.field_of(tgt)
                if any(self.field_of(c) == f for c in walk(n["inner"][1])
                       if c.get("kind") == "MemberExpr"):
                    refuse(n, "the incremented field is also read in the same condition")
                text, s1, _ = self.incr(lhs, tgt, s, env, G)
                # the comparison now reads the incremented field in the new state
                fake = dict(n)
                fake["inner"] = [{"kind": "ImplicitCastExpr", "castKind": "LValueToRValue",
                                  "type": tgt.get("type", {}), "inner": [tgt]}, n["inner"][1]]
                return text, s1, self.truth(fake, s1, env, G), env
        def steps(x):
            return any(c.get("kind") == "UnaryOperator" and c.get("opcode") in ("++", "--") for c in walk(x))
        if n.get("kind") == "BinaryOperator" and n.get("opcode") in ("&&", "||") \
                and steps(n["inner"][0]) and not steps(n["inner"][1]) and not self.has_oracle_site(n):
            # (++F CMP e) && B : the left operand is always evaluated; B has no side effect
            pre, s1, ca, env1 = self.condition(n["inner"][0], s, env, G)
            G2 = list(G)
            cb = self.truth(n["inner"][1], s1, env1, G2)
            if len(G2) != len(G):
                refuse(n["inner"][1], "partial read in the right operand of %s" % n["opcode"])
            return pre, s1, "%s %s %s" % (opnd(ca), n["opcode"], opnd(cb)), env1
        for c in walk(n):
            if c.get("kind") == "UnaryOperator" and c.get("opcode") in ("++", "--"):
                refuse(c, "side effect inside a condition (only `++self->f CMP e` is supported)")
        if self.has_oracle_site(n):
            return self.oracle_condition(n, s, env, G)
        call = self.leading_call(n)
        if call is not None and (self.callee_name(call) in PAIR_HELPERS or
                                 self.callee_name(call) in OUT_HELPERS):
            text, s1, val, env1 = self.stateful_call(call, s, env, G)
            self.call_override[call["id"]] = val
            return text, s1, self.truth(n, s1, env1, G), env1
        if call is not None and self.callee_name(call) not in VALUE_HELPERS \
                and self.callee_name(call) not in PARTIAL_HELPERS \
                and self.callee_name(call) not in LIBRARY_CALLS:
            # the condition starts by calling a helper outside the mapping table: it is run first
            # (it may modify *self), the test is then made on its result in the new state
            sig = self.aux_signature(call, self.callee_name(call))
            if sig["mode"] == "opt" or (sig["mode"] == "pair" and sig.get("pure")):
                return "", s, self.truth(n, s, env, G), env     # a pure helper: see value_call
            if sig["mode"] != "pair":
                refuse(call, "the value of a void/constant-status helper is tested")
            r, s1 = self.fresh("r"), self.fresh("s")
            self.origin[s1] = (self.origin.get(s, (None, False))[0], False)
            text = "let %s := %s in\nlet %s := fst %s in\n" % (r, self.aux_call(call, sig, s, env, G), s1, r)
            self.call_override[call["id"]] = Ex(sig["ret_kind"], "snd %s" % r)
            return text, s1, self.truth(n, s1, env, G), env
        return "", s, self.truth(n, s, env, G), env

    def leading_call(self, n):
        """The call in  f(..) / !f(..) / f(..) CMP <literal or enumerator>,  else None."""
        n = strip(n)
        if n.get("kind") == "UnaryOperator" and n.get("opcode") == "!":
            n = strip(n["inner"][0])
        elif n.get("kind") == "BinaryOperator" and n.get("opcode") in ("==", "!=", "<", "<=", ">", ">="):
            rhs = strip_casts(n["inner"][1])
            if rhs.get("kind") not in ("IntegerLiteral", "CharacterLiteral", "DeclRefExpr") or \
                    (rhs.get("kind") == "DeclRefExpr" and
                     rhs.get("referencedDecl", {}).get("kind") != "EnumConstantDecl"):
                return None
            n = strip(n["inner"][0])
        n = strip_casts(n)
        return n if n.get("kind") == "CallExpr" and self.callee_name(n) else None

    # ---- oracle calls (see ORACLE_FUNCTIONS) ------------------------------------------------------
    def oracle_callee(self, call):
        """call = a CallExpr through a pointer of the io interface or a callback pointer of a
        variable -> 'io_read' | 'io_write' | 'var_write' | 'var_read' ; else None."""
        if call.get("kind") != "CallExpr" or not call.get("inner"):
            return None
        callee = strip_casts(call["inner"][0])
        if callee.get("kind") != "MemberExpr" or not callee.get("isArrow"):
            return None
        base, name = strip_casts(callee["inner"][0]), callee.get("name")
        if base.get("kind") == "MemberExpr" and base.get("name") == "io" and base.get("isArrow") \
                and self.is_self(base["inner"][0]) and name in ("read", "write"):
            return "io_" + name
        if name in ("read", "write") and "struct cat_variable" in c_type_name(base):
            return "var_" + name
        return None

    def has_oracle_site(self, node):
        return any(self.oracle_callee(c) for c in walk(node) if c.get("kind") == "CallExpr")

    def oracle_request(self, call, kind, s, env, G):
        """-> (request: a term of type HandlerTieLib.oreq, value of the call expression (Ex),
        None or the store the callee makes through its pointer argument: state term -> state term)."""
        args = call["inner"][1:]
        akind = self.oracle[0]
        base = strip_casts(strip_casts(call["inner"][0])["inner"][0])
        if kind == "io_write":
            if len(args) != 1 or akind != "Z":
                refuse(call, "self->io->write with an unexpected number of arguments / answer kind")
            return "QIoWrite %s" % par(self.value(args[0], "byte", s, env, G)), Ex("Z", "ans"), None
        if kind == "io_read":
            a = strip_casts(args[0]) if len(args) == 1 else {}
            tgt = strip(a["inner"][0]) if a.get("kind") == "UnaryOperator" and a.get("opcode") == "&" else {}
            if akind != "optbyte" or tgt.get("kind") != "MemberExpr" \
                    or self.field_of(tgt) != ("obj", "current_char"):
                refuse(call, "self->io->read whose argument is not &self->current_char")
            return ("QIoRead", Ex("Z", "match ans with Some _ => 1%Z | None => 0%Z end"),
                    lambda st: "match ans with Some v => setk_char v %s | None => %s end" % (par(st), par(st)))
        if akind != "Z":
            refuse(call, "callback of a variable in a function whose oracle answers a %s" % akind)
        if not args or not self.same_pointer(base, strip_casts(args[0])):
            refuse(call, "callback of a variable that is not passed that variable as first argument")
        if kind == "var_write":
            if len(args) != 2 or self.field_of(base) != ("obj", "var"):
                refuse(call, "variable write callback other than self->var->write(self->var, <size>)")
            self.self_var(base, s, G)                 # self->var is dereferenced
            return "QVarWrite %s" % par(self.value(args[1], "nat", s, env, G)), Ex("Z", "ans"), None
        if kind == "var_read":
            k, x = self.local_kind(base, env)
            org = self.ptr_origin.get(x)
            if len(args) != 1 or k != "varrec" or not org or org[0] != "get_var_by_fsm":
                refuse(call, "variable read callback other than v->read(v) with v = get_var_by_fsm(self, F)")
            return "QVarRead %s" % par(org[1]), Ex("Z", "ans"), None
        refuse(call, "unsupported oracle call")

    def same_pointer(self, a, b):
        """Two pointer expressions that are the same local variable or the same field of self."""
        if a.get("kind") == "DeclRefExpr" and b.get("kind") == "DeclRefExpr":
            return a.get("referencedDecl", {}).get("id") == b.get("referencedDecl", {}).get("id")
        if a.get("kind") == "MemberExpr" and b.get("kind") == "MemberExpr":
            fa, fb = self.field_of(a), self.field_of(b)
            return fa is not None and fa[0] in ("obj", "uns") and fa == fb
        return False

    def self_var(self, node, s, G):
        """node = self->var / self->unsolicited_fsm.var used to reach the variable descriptor: the
        model keeps the INDEX of the variable in the current command (HandlerTieLib.var_of)."""
        f = self.field_of(node)
        fsm = {"obj": "ATCMD", "uns": "UNSOL"}[f[0]]
        scrut = "var_of D %s %s" % (fsm, s)
        same = [g for g in G if g.scrut == scrut and g.fail_pat == "None"]
        if same:
            return same[0].ok_pat.split()[1]
        t = self.fresh("t")
        G.append(Guard(scrut, "None", "Some " + t))
        return t

    def oracle_condition(self, n, s, env, G):
        """if (CALL CMP literal)  /  if ((A) && (CALL CMP literal)),  CALL an oracle call.
        -> (let-text, state after the call, Coq bool, env)"""
        if self.oracle is None:
            refuse(n, "call through a pointer of the io interface / a variable callback in a function "
                      "that is not translated as a function of the oracle's answer")
        n = strip(n)
        guard, test = None, n
        if n.get("kind") == "BinaryOperator" and n.get("opcode") == "&&" \
                and not self.has_oracle_site(n["inner"][0]):
            guard, test = n["inner"][0], strip(n["inner"][1])
        call = None
        if test.get("kind") == "BinaryOperator" and test.get("opcode") in ("==", "!=", "<", "<=", ">", ">="):
            lhs, rhs = strip_casts(test["inner"][0]), strip_casts(test["inner"][1])
            if rhs.get("kind") == "UnaryOperator" and rhs.get("opcode") == "-":
                rhs = strip_casts(rhs["inner"][0])
            if rhs.get("kind") in ("IntegerLiteral", "CharacterLiteral") and self.oracle_callee(lhs):
                call = lhs
        if call is None:
            refuse(n, "oracle call at a position other than `if (CALL CMP literal)` / "
                      "`if ((A) && (CALL CMP literal))`")
        if self.oracle_sites:
            refuse(n, "more than one oracle call site")
        self.oracle_sites += 1
        gt = self.truth(guard, s, env, G) if guard is not None else None
        n_guards = len(G)
        req, val, store = self.oracle_request(call, self.oracle_callee(call), s, env, G)
        if gt is not None and len(G) != n_guards:
            refuse(call, "partial read in the arguments of a conditionally evaluated oracle call")
        ask0 = env[ASK_ID][0]
        made = "Some (%s, %s)" % (req, s)
        ask1 = self.fresh("ask")
        text = "let %s := %s in\n" % (ask1, made if gt is None else
                                      "if %s then %s else %s" % (gt, made, ask0))
        after = s
        if self.oracle[2]:
            after = "cb_apply env %s" % par(after)
        if store is not None:
            after = store(after)
        s1 = s
        if after != s:
            s1 = self.same_cmd(s, self.fresh("s"))
            text += "let %s := %s in\n" % (s1, after if gt is None else
                                           "if %s then %s else %s" % (gt, after, s))
        env1 = dict(env)
        env1[ASK_ID] = (ask1, "ask")
        self.call_override[call["id"]] = val
        cond = self.truth(test, s1, env1, G)
        if gt is not None:
            cond = "%s && %s" % (opnd(gt), opnd(cond))
        return text, s1, cond, env1

    # ---- effects ------------------------------------------------------------------------------------
    def setter(self, node, tgt):
        f = self.field_of(tgt)
        if f is None or f[0] not in ("obj", "uns"):
            refuse(node, "store to something that is not a mapped field of self")
        table = OBJ_FIELDS if f[0] == "obj" else UNS_FIELDS
        if f[1] not in table or table[f[1]][2] is None:
            refuse(node, "store to field '%s', which is not in the mapping table" % f[1])
        if f == ("obj", "current_char") and self.reading:
            refuse(node, "the body of a reading state assigns current_char")
        if f == ("obj", "cmd"):
            self.assigns_obj_cmd = True
        return f, table[f[1]]

    def aux_signature(self, node, name):
        """A function of cat.c that is not in the mapping table is translated on the fly, like
        the handlers (it is then part of the GENERATED side of the tie, nothing is trusted)."""
        if self.aux is None:
            refuse(node, "call of '%s', which is not in the mapping table" % name)
        try:
            return self.aux.get(name, self.reading)
        except Unsupported as e:
            refuse(node, "call of '%s', which is not in the mapping table and cannot be "
                         "translated as an auxiliary function: %s" % (name, e))

    def aux_call(self, node, sig, s, env, G):
        args = self.call_args(node, sig["c_name"], sig["param_kinds"], s, env, G)
        return " ".join([sig["coq_name"], "D"] + args + (["ch"] if self.reading else []) + [s])

    def same_cmd(self, s, s1):
        """s1 is s after a store that does not touch self->cmd."""
        self.origin[s1] = self.origin.get(s, (None, False))
        return s1

    def incr(self, node, tgt, s, env, G):
        f, (k, proj, setter) = self.setter(node, tgt)
        if k != "nat" or node.get("opcode") not in ("++", "--"):
            refuse(node, "'%s' on something that is not a size_t field" % node.get("opcode"))
        s1 = self.same_cmd(s, self.fresh("s"))
        rec = "k" if f[0] == "obj" else "u"
        if node.get("opcode") == "--":          # 0 - 1 would wrap around -> fault
            t = self.fresh("t")
            G.append(Guard("%s (%s %s)" % (proj, rec, s), "O", "S " + t))
            return "let %s := %s %s %s in\n" % (s1, setter, t, s), s1, env
        return "let %s := %s (S (%s (%s %s))) %s in\n" % (s1, setter, proj, rec, s, s), s1, env

    def local_step(self, node, did, s, env, G):
        """++x / --x / x++ / x-- (value unused) on a size_t local.  -> (let-text, s, new env)."""
        if did not in env or env[did][1] != "nat" or did in self.out_ids:
            refuse(node, "'%s' on something that is not a size_t local" % node.get("opcode"))
        name = env[did][0]
        if name is None:
            refuse(node, "local variable read before it is assigned")
        if node.get("opcode") == "++":
            return (lambda r: (r[1], s, r[0]))(self.bind_local_ex(did, "nat", Ex("nat", "S %s" % par(name)), env))
        if self.loop is not None and did == self.loop.get("count_id") and name == self.loop["count_succ"]:
            env = dict(env)                       # the counter of a countdown loop: it is S n' here
            env[did] = (self.loop["count_pred"], "nat")
            return "", s, env
        t = self.fresh("t")                       # 0 - 1 would wrap around -> fault
        G.append(Guard(name, "O", "S " + t))
        return (lambda r: (r[1], s, r[0]))(self.bind_local_ex(did, "nat", Ex("nat", t), env))

    def effect(self, S, s, env, G):
        """An expression statement.  -> (let-text, new state name, new env)."""
        n = strip(S)
        kind = n.get("kind")
        if kind == "UnaryOperator" and n.get("opcode") in ("++", "--"):
            tgt = strip(n["inner"][0])
            if tgt.get("kind") == "DeclRefExpr":
                return self.local_step(n, tgt.get("referencedDecl", {}).get("id"), s, env, G)
            return self.incr(n, tgt, s, env, G)
        if kind == "CallExpr":
            name = self.callee_name(n)
            if name in ("strncpy", "memset"):
                return self.fill_buffer(n, name, s, env, G)
            if name == "strcpy" and name not in self.defined_in_tu and len(n["inner"]) == 3:
                dst, src = strip_casts(n["inner"][1]), strip_casts(n["inner"][2])
                did = dst.get("referencedDecl", {}).get("id") if dst.get("kind") == "DeclRefExpr" else None
                if did not in self.array_size or src.get("kind") != "StringLiteral":
                    refuse(n, "strcpy other than (local char array, string literal)")
                lit = self.string_literal(src)
                if len(src.get("value", "")) - 2 + 1 > self.array_size[did]:
                    refuse(n, "strcpy of a literal that does not fit the array")
                env2, text = self.bind_local_ex(did, "str", Ex("str", lit), env)
                return text, s, env2
            if name in STATE_HELPERS:
                tmpl, kinds = STATE_HELPERS[name]
                term = tmpl.format(*self.call_args(n, name, kinds, s, env, G), s=s)
            elif name in PAIR_HELPERS or name in OUT_HELPERS:     # the returned value is not used
                text, s1, _, env1 = self.stateful_call(n, s, env, G)
                return text, s1, env1
            else:
                sig = self.aux_signature(n, name)
                if sig["mode"] == "opt" or sig.get("out_kinds"):
                    refuse(n, "call of '%s' as a statement" % name)
                term = self.aux_call(n, sig, s, env, G)
                if sig["mode"] == "pair":               # the returned value is not used
                    term = "fst (%s)" % term
            s1 = self.fresh("s")
            self.origin[s1] = (self.origin.get(s, (None, False))[0], False)
            return "let %s := %s in\n" % (s1, term), s1, env
        if kind == "CompoundAssignOperator":
            return self.compound_assign(n, s, env, G)
        if kind == "BinaryOperator" and n.get("opcode") == "=":
            tgt, rhs = strip(n["inner"][0]), n["inner"][1]
            if tgt.get("kind") == "UnaryOperator" and tgt.get("opcode") == "*":
                d = strip_casts(tgt["inner"][0])                      # *p = e, p an out-parameter
                did = d.get("referencedDecl", {}).get("id") if d.get("kind") == "DeclRefExpr" else None
                if did not in self.out_ids:
                    refuse(n, "store through a pointer that is not an out-parameter")
                k = env[did][1]
                env2, text = self.bind_local_ex(did, k, self.value_ex(rhs, k, s, env, G), env)
                return text, s, env2
            if tgt.get("kind") == "MemberExpr" and tgt.get("isArrow") \
                    and self.local_kind(tgt["inner"][0], env)[0] == "ringref":
                x = self.local_kind(tgt["inner"][0], env)[1]          # item->cmd = v / item->type = v
                if tgt.get("name") == "cmd":
                    fn = "(fun it => (%s, snd it))" % self.value(rhs, "cmdidx", s, env, G)
                elif tgt.get("name") == "type":
                    fn = "(fun it => (fst it, %s))" % self.value(rhs, "ctype", s, env, G)
                else:
                    refuse(n, "store to field '%s' of a queue entry" % tgt.get("name"))
                s1 = self.same_cmd(s, self.fresh("s"))
                return "let %s := ring_store %s %s %s in\n" % (s1, par(x), fn, s), s1, env
            if tgt.get("kind") == "DeclRefExpr":                      # local variable
                did = tgt.get("referencedDecl", {}).get("id")
                if did in self.uns_alias_ids:                         # x = &self->unsolicited_fsm
                    return "", s, env
                if did not in env:
                    refuse(n, "assignment to an unmapped variable")
                if did in self.out_ids:
                    refuse(n, "assignment to an out-parameter itself")
                call = strip_casts(rhs)
                if call.get("kind") == "CallExpr" and self.is_stateful_callee(call):
                    text, s1, val, env1 = self.stateful_call(call, s, env, G)
                    k = env[did][1]
                    env2, t2 = self.bind_local_ex(did, k, self.coerce(rhs, val, k), env1)
                    return text + t2, s1, env2
                env2, text = self.bind_local(n, did, env[did][1], rhs, s, env, G)
                return text, s, env2
            if tgt.get("kind") == "ArraySubscriptExpr":
                return self.buffer_store(n, tgt, rhs, s, env, G)
            assigned_before = self.assigns_obj_cmd
            f, (k, proj, setter) = self.setter(n, tgt)
            if k in ("cmdptr", "wbuf", "varidx"):
                v = self.pointer_store(n, f, k, rhs, s, env, G)
            else:
                v = self.value(rhs, k, s, env, G)
            s1 = self.fresh("s")
            if f != ("obj", "cmd"):
                self.same_cmd(s, s1)
            elif s == "s" and self.pure and not G and v.startswith("Some ") and self.lead_cmd_index is None \
                    and not self.uses_cmd_deref:
                # FIRST statement  self->cmd = get_command_by_index(self, e) : from here on self->cmd->..
                # reads the descriptor number e, bound around the whole body (translate_function)
                self.lead_cmd_index = v[5:]
                self.assigns_obj_cmd = assigned_before
                self.origin[s1] = ("init", True)
            else:
                self.origin[s1] = (self.origin.get(s, (None, False))[0], False)
            return "let %s := %s %s %s in\n" % (s1, setter, par(v), s), s1, env
        refuse(S, "statement of kind %s" % kind)

    def compound_assign(self, n, s, env, G):
        """x OP= e on a local: uint8_t (>>= <<= &= |= ^=: computed in int, converted back to
        uint8_t) or size_t (+= -=)."""
        op = n.get("opcode", "")[:-1]
        tgt, rhs = strip(n["inner"][0]), n["inner"][1]
        did = tgt.get("referencedDecl", {}).get("id") if tgt.get("kind") == "DeclRefExpr" else None
        if did is None or did not in env:
            refuse(n, "compound assignment to something that is not a local variable")
        name, k = env[did]
        if name is None:
            refuse(n, "local variable read before it is assigned")
        cur = Ex(k, name, rng=self.local_rng.get(name, (0, 255)) if k == "lane" else None,
                 ub=self.local_ub.get(name))
        if k == "lane" and op in ("<<", ">>", "&", "|", "^"):
            if n.get("computeResultType", {}).get("qualType") != "int":
                refuse(n, "compound assignment not computed in int")
            ea = self.as_mint(tgt, cur)
            eb = self.as_mint(rhs, self.ex(rhs, s, env, G), shift_amount=op in ("<<", ">>"))
            res = self.int_conversion({"type": {"qualType": "unsigned char"}}, self.mint_op(n, op, ea, eb))
            env2, text = self.bind_local_ex(did, k, res, env)
            return text, s, env2
        if k == "nat" and op in ("+", "-"):
            eb = self.coerce(rhs, self.ex(rhs, s, env, G), "nat")
            if op == "+":
                res = Ex("nat", "%s + %s" % (opnd(cur.term), opnd(eb.term)))
            else:
                G.append(Guard("%s <=? %s" % (opnd(eb.term), opnd(cur.term)), "false", "true"))
                res = Ex("nat", "%s - %s" % (opnd(cur.term), opnd(eb.term)), ub=cur.ub)
            env2, text = self.bind_local_ex(did, k, res, env)
            return text, s, env2
        refuse(n, "compound assignment '%s=' on a %s" % (op, k))

    # ---- calls that return a value AND may modify *self ------------------------------------------
    def is_stateful_callee(self, call):
        name = self.callee_name(call)
        if name in PAIR_HELPERS or name in OUT_HELPERS:
            return True
        if name is None or name in STATE_HELPERS or name in VALUE_HELPERS or name in PARTIAL_HELPERS \
                or name in LIBRARY_CALLS or name in HANDLER_CALL_WRAPPERS or self.aux is None \
                or name not in self.defined_in_tu:
            return False
        try:
            sig = self.aux.get(name, self.reading)
        except Unsupported:
            return False
        return sig["mode"] == "pair" and not sig.get("pure") and not sig.get("out_kinds")

    def stateful_call(self, call, s, env, G):
        """r = f(self, args[, &out..]) run in state s.  -> (let-text, new state, value (Ex), new env).
        An out-argument is  &local  (the local becomes an OPTION: Some v if the callee wrote it) or
        &self->field (the field is stored if the callee wrote it)."""
        name = self.callee_name(call)
        outk, out_args = [], []
        if name in PAIR_HELPERS:
            k, tmpl, kinds = PAIR_HELPERS[name]
            term = tmpl.format(*self.call_args(call, name, kinds, s, env, G), s=s)
        elif name in OUT_HELPERS:
            k, tmpl, kinds, outk = OUT_HELPERS[name]
            args = call["inner"][1:]
            if len(args) != 1 + len(kinds) + len(outk):
                refuse(call, "call of %s with an unexpected number of arguments" % name)
            out_args = args[1 + len(kinds):]
            fake = dict(call)
            fake["inner"] = call["inner"][:2 + len(kinds)]
            term = tmpl.format(*self.call_args(fake, name, kinds, s, env, G), s=s)
        else:
            sig = self.aux_signature(call, name)
            k, term = sig["ret_kind"], self.aux_call(call, sig, s, env, G)
        r, s1 = self.fresh("r"), self.fresh("s")
        env = dict(env)
        if not outk:
            # (a pattern, not `let r := .. in .. fst r .. snd r`: the call is not duplicated when the
            #  tie tactic unfolds the lets)
            text = "let '(%s, %s) := %s in\n" % (s1, r, term)
            value = Ex(k, r)
        else:
            onames = [self.fresh("o") for _ in outk]
            text = "let '(%s) := %s in\n" % (", ".join([s1, r] + onames), term)
            value = Ex(k, r)
            for a, ok, o in zip(out_args, outk, onames):
                a = strip_casts(a)
                x = strip(a["inner"][0]) if a.get("kind") == "UnaryOperator" and a.get("opcode") == "&" else {}
                did = x.get("referencedDecl", {}).get("id") if x.get("kind") == "DeclRefExpr" else None
                f = self.field_of(x) if x.get("kind") == "MemberExpr" else None
                if did in env and env[did][1] == ok and did not in self.out_ids:
                    env[did] = (o, ok)
                    self.optional_names.add(o)
                elif did in env and (env[did][1], ok) == ("i64", "u64") and did not in self.out_ids:
                    # (uint64_t *)&val, val an int64_t: the callee stores a uint64_t into the object
                    # (C11 6.5p7 allows the access); read back as int64_t it is the two's
                    # complement reading of that value
                    o2 = self.fresh("o")
                    text += "let %s := option_map c_s64 %s in\n" % (o2, o)
                    env[did] = (o2, "i64")
                    self.optional_names.add(o2)
                elif f and f[0] in ("obj", "uns"):
                    _, (fk, proj, setter) = self.setter(call, x)
                    if fk != ok:
                        refuse(a, "out-argument of the wrong kind")
                    s2 = self.fresh("s")
                    text += "let %s := match %s with Some v => %s v %s | None => %s end in\n" % (
                        s2, o, setter, s1, s1)
                    s1 = s2
                else:
                    refuse(a, "out-argument that is neither &local nor &self->field")
        self.origin[s1] = (self.origin.get(s, (None, False))[0],
                           self.origin.get(s, (None, False))[1] and name in CMD_PRESERVING_HELPERS)
        return text, s1, value, env

    def fill_buffer(self, n, name, s, env, G):
        """strncpy(get_atcmd_buf(self), "LIT", get_atcmd_buf_size(self)) and
        memset(get_atcmd_buf(self), V, get_atcmd_buf_size(self)): the whole working buffer."""
        if name in self.defined_in_tu or len(n["inner"]) != 4:
            refuse(n, "%s is not the C library's, or has an unexpected number of arguments" % name)
        dst, src, size = (strip_casts(a) for a in n["inner"][1:])

        def self_call(c, fname):
            return c.get("kind") == "CallExpr" and self.callee_name(c) == fname \
                and len(c["inner"]) == 2 and self.is_self(c["inner"][1])
        if not (self_call(dst, "get_atcmd_buf") and self_call(size, "get_atcmd_buf_size")):
            refuse(n, "%s other than (get_atcmd_buf(self), .., get_atcmd_buf_size(self))" % name)
        if name == "strncpy":
            spelled = src.get("value", "")
            ent = env.get(src.get("referencedDecl", {}).get("id")) if src.get("kind") == "DeclRefExpr" else None
            if ent is not None and ent[0] is not None and ent[1] == "str" and re.fullmatch(r"p_\w+", ent[0]):
                # a `const char *` parameter (of an auxiliary function): the string its callers pass,
                # each of which is a literal without NUL or a command name (see coerce / string_literal)
                data = "strncpy_buf (asz %s) %s" % (s, ent[0])
            elif src.get("kind") != "StringLiteral" or not re.fullmatch(r'"[A-Za-z0-9 +:_-]*"', spelled):
                refuse(n, "strncpy of something that is not a plain string literal")
            else:
                data = "strncpy_buf (asz %s) [%s]%%N" % (s, "; ".join(str(ord(c)) for c in spelled[1:-1]))
        else:
            v = self.coerce(n, self.ex(n["inner"][2], s, env, G), "Z")
            m = re.fullmatch(r"(\d+)%Z", v.term)
            if not m or not 0 <= int(m.group(1)) <= 255:
                refuse(n, "memset with a value that is not a constant byte")
            data = "repeat %s%%N (asz %s)" % (m.group(1), s)
        s1 = self.same_cmd(s, self.fresh("s"))
        return "let %s := set_cbuf (%s) %s in\n" % (s1, data, s), s1, env

    def buffer_store(self, node, tgt, rhs, s, env, G):
        """get_atcmd_buf(self)[i] = v   /   get_atcmd_buf(self)[self->f++] = v"""
        base, idx = strip_casts(tgt["inner"][0]), strip(tgt["inner"][1])
        if self.is_self_call(base, "get_atcmd_buf"):
            store = "store_c"
        elif self.is_self_call(base, "get_unsolicited_buf"):
            store = "store_u"
        else:
            refuse(node, "array store that is not into get_atcmd_buf(self) / get_unsolicited_buf(self)")
        post = None
        if idx.get("kind") == "UnaryOperator" and idx.get("opcode") == "++" and idx.get("isPostfix"):
            post = idx
            idx_read = {"kind": "ImplicitCastExpr", "castKind": "LValueToRValue",
                        "type": idx.get("type", {}), "inner": [strip(idx["inner"][0])]}
        else:
            idx_read = tgt["inner"][1]
        for c in walk(rhs):
            if c.get("kind") == "UnaryOperator" and c.get("opcode") in ("++", "--"):
                refuse(c, "side effect in the stored value")
        i = self.value(idx_read, "nat", s, env, G)
        v = self.value(rhs, "byte", s, env, G)
        s1 = self.same_cmd(s, self.fresh("s"))
        text = "let %s := %s %s %s %s in\n" % (s1, store, par(i), par(v), s)
        if post is not None:                      # the increment reads the field, not the buffer
            t2, s2, _ = self.incr(post, strip(post["inner"][0]), s1, env, G)
            return text + t2, s2, env
        return text, s1, env

    def wbuf_value(self, node, rhs, machine, s, env):
        """A pointer stored into ->write_buf of the command ('obj') / event ('uns') machine, as a
        Defs.wbuf: the new-line string, or the working buffer OF THAT MACHINE; or a parameter that
        stands for such a value (kind wbufc / wbufu)."""
        r = strip_casts(rhs)
        if r.get("kind") == "CallExpr" and len(r["inner"]) == 2 and self.is_self(r["inner"][1]):
            name = self.callee_name(r)
            if name == "get_new_line_chars":
                return "WB_NL (k_cr (k %s))" % s
            if (name, machine) in (("get_atcmd_buf", "obj"), ("get_unsolicited_buf", "uns")):
                return "WB_MAIN"
        if r.get("kind") == "DeclRefExpr":
            ent = env.get(r.get("referencedDecl", {}).get("id"))
            if ent is not None and ent[0] is not None and ent[1] == ("wbufc" if machine == "obj" else "wbufu"):
                return ent[0]
        refuse(node, "store to ->write_buf other than the listed ones")

    def pointer_store(self, node, f, k, rhs, s, env, G):
        r = strip_casts(rhs)
        if k == "cmdptr":
            if r.get("kind") == "CallExpr":
                if self.callee_name(r) == "get_command_by_index" and f[0] == "obj":
                    args = self.call_args(r, "get_command_by_index", ["nat"], s, env, G)
                    return "Some %s" % args[0]
            elif r.get("kind") == "DeclRefExpr" and \
                    env.get(r.get("referencedDecl", {}).get("id"), (None, None))[1] == "cmdptr":
                return self.ex(rhs, s, env, G).term       # a local that pop_unsolicited_cmd wrote
            elif self.ex(rhs, s, env, []).kind == "null":
                return "None"
            refuse(node, "store to ->cmd other than NULL / get_command_by_index(self, e)")
        if k == "wbuf":
            return self.wbuf_value(node, rhs, f[0], s, env)
        # varidx:  c->var  |  &c->var[e]
        if r.get("kind") == "UnaryOperator" and r.get("opcode") == "&":
            a = strip(r["inner"][0])
            if a.get("kind") == "ArraySubscriptExpr":
                m = strip_casts(a["inner"][0])
                fm = self.field_of(m)
                if fm and fm[0] == "cmd" and fm[1] == "var":
                    self.cmdrec_of(fm[2], s, env, G)
                    return self.value(a["inner"][1], "nat", s, env, G)
        fm = self.field_of(r)
        if fm and fm[0] == "cmd" and fm[1] == "var":
            self.cmdrec_of(fm[2], s, env, G)
            return "0"
        refuse(node, "store to ->var other than c->var / &c->var[e]")

    # ---- switch ---------------------------------------------------------------------------------------
    def is_handler_call(self, node):
        """self->cmd->write(..) / self->cmd->run(..) / call_cmd_read_by_fsm(self, fsm) / .._test_.."""
        n = strip_casts(node)
        if n.get("kind") != "CallExpr":
            return False
        if self.callee_name(n) in HANDLER_CALL_WRAPPERS:
            return True
        callee = strip_casts(n["inner"][0])
        f = self.field_of(callee) if callee.get("kind") == "MemberExpr" else None
        if not (f and f[0] == "cmd" and f[1] in HANDLER_POINTER_CALLS):
            return False
        base = self.field_of(strip_casts(f[2]))
        return base == ("obj", "cmd")

    def handler_call_term(self, node, s, env, G):
        """The call of a command handler as a term of type HandlerTieLib.hcall (see
        HANDLER_CALL_FIELDS), or, for a call of one of the two wrappers, the call of the generated
        wrapper (a term of type option hcall).  -> (term, is_option)"""
        n = strip_casts(node)
        name = self.callee_name(n)
        if name in HANDLER_CALL_WRAPPERS:
            args = self.call_args(n, name, ["fsm"], s, env, G)
            return "g_%s D %s %s" % (name, args[0], s), True
        callee = strip_casts(n["inner"][0])
        if callee.get("kind") != "MemberExpr" or not callee.get("isArrow") \
                or callee.get("name") not in HANDLER_CALL_FIELDS:
            refuse(n, "not a call of a command handler")
        base, args = strip_casts(callee["inner"][0]), n["inner"][1:]
        if not args or not self.same_pointer(base, strip_casts(args[0])):
            refuse(n, "the handler is not passed the command it is taken from as first argument")
        if base.get("kind") == "MemberExpr" and self.field_of(base) == ("obj", "cmd"):
            # self->cmd is dereferenced (by the call only: the translation of what follows the call
            # is not put under `match cmd_of ..` because of it)
            saved = self.uses_cmd_deref, set(self.kont_needs)
            self.cmdrec_of(callee["inner"][0], s, env, G)
            self.uses_cmd_deref, self.kont_needs = saved
            self.call_derefs_cmd = True
            x = "k_cmd (k %s)" % s
        else:
            k, nm = self.local_kind(base, env)
            org = self.ptr_origin.get(nm)
            if k != "cmdrec" or not org or org[0] != "get_command_by_fsm":
                refuse(n, "handler called on a command that is neither self->cmd nor "
                          "get_command_by_fsm(self, F)")
            x = "g_cmd %s %s" % (org[1], s)
        con, rest = HANDLER_CALL_FIELDS[callee["name"]], args[1:]

        def buf(a):
            a = strip_casts(a)
            if self.is_self_call(a, "get_atcmd_buf"):
                return "B_atcmd"
            if self.is_self_call(a, "get_unsolicited_buf"):
                return "B_unsol"
            refuse(a, "buffer argument that is neither get_atcmd_buf(self) nor get_unsolicited_buf(self)")

        def pos(a):
            a = strip_casts(a)
            tgt = strip(a["inner"][0]) if a.get("kind") == "UnaryOperator" and a.get("opcode") == "&" else {}
            f = self.field_of(tgt) if tgt.get("kind") == "MemberExpr" else None
            if f == ("obj", "position"):
                return "P_atcmd"
            if f == ("uns", "position"):
                return "P_unsol"
            refuse(a, "size pointer that is neither &self->position nor &self->unsolicited_fsm.position")
        if con == "HC_run" and len(rest) == 0:
            return "HC_run %s" % par(x), False
        if con == "HC_write" and len(rest) == 3:
            return "HC_write %s %s %s %s" % (par(x), buf(rest[0]), par(self.value(rest[1], "nat", s, env, G)),
                                           par(self.value(rest[2], "nat", s, env, G))), False
        if con in ("HC_read", "HC_test") and len(rest) == 3:
            return "%s %s %s %s %s" % (con, par(x), buf(rest[0]), pos(rest[1]),
                                       par(self.value(rest[2], "nat", s, env, G))), False
        refuse(n, "handler call with an unexpected number of arguments")

    def switch(self, S, rest, s, env, kb, kbrk_outer, later):
        if S.get("hasInit") or S.get("hasVar") or len(S.get("inner", [])) != 2:
            refuse(S, "switch with initialiser/declaration")
        G = []
        scrut_node, body = S["inner"]
        for c in walk(scrut_node):
            if c.get("kind") == "UnaryOperator" and c.get("opcode") in ("++", "--"):
                refuse(c, "side effect in the scrutinee of a switch")
        if self.post and not self.post_used and s == "s" and self.is_handler_call(scrut_node):
            self.post_used = True
            e = Ex("Z", "code")
            G2 = []                          # the call itself: g_<f>_call (see HANDLER_CALL_FIELDS)
            term, is_opt = self.handler_call_term(scrut_node, s, env, G2)
            term = term if is_opt else "Some (%s)" % term
            for g in reversed(G2):
                term = "match %s with\n| %s => None\n| %s =>\n%s\nend" % (g.scrut, g.fail_pat, g.ok_pat, ind(term))
            self.post_call_term = term
        else:
            e = self.ex(scrut_node, s, env, G)
        if body.get("kind") != "CompoundStmt":
            refuse(S, "switch whose body is not a compound statement")
        arms, cur = [], None                     # arm = [labels (None = default), statements]
        for item in body.get("inner", []):
            labels = []
            while item.get("kind") in ("CaseStmt", "DefaultStmt"):
                if item["kind"] == "CaseStmt":
                    if len(item["inner"]) != 2:
                        refuse(item, "case range")
                    labels.append(item["inner"][0])
                    item = item["inner"][1]
                else:
                    labels.append(None)
                    item = item["inner"][0]
            if labels:
                if cur is not None and not cur[1]:
                    refuse(item, "unexpected label layout")
                cur = [labels, []]
                arms.append(cur)
            elif cur is None:
                refuse(item, "statement before the first case label")
            cur[1].append(item)
        if not arms:
            refuse(S, "switch without arms")
        let, kc = self.make_cont(S, rest, env, kb, kbrk_outer, later)
        later2 = later | local_reads(rest)

        def fallthrough(st, env_, fault=False):
            if fault:                      # a partial read failed in this arm: the flag is set and
                return kc.call(st, env_, True)      # execution continues after the switch
            raise Unsupported("a case group of the switch at line %s can fall through into the "
                              "next one" % node_line(S))
        arm_texts, default_text, seen = [], None, set()
        for i, (labels, stmts) in enumerate(arms):
            last = i == len(arms) - 1
            text = self.block(stmts, s, env, kc if last else Cont(fallthrough), kc, later2)
            pats = []
            for lab in labels:
                if lab is None:
                    default_text = text
                    continue
                p = self.coerce(lab, self.ex(lab, s, env, []), e.kind).term
                if p in seen:
                    refuse(lab, "duplicate case label")
                seen.add(p)
                pats.append(p)
            if pats:
                arm_texts.append((pats, text))
        if default_text is None:
            default_text = kc.call(s, env, False)
        if e.kind in CONSTRUCTORS:
            lines = ["match %s with" % e.term]
            for pats, text in arm_texts:
                lines.append("| %s =>\n%s" % (" | ".join(pats), ind(text, 4)))
            if seen != set(CONSTRUCTORS[e.kind]):
                lines.append("| _ =>\n%s" % ind(default_text, 4))
            # else: the default arm is unreachable in the model (an enum object only holds its
            # enumerators) and is dropped
            body_text = "\n".join(lines) + "\nend"
        elif e.kind in ("byte", "lane", "Z", "nat"):
            scope = {"byte": "%N", "lane": "%N", "Z": "%Z", "nat": ""}[e.kind]
            body_text = default_text
            for pats, text in reversed(arm_texts):
                c = " || ".join("(%s =? %s)%s" % (opnd(e.term), p, scope) for p in pats)
                sep = " " if body_text.startswith("if ") else "\n  "
                body_text = "if %s then\n%s\nelse%s%s" % (
                    c, ind(text), sep, body_text if sep == " " else ind(body_text)[2:])
        else:
            refuse(S, "switch over a %s" % e.kind)
        return self.wrap(G, let + body_text, kb, s, env)


# ======================================================================================
# 5. Functions and the generated file
# ======================================================================================

GEN_HEADER = """\
(* GENERATED by tools/handler_translate.py from %(source)s -- do not edit, regenerated on every run.
   Each definition is the lifting of one C function into the vocabulary of the model (mapping
   table and rules: see the head of tools/handler_translate.py).  s, s1, s2 .. are the successive
   values of *self; kontN are the statements that follow an if/switch; x_* are C locals; tN are
   the results of partial reads. *)
From Coq Require Import List NArith ZArith Bool Arith.
From CatV Require Import Bytes Defs Codec Fsm.
From %(lp)s Require Import HandlerTieLib.
Import ListNotations.
Local Open Scope nat_scope.
"""

PARAM_KINDS = {"cat_state": "cstate", "cat_unsolicited_state": "ustate", "cat_fsm_type": "fsm",
               "cat_status": "Z", "size_t": "nat", "uint8_t": "lane", "cat_cmd_type": "ctype",
               "cat_var_access": "vaccess", "char *": "str",      # const char *: a string that is printed
               "bool": "bool", "_Bool": "bool", "int": "Z", "cat_return_state": "Z"}


def uns_aliases(tr, body):
    """ids of the locals of type `struct cat_unsolicited_fsm *` (possibly const) whose initialiser and
    every assignment is `&self->unsolicited_fsm`, and that are used only as `x->F` (or assigned):
    wherever such a local has a value it points to self->unsolicited_fsm, so x->F is
    self->unsolicited_fsm.F."""
    def is_uns_address(n):
        n = strip_casts(n)
        if n.get("kind") != "UnaryOperator" or n.get("opcode") != "&":
            return False
        m = strip(n["inner"][0])
        return m.get("kind") == "MemberExpr" and m.get("name") == "unsolicited_fsm" and m.get("isArrow") \
            and tr.is_self(m["inner"][0])
    cand, bad = {}, set()
    for c in walk(body):
        if c.get("kind") == "VarDecl" and not c.get("storageClass"):
            q = " ".join(w for w in c.get("type", {}).get("qualType", "").split() if w != "const")
            if q == "struct cat_unsolicited_fsm *":
                cand[c["id"]] = 0
                if c.get("inner"):
                    if c.get("init") == "c" and len(c["inner"]) == 1 and is_uns_address(c["inner"][0]):
                        cand[c["id"]] += 1
                    else:
                        bad.add(c["id"])
    if not cand:
        return set()
    uses = {i: 0 for i in cand}
    ok_uses = {i: 0 for i in cand}
    for c in walk(body):
        if c.get("kind") == "DeclRefExpr" and c.get("referencedDecl", {}).get("id") in cand:
            uses[c["referencedDecl"]["id"]] += 1
        if c.get("kind") == "BinaryOperator" and c.get("opcode") == "=":
            tgt = strip(c["inner"][0])
            did = tgt.get("referencedDecl", {}).get("id") if tgt.get("kind") == "DeclRefExpr" else None
            if did in cand:
                if is_uns_address(c["inner"][1]):
                    cand[did] += 1
                    ok_uses[did] += 1
                else:
                    bad.add(did)
        if c.get("kind") == "MemberExpr" and c.get("isArrow"):
            b = strip_casts(c["inner"][0])
            if b.get("kind") == "DeclRefExpr" and b.get("referencedDecl", {}).get("id") in cand:
                ok_uses[b["referencedDecl"]["id"]] += 1
    return {i for i in cand if i not in bad and cand[i] >= 1 and uses[i] == ok_uses[i]}


def stored_param_kind(tr, p, body):
    """p = a parameter of integer or `char *` type.  If every use of p in the body is
    `self->F = p;` (an expression statement) for fields F of one kind K that an integer literal /
    a buffer pointer can be coerced to (wstate, lane; write_buf) -> K (wbufc / wbufu for write_buf of
    the command / event machine); else None."""
    q = " ".join(w for w in p.get("type", {}).get("qualType", "").split() if w != "const")
    if q not in ("int", "unsigned int", "uint8_t", "char *"):
        return None
    pid, kinds, uses = p["id"], set(), 0

    def is_p(n):
        n = strip_casts(n)
        return n.get("kind") == "DeclRefExpr" and n.get("referencedDecl", {}).get("id") == pid
    stores = 0
    for c in walk(body):
        if c.get("kind") == "DeclRefExpr" and c.get("referencedDecl", {}).get("id") == pid:
            uses += 1
        if c.get("kind") == "BinaryOperator" and c.get("opcode") == "=" and is_p(c["inner"][1]):
            f = tr.field_of(strip(c["inner"][0])) if strip(c["inner"][0]).get("kind") == "MemberExpr" else None
            if not f or f[0] not in ("obj", "uns"):
                return None
            table = OBJ_FIELDS if f[0] == "obj" else UNS_FIELDS
            if f[1] not in table:
                return None
            k = table[f[1]][0]
            kinds.add({"wbuf": "wbufc" if f[0] == "obj" else "wbufu"}.get(k, k))
            stores += 1
    if not stores or stores != uses or len(kinds) != 1:
        return None
    k = kinds.pop()
    if (q == "char *") != (k in ("wbufc", "wbufu")) or k not in ("wbufc", "wbufu", "wstate", "lane"):
        return None
    return k


def find_mode(tr, decl, body_items):
    """void / const (all returns return the same enumerator) / pair."""
    fn_type = decl.get("type", {}).get("qualType", "")
    ret = fn_type.split("(")[0].strip()
    if tr.getter is not None:             # pure: state -> option T
        if ret not in GETTER_RETURN_TYPES[tr.getter[0]]:
            refuse(decl, "return type '%s' of a getter the mapping table lists as %s" % (ret, tr.getter[0]))
        tr.mode, tr.ret_kind = "opt", tr.getter[0]
        return
    if ret == "void":
        tr.mode = "void"
        return
    if ret == "uint8_t":                  # pure and partial: state -> option N
        tr.mode, tr.ret_kind = "opt", "lane"
        return
    if tr.fn in HANDLER_CALL_WRAPPERS:    # pure: state -> option hcall
        tr.mode, tr.ret_kind = "opt", "hcall"
        return
    if tr.fn in POINTER_RETURN:           # pure: state -> option cmd / option nat
        if not ret.endswith("*") or "struct cat_command" not in ret:
            refuse(decl, "return type '%s' is not a command pointer" % ret)
        tr.mode, tr.ret_kind = "opt", POINTER_RETURN[tr.fn]
        return
    kinds = {"cat_status": "Z", "bool": "bool", "_Bool": "bool", "int": "Z"}
    if ret not in kinds:
        refuse(decl, "return type '%s' is not mapped" % ret)
    if tr.fn in PURE_FUNCTIONS:
        tr.mode, tr.ret_kind = "opt", kinds[ret]
        return
    tr.ret_kind = kinds[ret]
    names = set()
    for item in body_items:
        for n in walk(item):
            if n.get("kind") == "ReturnStmt":
                v = strip_casts(n["inner"][0]) if n.get("inner") else {}
                d = v.get("referencedDecl", {})
                names.add(d.get("name") if d.get("kind") == "EnumConstantDecl" else None)
    if len(names) == 1 and None not in names and ret == "cat_status" and tr.fn not in PAIR_FUNCTIONS \
            and tr.oracle is None:
        name = names.pop()
        if name not in ENUMERATORS:
            refuse(decl, "returned enumerator %s is not in the mapping table" % name)
        tr.mode, tr.const_status = "const", ENUMERATORS[name][1]
    else:
        tr.mode = "pair"


def split_reading_prologue(tr, items):
    """items = statements of the body.  Checks that, after leading asserts, the first statement is
    exactly `if (read_cmd_char(self) == 0) return CAT_STATUS_OK;` and returns the rest."""
    i = 0
    while i < len(items) and is_assert(items[i]):
        i += 1
    if i >= len(items) or items[i].get("kind") != "IfStmt" or len(items[i]["inner"]) != 2:
        raise Unsupported("reading prologue `if (read_cmd_char(self) == 0) return CAT_STATUS_OK;` not found")
    cond, then = strip(items[i]["inner"][0]), items[i]["inner"][1]
    ok = cond.get("kind") == "BinaryOperator" and cond.get("opcode") == "=="
    if ok:
        call, zero = strip(cond["inner"][0]), strip(cond["inner"][1])
        ok = call.get("kind") == "CallExpr" and tr.callee_name(call) == "read_cmd_char" \
            and len(call["inner"]) == 2 and tr.is_self(call["inner"][1]) \
            and zero.get("kind") == "IntegerLiteral" and zero.get("value") == "0"
    if ok:
        if then.get("kind") == "CompoundStmt" and len(then.get("inner", [])) == 1:
            then = then["inner"][0]
        v = strip_casts(then["inner"][0]) if then.get("kind") == "ReturnStmt" and then.get("inner") else {}
        ok = v.get("referencedDecl", {}).get("name") == "CAT_STATUS_OK"
    if not ok:
        raise Unsupported("reading prologue is not exactly "
                          "`if (read_cmd_char(self) == 0) return CAT_STATUS_OK;`")
    rest = items[i + 1:]
    for item in rest:
        for n in walk(item):
            if n.get("kind") == "CallExpr" and tr.callee_name(n) == "read_cmd_char":
                raise Unsupported("read_cmd_char called outside the prologue")
    return rest


class AuxRegistry:
    """Functions of cat.c that a handler calls and that are NOT in the mapping table (typically
    helpers introduced by a refactoring).  They are translated like the handlers, as
    g_aux_<name> (g_aux_<name>_rd, with the extra parameter ch, when called from the body of a
    reading state), emitted before their callers and unfolded by the tie tactic: they belong to
    the generated side of the tie."""

    def __init__(self, defs, defines_ok):
        self.defs, self.defines_ok = defs, defines_ok
        self.done, self.in_progress, self.texts = {}, set(), []

    def get(self, name, reading):
        key = (name, reading)
        if key in self.in_progress:
            raise Unsupported("recursive function")
        if key not in self.done:
            if name in HANDLER_POINTER_CALLS or name is None or name not in self.defs:
                raise Unsupported("not a function defined in cat.c")
            self.in_progress.add(key)
            try:
                text, rep = translate_function(name, self.defs[name], self.defines_ok,
                                               frozenset(self.defs), aux=self,
                                               as_aux="_rd" if reading else "")
            finally:
                self.in_progress.discard(key)
            if text:
                self.texts.append(text)
            self.done[key] = rep
        rep = self.done[key]
        if rep["status"] != "translated":
            raise Unsupported(rep.get("why", rep["status"]))
        return rep

    def coq_names(self):
        return [r["coq_name"] for r in self.done.values() if r["status"] == "translated"]


def translate_function(fn, decls, defines_ok, defined_in_tu=frozenset(), aux=None, as_aux=None,
                       fragment=None):
    """-> (coq text or None, report entry).  as_aux: None for a tied function; '' or '_rd' for an
    auxiliary function ('_rd': called from the body of a reading state).
    fragment = (suffix, statements, [(clang id of a local, kind)]): translate only these statements
    of the function, as g_<fn><suffix>, the listed locals being extra parameters."""
    if not decls:
        return None, {"status": "missing"}
    try:
        if len(decls) != 1:
            raise Unsupported("several definitions named %s" % fn)
        d = decls[0]
        prologue = fn in READING_STATES and as_aux is None
        reading = prologue or as_aux == "_rd"
        tr = StatementTranslator(fn, d, defines_ok, reading)
        tr.defined_in_tu, tr.aux = defined_in_tu, aux
        if fn in GETTER_FUNCTIONS and as_aux is None and fragment is None:
            tr.getter = GETTER_FUNCTIONS[fn]
        params = [c for c in d["inner"] if c.get("kind") == "ParmVarDecl"]
        body = [c for c in d["inner"] if c.get("kind") == "CompoundStmt"][0]
        if d.get("variadic") or not params or not is_object_pointer(params[0]):
            refuse(d, "first parameter is not `struct cat_object *self`")
        if as_aux is not None and any(c.get("kind") in ("ForStmt", "WhileStmt", "DoStmt") for c in walk(body)):
            # (the tie of a loop needs a loop lemma, stated by hand in HandlerTie.v.in for the loops of
            #  the functions it knows by name; a helper introduced by a refactoring is not one of them)
            refuse(d, "an auxiliary function that contains a loop (no loop lemma can be stated for it in "
                      + TEMPLATE_NAME + ")")
        tr.self_id = params[0]["id"]
        env, binders, param_kinds = {}, [], []
        for p in params[1:]:
            q = " ".join(w for w in p.get("type", {}).get("qualType", "").split() if w != "const")
            if q in OUT_PARAM_KINDS:               # T *p, only written: an OUT-parameter
                env[p["id"]] = (None, OUT_PARAM_KINDS[q])
                tr.local_names[p["id"]] = p.get("name", "anon")
                tr.out_ids.append(p["id"])
                continue
            if q == "struct cat_command *":
                # a command pointer parameter: a descriptor if the function reads through it,
                # else (only stored / compared) the non-NULL index of a command
                deref = any(c.get("kind") == "MemberExpr" and c.get("isArrow") and
                            strip_casts(c["inner"][0]).get("referencedDecl", {}).get("id") == p["id"]
                            for c in walk(body))
                pk = "cmdrec" if deref else "cmdidx"
            elif stored_param_kind(tr, p, body) is not None:
                # a parameter that is only STORED into fields of self of one kind is of that kind
                # (e.g. `int write_state` stored into self->write_state, `const char *buf` stored
                # into self->write_buf)
                pk = stored_param_kind(tr, p, body)
            elif q in PARAM_KINDS:
                pk = PARAM_KINDS[q]
            elif fragment is not None and fragment[0] == "_body" and fn == INIT_FUNCTION:
                continue                   # desc / io / mutex: not used by the translated statements
            else:
                refuse(p, "parameter of unmapped type '%s'" % p.get("type", {}).get("qualType"))
            name = "p_" + p.get("name", "anon")
            env[p["id"]] = (name, pk)
            tr.local_names[p["id"]] = p.get("name", "anon")
            binders.append("(%s : %s)" % (name, COQ_TYPE[pk]))
            param_kinds.append(pk)
        items = body.get("inner", [])
        if fragment is not None:
            items = fragment[1]
            for c in walk(body):
                if c.get("kind") == "VarDecl" and c.get("id") in dict(fragment[2]):
                    k = dict(fragment[2])[c["id"]]
                    name = "p_" + c.get("name", "anon")
                    env[c["id"]] = (name, k)
                    tr.local_names[c["id"]] = c.get("name", "anon")
                    binders.append("(%s : %s)" % (name, COQ_TYPE[k]))
                    param_kinds.append(k)
        tr.written_locals = local_writes(items)
        tr.uns_alias_ids = uns_aliases(tr, body)
        # command-pointer locals that are never dereferenced (`r = NULL; .. r = &g->cmd[e]; .. return r;`)
        deref = set()
        for c in walk(body):
            if c.get("kind") in ("MemberExpr", "ArraySubscriptExpr") and (c.get("isArrow") or c["kind"] != "MemberExpr"):
                b = strip_casts(c["inner"][0])
                if b.get("kind") == "DeclRefExpr":
                    deref.add(b.get("referencedDecl", {}).get("id"))
            if c.get("kind") == "UnaryOperator" and c.get("opcode") == "*":
                b = strip_casts(c["inner"][0])
                if b.get("kind") == "DeclRefExpr":
                    deref.add(b.get("referencedDecl", {}).get("id"))
        tr.result_pointer_ids = {c["id"] for c in walk(body) if c.get("kind") == "VarDecl"} - deref
        for c in walk(body):               # locals that a helper with out-parameters writes through &x
            if c.get("kind") == "CallExpr" and tr.callee_name(c) in OUT_HELPERS:
                _, _, kinds_, outk_ = OUT_HELPERS[tr.callee_name(c)]
                for a, ok_ in zip(c["inner"][2 + len(kinds_):], outk_):
                    a = strip_casts(a)
                    x = strip(a["inner"][0]) if a.get("kind") == "UnaryOperator" and a.get("opcode") == "&" else {}
                    if x.get("kind") == "DeclRefExpr" and ok_ == "cmdptr":
                        tr.outarg_locals[x.get("referencedDecl", {}).get("id")] = ok_
        if fn in ORACLE_FUNCTIONS and as_aux is None and fragment is None:
            tr.oracle = ORACLE_FUNCTIONS[fn]
            env[ASK_ID] = ("ask0", "ask")
            tr.local_names[ASK_ID] = "ask"
            if sum(1 for c in walk(body) if c.get("kind") == "CallExpr" and tr.oracle_callee(c)) > 1:
                raise Unsupported("more than one call through a pointer of the io interface / a "
                                  "variable callback")
        post = fn in POST_CALL_FUNCTIONS and as_aux is None
        if post:
            tr.post = True
            first = [i for i in items if not is_assert(i)]
            if not first or first[0].get("kind") != "SwitchStmt" \
                    or not tr.is_handler_call(first[0]["inner"][0]):
                raise Unsupported("the first statement is not `switch (<call of the command handler>)`")
        if prologue:
            items = split_reading_prologue(tr, items)
        find_mode(tr, d, items)
        if as_aux is not None:
            gname = "g_aux_%s%s" % (fn, as_aux)
        else:
            gname = "g_%s%s" % (fn, "_body" if reading else "_post" if post else
                                fragment[0] if fragment else "")
        tr.gname_base = gname[2:]
        rtype = "state * %s" % COQ_TYPE[tr.ret_kind] if tr.mode == "pair" else \
            COQ_TYPE[tr.ret_kind] if tr.ret_kind in ("cmdrecopt", "cmdptr") + PTR_KINDS else \
            "option %s" % COQ_TYPE[tr.ret_kind] if tr.mode == "opt" else "state"
        if tr.out_ids:
            if tr.mode != "pair":
                raise Unsupported("out-parameters in a function that does not return a varying status")
            rtype += "".join(" * option %s" % par(COQ_TYPE[env[i][1]]) for i in tr.out_ids)
        if tr.oracle is not None:
            if tr.mode != "pair" or tr.ret_kind != "Z" or tr.out_ids:
                raise Unsupported("a function that calls an oracle must return a status / an int")
            rtype = "option (oreq * state) * state * Z"
        tr.rtype_text = rtype
        tr.top_kb = tr.function_end()
        term = tr.block(items, "s", env, tr.top_kb, None, set(tr.out_ids))
        if tr.uses_cmd_deref:
            if tr.assigns_obj_cmd:
                raise Unsupported("the function both dereferences and assigns self->cmd")
            fault = "set_fault_flag s" if tr.mode != "pair" else None
            if tr.mode == "pair" and tr.ret_kind in tr.FAULT_VALUE and not tr.out_ids:
                # outside the verified envelope: the flag is set, the value is a fixed default
                fault = "(%s)" % ", ".join(tr.ask(env) + ["set_fault_flag s", tr.FAULT_VALUE[tr.ret_kind]])
            if fault is None:
                raise Unsupported("self->cmd dereferenced in a function whose status varies")
            scrut = "cmd_of D ATCMD s" if tr.lead_cmd_index is None else \
                "cmd_by_index (d_groups D) %s" % tr.lead_cmd_index
            term = "match %s with\n| None => %s\n| Some c =>\n%s\nend" % (scrut, fault, ind(term))
        if tr.oracle is not None:
            term = "let ask0 := @None (oreq * state) in\n" + term
        first, last = node_line(d), d.get("range", {}).get("end", {})
        last = last.get("expansionLoc", last).get("line")
        if post and not tr.post_used:
            raise Unsupported("the handler call was not found where it is expected")
        ch = ["(ch : N)"] if reading else ["(code : Z)"] if post else []
        if tr.oracle is not None:
            ch = ["(ans : %s)" % tr.oracle[1]] + (["(env : cb_effect)"] if tr.oracle[2] else [])
        if tr.getter is not None and tr.getter[1]:
            binders = ["(junk : nat)"] + binders      # desc->unsolicited_buf_size in shared mode
        text = "(* cat.c:%s-%s  %s *)\n%sDefinition %s %s : %s :=\n%s.\n" % (
            first, last, d.get("type", {}).get("qualType", "").replace("*)", "* )"),
            "".join(tr.pre_defs), gname,
            " ".join(["(D : desc)"] + binders + ch + ["(s : state)"]), rtype, ind(term))
        if tr.mode == "const":
            text += "Definition %s_status : Z := %s.\n" % (gname, tr.const_status)
        if post and tr.post_call_term is not None:
            call = tr.post_call_term
            if getattr(tr, "call_derefs_cmd", False):
                call = "match cmd_of D ATCMD s with\n| None => None\n| Some c =>\n%s\nend" % ind(call)
            text += "(* the call of the command handler: which handler, on which command, with which arguments *)\n" \
                    "Definition g_%s_call %s : option hcall :=\n%s.\n" % (
                        fn, " ".join(["(D : desc)"] + binders + ["(s : state)"]), ind(call))
        return text, {"status": "translated", "coq_name": gname, "c_name": fn, "lines": [first, last],
                      "mode": tr.mode, "const_status": tr.const_status, "ret_kind": tr.ret_kind,
                      "param_kinds": param_kinds, "pure": tr.pure, "variant": tr.loop_sig,
                      "out_kinds": [env[i][1] for i in tr.out_ids]}
    except Unsupported as e:
        return None, {"status": "unsupported", "why": str(e)}
    except (KeyError, IndexError, TypeError, ValueError, AttributeError) as e:
        return None, {"status": "unsupported", "why": "unexpected AST shape: %r" % (e,)}


def translate_enum_values(enums):
    """The enumerators that the model represents by INTEGERS (cat_status, cat_return_state), with
    the values they have in cat.h: tied to the constants ST_* / RC_* of Fsm.v."""
    pairs = []
    for c_name, (kind, coq_name) in ENUMERATORS.items():
        if kind != "Z":
            continue
        if c_name not in enums:
            return None, {"status": "missing"}
        if enums[c_name] is None:
            return None, {"status": "unsupported",
                          "why": "cannot determine the value of enumerator %s" % c_name}
        v = enums[c_name]
        pairs.append("(%s, %s)" % (coq_name, "%d%%Z" % v if v >= 0 else "(%d)%%Z" % v))
    text = "(* cat.h: (model constant, value of the C enumerator of that name) *)\n" \
           "Definition g_enum_values : list (Z * Z) :=\n  [%s].\n" % ";\n   ".join(pairs)
    return text, {"status": "translated", "coq_name": "g_enum_values", "lines": [None, None],
                  "mode": "table", "const_status": None}


class _MutexSim:
    """A tiny interpreter for the test made on the mutex: the condition of `if (COND) return E;` is
    EVALUATED for every case of the environment (mutex NULL / not NULL, lock() / unlock() returning
    0, 1, -1, 7) with C's short-circuit rules, through calls of helpers of cat.c that take only
    `self` (e.g. `static bool lock_mutex(const struct cat_object *self)`) whose body consists of
    asserts, `if (c) return e; [else ..]` and `return e;`.  Accepted expressions: self->mutex, NULL,
    integer literals, == != ! && || ?:, self->mutex->lock() / unlock(), such helper calls.
    Anything else raises Unsupported."""
    MAX_DEPTH = 4

    def __init__(self, tr, defs):
        self.tr, self.defs = tr, defs

    def run(self, cond, mutex_not_null, answer):
        self.m, self.answer, self.calls = mutex_not_null, answer, []
        v = self.ev(cond, self.tr.self_id, 0)
        return self.truth(v), list(self.calls)

    def truth(self, v):
        if v == "null":
            return False
        if isinstance(v, tuple):
            return v[1]
        return v != 0

    def is_self(self, n, self_id):
        n = strip_casts(n)
        return n.get("kind") == "DeclRefExpr" and n.get("referencedDecl", {}).get("id") == self_id

    def is_mutex(self, n, self_id):
        n = strip_casts(n)
        return n.get("kind") == "MemberExpr" and n.get("name") == "mutex" and n.get("isArrow") \
            and self.is_self(n["inner"][0], self_id)

    def ev(self, n, self_id, depth):
        n = strip(n)
        kind = n.get("kind")
        if kind == "ImplicitCastExpr" or kind == "CStyleCastExpr":
            ck = n.get("castKind")
            if ck == "NullToPointer":
                return "null"
            if ck in ("LValueToRValue", "NoOp", "IntegralCast", "BitCast"):
                return self.ev(n["inner"][0], self_id, depth)
            if ck in ("IntegralToBoolean", "PointerToBoolean"):
                return 1 if self.truth(self.ev(n["inner"][0], self_id, depth)) else 0
            raise Unsupported("conversion of kind %s in a test of the mutex" % ck)
        if kind == "IntegerLiteral":
            return int(n["value"])
        if kind == "MemberExpr" and self.is_mutex(n, self_id):
            return ("ptr", self.m)
        if kind == "UnaryOperator" and n.get("opcode") == "!":
            return 0 if self.truth(self.ev(n["inner"][0], self_id, depth)) else 1
        if kind == "BinaryOperator" and n.get("opcode") in ("&&", "||"):
            a = self.truth(self.ev(n["inner"][0], self_id, depth))
            if a == (n["opcode"] == "||"):
                return 1 if a else 0
            return 1 if self.truth(self.ev(n["inner"][1], self_id, depth)) else 0
        if kind == "BinaryOperator" and n.get("opcode") in ("==", "!="):
            a, b = (self.ev(x, self_id, depth) for x in n["inner"])
            if "null" in (a, b):
                p = b if a == "null" else a
                if not isinstance(p, tuple):
                    raise Unsupported("NULL compared with a non-pointer")
                eq = not p[1]
            elif isinstance(a, tuple) or isinstance(b, tuple):
                raise Unsupported("pointer comparison")
            else:
                eq = a == b
            return 1 if eq == (n["opcode"] == "==") else 0
        if kind == "ConditionalOperator":
            c = self.truth(self.ev(n["inner"][0], self_id, depth))
            return self.ev(n["inner"][1 if c else 2], self_id, depth)
        if kind == "CallExpr":
            callee = strip_casts(n["inner"][0])
            if callee.get("kind") == "MemberExpr" and callee.get("isArrow") and len(n["inner"]) == 1 \
                    and callee.get("name") in ("lock", "unlock") and self.is_mutex(callee["inner"][0], self_id):
                if not self.m:
                    raise Unsupported("the mutex interface is called through a NULL pointer")
                self.calls.append(callee["name"])
                return self.answer
            name = self.tr.callee_name(n)
            decls = self.defs.get(name) or []
            if len(decls) == 1 and len(n["inner"]) == 2 and self.is_self(n["inner"][1], self_id) \
                    and depth < self.MAX_DEPTH:
                d = decls[0]
                params = [c for c in d["inner"] if c.get("kind") == "ParmVarDecl"]
                body = [c for c in d["inner"] if c.get("kind") == "CompoundStmt"][0]
                if len(params) == 1 and is_object_pointer(params[0]):
                    r = self.run_stmts(body.get("inner", []), params[0]["id"], depth + 1)
                    if r is None:
                        raise Unsupported("helper %s can end without a return" % name)
                    return r
            raise Unsupported("call of %s in a test of the mutex" % name)
        raise Unsupported("expression of kind %s in a test of the mutex" % kind)

    def run_stmts(self, stmts, self_id, depth):
        for st in stmts:
            if st.get("kind") == "NullStmt" or is_assert(st):
                continue
            if st.get("kind") == "CompoundStmt":
                r = self.run_stmts(st.get("inner", []), self_id, depth)
            elif st.get("kind") == "ReturnStmt" and st.get("inner"):
                return self.ev(st["inner"][0], self_id, depth)
            elif st.get("kind") == "IfStmt" and not st.get("hasInit") and not st.get("hasVar") \
                    and len(st.get("inner", [])) in (2, 3):
                c = self.truth(self.ev(st["inner"][0], self_id, depth))
                branch = st["inner"][1:2] if c else st["inner"][2:3]
                r = self.run_stmts(branch, self_id, depth)
            else:
                raise Unsupported("statement of kind %s in a helper that tests the mutex" % st.get("kind"))
            if r is not None:
                return r
        return None


def mutex_test(tr, S, defs=None):
    """S = `if (COND) return E;` where COND means  (self->mutex != NULL) && (self->mutex->OP() != 0)
    -- written so, or with truth values, or through a helper such as `!lock_mutex(self)` (decided by
    evaluating COND in every case of the environment, see _MutexSim: mutex NULL -> false and nothing
    is called; mutex not NULL -> OP() is called exactly once and COND is `its result != 0`).
    ->  (OP, E) with OP in lock/unlock and E an enumerator name; None if S is not of that shape."""
    if S.get("kind") != "IfStmt" or len(S.get("inner", [])) != 2 or S.get("hasInit") or S.get("hasVar"):
        return None
    cond, then = S["inner"][0], S["inner"][1]
    if not any(c.get("kind") == "MemberExpr" and c.get("name") == "mutex" for c in walk(cond)) and \
            not any(c.get("kind") == "CallExpr" for c in walk(cond)):
        return None
    if then.get("kind") == "CompoundStmt" and len(then.get("inner", [])) == 1:
        then = then["inner"][0]
    v = strip_casts(then["inner"][0]) if then.get("kind") == "ReturnStmt" and then.get("inner") else {}
    d = v.get("referencedDecl", {})
    if d.get("kind") != "EnumConstantDecl":
        return None
    sim = _MutexSim(tr, defs or {})
    try:
        if sim.run(cond, False, 0) != (False, []):
            return None
        op = None
        for answer in (0, 1, -1, 7):
            value, calls = sim.run(cond, True, answer)
            if len(calls) != 1 or value != (answer != 0) or (op is not None and calls[0] != op):
                return None
            op = calls[0]
    except (Unsupported, KeyError, IndexError, TypeError):
        return None
    return op, d.get("name")


def mutex_test_explain(tr, S, defs):
    """For the report: S = `if (COND) return E;` whose COND reaches the mutex interface but is NOT
    the test mutex_test accepts -> a sentence saying how it behaves; else None."""
    if S.get("kind") != "IfStmt" or len(S.get("inner", [])) != 2 or mutex_test(tr, S, defs) is not None:
        return None
    sim, rows, touched = _MutexSim(tr, defs or {}), [], False
    for m, answer in ((False, 0), (True, 0), (True, 1)):
        try:
            value, calls = sim.run(S["inner"][0], m, answer)
            rows.append("mutex %s%s: %s, calls %s" % (
                "!= NULL" if m else "== NULL", ", lock()/unlock() answering %d" % answer if m else "",
                "true" if value else "false", "/".join(calls) or "nothing"))
            touched = touched or bool(calls)
        except Unsupported as e:
            rows.append("mutex %s: %s" % ("!= NULL" if m else "== NULL", e))
            touched = touched or "NULL pointer" in str(e)
        except (KeyError, IndexError, TypeError):
            return None
    if not touched:
        return None
    return "the test at line %s reaches the mutex interface but is not `(self->mutex != NULL) && " \
           "(self->mutex->OP() != 0)` [%s]" % (node_line(S), "; ".join(rows))


def translate_api(fn, decls, defines_ok, defined_in_tu, aux, service=False):
    """A public function that takes the mutex (API_FUNCTIONS; service: cat_service).
    -> (coq text or None, report entry)."""
    if not decls:
        return None, {"status": "missing"}
    try:
        if len(decls) != 1:
            raise Unsupported("several definitions named %s" % fn)
        d = decls[0]
        tr = StatementTranslator(fn, d, defines_ok, False)
        params = [c for c in d["inner"] if c.get("kind") == "ParmVarDecl"]
        body = [c for c in d["inner"] if c.get("kind") == "CompoundStmt"][0]
        if not params or not is_object_pointer(params[0]):
            refuse(d, "first parameter is not `struct cat_object *self`")
        tr.self_id = params[0]["id"]
        items = [i for i in body.get("inner", []) if not is_assert(i)]
        tests = [(n, mutex_test(tr, i, aux.defs if aux is not None else {})) for n, i in enumerate(items)]
        locks = [n for n, m in tests if m and m[0] == "lock"]
        unlocks = [n for n, m in tests if m and m[0] == "unlock"]
        if len(locks) != 1 or len(unlocks) != 1 or locks[0] > unlocks[0]:
            why = [w for w in (mutex_test_explain(tr, i, aux.defs if aux is not None else {}) for i in items) if w]
            refuse(d, "expected one `if ((self->mutex != NULL) && (self->mutex->lock() != 0)) return E;` "
                      "followed by one such test of unlock() at the top level of the function, found "
                      "%d and %d%s" % (len(locks), len(unlocks), "".join("; " + w for w in why)))
        li, ui = locks[0], unlocks[0]
        for which, n in (("lock", li), ("unlock", ui)):
            e = tests[n][1][1]
            if e not in ENUMERATORS or ENUMERATORS[e][0] != "Z":
                refuse(items[n], "status %s returned when %s() fails is not in the mapping table" % (e, which))
        if not items or items[-1].get("kind") != "ReturnStmt" or ui == len(items) - 1:
            refuse(d, "the function does not end with a return statement after the unlock test")

        def touches_self(i):
            return any(c.get("kind") == "DeclRefExpr" and
                       c.get("referencedDecl", {}).get("id") == tr.self_id for c in walk(i))

        def local_decl(i):                 # declarations of locals that do not involve *self
            return i.get("kind") == "DeclStmt" and not touches_self(i) and \
                not any(c.get("kind") == "CallExpr" for c in walk(i))
        decl_items = [i for i in items[:li] if local_decl(i)]
        pre, post = [], []
        for where, group, out in (("before the lock test", items[:li], pre),
                                  ("after the unlock test", items[ui + 1:-1], post)):
            for i in group:
                if local_decl(i) and out is pre:
                    continue
                if not touches_self(i):    # not about the bracket, but it is not translated either
                    refuse(i, "a statement %s is neither a declaration nor about *self" % where)
                out.append(node_line(i) or 0)
        between = items[li + 1:ui]
        final = items[-1]
        inner_returns = sum(1 for i in between for c in walk(i) if c.get("kind") == "ReturnStmt")
        extra_mutex = sum(1 for n, i in enumerate(items) if n not in (li, ui) for c in walk(i)
                          if c.get("kind") == "MemberExpr" and c.get("name") == "mutex")
        ret_pure = not any(c.get("kind") == "DeclRefExpr" and
                           c.get("referencedDecl", {}).get("id") == tr.self_id for c in walk(final))
        shape = "(mkApiShape [%s] %s %s %d %d [%s] %s)" % (
            "; ".join(map(str, pre)), ENUMERATORS[tests[li][1][1]][1], ENUMERATORS[tests[ui][1][1]][1],
            inner_returns, extra_mutex, "; ".join(map(str, post)), "true" if ret_pure else "false")
        first = node_line(d)
        last = d.get("range", {}).get("end", {})
        last = last.get("expansionLoc", last).get("line")
        if not service:
            text = "(* cat.c:%s-%s  %s: the mutex bracket *)\nDefinition g_%s_shape : api_shape :=\n  %s.\n" % (
                first, last, fn, fn, shape)
            btext, rep = translate_function(fn, decls, defines_ok, defined_in_tu, aux=aux,
                                            fragment=("_body", decl_items + between + [final], []))
            if rep["status"] != "translated":
                raise Unsupported("between lock and unlock: %s" % rep.get("why", rep["status"]))
            return text + btext, {"status": "translated", "coq_name": "g_%s_shape" % fn,
                                  "lines": [first, last], "mode": "api", "const_status": None}
        # ---- cat_service: what stands between lock and unlock, in order
        local_ids = {c["id"]: c for i in decl_items for c in i.get("inner", [])}
        ret = strip_casts(final["inner"][0]) if final.get("inner") else {}
        status_id = ret.get("referencedDecl", {}).get("id") if ret.get("kind") == "DeclRefExpr" else None
        if status_id not in local_ids:
            refuse(final, "the function does not end with `return <local status variable>;`")
        order, us_id, merge = [], None, None
        for i in between:
            n = strip(i)
            if n.get("kind") == "BinaryOperator" and n.get("opcode") == "=":
                tgt, call = strip(n["inner"][0]), strip_casts(n["inner"][1])
                if tgt.get("kind") == "DeclRefExpr" and tgt.get("referencedDecl", {}).get("id") in local_ids \
                        and tgt["referencedDecl"]["id"] != status_id and us_id is None \
                        and tr.is_self_call(call, "unsolicited_events_service"):
                    us_id = tgt["referencedDecl"]["id"]
                    order.append("BI_events_service")
                    continue
            if n.get("kind") == "SwitchStmt" and \
                    tr.field_of(strip_casts(n["inner"][0])) == DISPATCH_FUNCTIONS["cat_service"][0]:
                order.append("BI_dispatch")
                continue
            if n.get("kind") == "IfStmt" and merge is None and us_id is not None and \
                    us_id in var_reads([n["inner"][0]]) and status_id in local_writes([n]):
                merge = n
                order.append("BI_merge")
                continue
            refuse(i, "a statement between lock and unlock is neither `<local> = "
                      "unsolicited_events_service(self);`, the switch over self->state nor the "
                      "merge of the two statuses")
        text = "(* cat.c:%s-%s  cat_service: the mutex bracket and what stands between lock and unlock *)\n" \
               "Definition g_cat_service_shape : service_shape :=\n  mkServiceShape %s\n    [%s].\n" % (
                   first, last, shape, "; ".join(order))
        if merge is not None:
            mtext, rep = translate_function(
                fn, decls, defines_ok, defined_in_tu, aux=aux,
                fragment=("_merge", [merge, final], [(us_id, "Z"), (status_id, "Z")]))
            if rep["status"] != "translated":
                raise Unsupported("the merge of the two statuses: %s" % rep.get("why", rep["status"]))
            text += mtext
        else:
            raise Unsupported("no `if (<status of unsolicited_events_service> ..) s = ..;` between "
                              "lock and unlock")
        return text, {"status": "translated", "coq_name": "g_cat_service_shape",
                      "lines": [first, last], "mode": "api", "const_status": None}
    except Unsupported as e:
        return None, {"status": "unsupported", "why": str(e)}
    except (KeyError, IndexError, TypeError, ValueError, AttributeError) as e:
        return None, {"status": "unsupported", "why": "unexpected AST shape: %r" % (e,)}


def translate_init(fn, decls, defines_ok, defined_in_tu, aux):
    """cat_init (see INIT_FUNCTION in section 1).  -> (coq text or None, report entry)."""
    if not decls:
        return None, {"status": "missing"}
    try:
        if len(decls) != 1:
            raise Unsupported("several definitions named %s" % fn)
        d = decls[0]
        tr = StatementTranslator(fn, d, defines_ok, False)
        params = [c for c in d["inner"] if c.get("kind") == "ParmVarDecl"]
        body = [c for c in d["inner"] if c.get("kind") == "CompoundStmt"][0]
        if not params or not is_object_pointer(params[0]):
            refuse(d, "first parameter is not `struct cat_object *self`")
        tr.self_id = params[0]["id"]
        pid = {p.get("name"): p["id"] for p in params[1:]}

        def is_param(n, name):
            n = strip_casts(n)
            return n.get("kind") == "DeclRefExpr" and n.get("referencedDecl", {}).get("id") == pid.get(name)

        def self_field(n):
            n = strip(n)
            return n.get("name") if n.get("kind") == "MemberExpr" and n.get("isArrow") \
                and tr.is_self(n["inner"][0]) else None

        def only_asserts(stmts):
            for x in stmts:
                if x.get("kind") == "NullStmt" or is_assert(x):
                    continue
                if x.get("kind") == "CompoundStmt" and only_asserts(x.get("inner", [])):
                    continue
                if x.get("kind") == "IfStmt" and len(x["inner"]) in (2, 3) and not x.get("hasInit") \
                        and not x.get("hasVar") and not any(
                            c.get("kind") in ("CallExpr", "CompoundAssignOperator") or
                            (c.get("kind") == "BinaryOperator" and c.get("opcode") == "=") or
                            (c.get("kind") == "UnaryOperator" and c.get("opcode") in ("++", "--"))
                            for c in walk(x["inner"][0])) and only_asserts(x["inner"][1:]):
                    continue
                if x.get("kind") == "ForStmt" and len(x.get("inner", [])) == 5 and only_asserts([x["inner"][4]]) \
                        and not any(c.get("kind") == "DeclRefExpr" and
                                    c.get("referencedDecl", {}).get("id") == tr.self_id
                                    for part in x["inner"][:4] if part for c in walk(part)):
                    continue          # a loop whose body only asserts and whose header does not mention self
                return False
            return True

        asserts, env_fields, rest_stmts = [], [], []
        count_zeroed, count_loop = None, None
        for item in body.get("inner", []):
            if is_assert(item):
                asserts.append(node_line(item) or 0)
                continue
            if item.get("kind") == "DeclStmt" and all(
                    c.get("kind") == "VarDecl" and not c.get("inner") for c in item.get("inner", [])):
                continue                                    # locals without initialiser
            n = strip(item)
            if n.get("kind") == "BinaryOperator" and n.get("opcode") == "=":
                f = self_field(n["inner"][0])
                if f == "commands_num":
                    z = strip_casts(n["inner"][1])
                    if z.get("kind") != "IntegerLiteral" or z.get("value") != "0" or count_zeroed is not None \
                            or count_loop is not None:
                        refuse(item, "self->commands_num is assigned something else than 0, or twice, "
                                     "or after the counting loop")
                    count_zeroed = node_line(item)
                    continue
                if f in INIT_ENV_FIELDS:
                    if not is_param(n["inner"][1], f):
                        refuse(item, "self->%s is not set from the parameter %s" % (f, f))
                    env_fields.append(INIT_ENV_FIELDS[f])
                    continue
            if item.get("kind") == "ForStmt" and count_loop is None and count_zeroed is not None:
                init, _, cond, inc, lbody = (item.get("inner", []) + [None] * 5)[:5]
                init, cond, inc = (strip(x) if x else {} for x in (init, cond, inc))
                ok = init.get("kind") == "BinaryOperator" and init.get("opcode") == "=" and \
                    strip_casts(init["inner"][1]).get("value") == "0"
                iid = strip(init["inner"][0]).get("referencedDecl", {}).get("id") if ok else None
                ok = ok and iid is not None and cond.get("kind") == "BinaryOperator" and cond.get("opcode") == "<" \
                    and strip_casts(cond["inner"][0]).get("referencedDecl", {}).get("id") == iid
                if ok:
                    b = strip_casts(cond["inner"][1])
                    ok = b.get("kind") == "MemberExpr" and b.get("name") == "cmd_group_num" and b.get("isArrow") \
                        and is_param(b["inner"][0], "desc")
                ok = ok and inc.get("kind") == "UnaryOperator" and inc.get("opcode") == "++" and \
                    strip(inc["inner"][0]).get("referencedDecl", {}).get("id") == iid
                if not ok:
                    refuse(item, "the loop is not `for (i = 0; i < desc->cmd_group_num; i++)`")
                stmts = lbody.get("inner", []) if lbody.get("kind") == "CompoundStmt" else [lbody]
                gid, added, others = None, 0, []
                for x in stmts:
                    m = strip(x)
                    if m.get("kind") == "BinaryOperator" and m.get("opcode") == "=" and gid is None and not added:
                        tgt, rhs = strip(m["inner"][0]), strip_casts(m["inner"][1])
                        if tgt.get("kind") == "DeclRefExpr" and rhs.get("kind") == "ArraySubscriptExpr":
                            arr, idx = strip_casts(rhs["inner"][0]), strip_casts(rhs["inner"][1])
                            if arr.get("kind") == "MemberExpr" and arr.get("name") == "cmd_group" \
                                    and arr.get("isArrow") and is_param(arr["inner"][0], "desc") \
                                    and idx.get("referencedDecl", {}).get("id") == iid:
                                gid = tgt.get("referencedDecl", {}).get("id")
                                continue
                    if m.get("kind") == "CompoundAssignOperator" and m.get("opcode") == "+=" \
                            and self_field(m["inner"][0]) == "commands_num" and gid is not None:
                        r = strip_casts(m["inner"][1])
                        if r.get("kind") == "MemberExpr" and r.get("name") == "cmd_num" and r.get("isArrow") and \
                                strip_casts(r["inner"][0]).get("referencedDecl", {}).get("id") == gid:
                            added += 1
                            continue
                    others.append(x)
                if gid is None or added != 1 or not only_asserts(others):
                    refuse(item, "the body of the counting loop is not `cmd_group = desc->cmd_group[i]; "
                                 "<asserts> self->commands_num += cmd_group->cmd_num; <loops of asserts>`")
                for x in others:
                    asserts.extend(node_line(c) or 0 for c in walk(x) if is_assert(c))
                count_loop = node_line(item)
                continue
            for c in walk(item):
                if c.get("kind") == "MemberExpr" and c.get("name") in ("commands_num",) + tuple(INIT_ENV_FIELDS) \
                        and tr.is_self(c["inner"][0]):
                    refuse(item, "self->%s is used in an unexpected way" % c.get("name"))
            rest_stmts.append(item)
        if count_loop is None:
            refuse(d, "the loop that counts the commands was not found")
        first = node_line(d)
        last = d.get("range", {}).get("end", {})
        last = last.get("expansionLoc", last).get("line")
        text = ("(* cat.c:%s-%s  cat_init.  asserts ignored (lines): %s *)\n"
                "(* the value the counting loop (line %s) leaves in self->commands_num *)\n"
                "Definition g_cat_init_commands_num (D : desc) : nat :=\n"
                "  fold_left (fun (acc : nat) (g : grp) => acc + length (grp_cmds g)) "
                "(enum_groups (d_groups D) 0 0) 0.\n"
                "(* the environment pointers that are set from the parameter of the same name *)\n"
                "Definition g_cat_init_env : list env_field := [%s].\n"
                % (first, last, ", ".join(map(str, sorted(set(asserts)))), count_loop,
                   "; ".join(sorted(set(env_fields)))))
        btext, rep = translate_function(fn, decls, defines_ok, defined_in_tu, aux=aux,
                                        fragment=("_body", rest_stmts, []))
        if rep["status"] != "translated":
            raise Unsupported("the field initialisations: %s" % rep.get("why", rep["status"]))
        return text + btext, {"status": "translated", "coq_name": "g_cat_init_body",
                              "lines": [first, last], "mode": "init", "const_status": None}
    except Unsupported as e:
        return None, {"status": "unsupported", "why": str(e)}
    except (KeyError, IndexError, TypeError, ValueError, AttributeError) as e:
        return None, {"status": "unsupported", "why": "unexpected AST shape: %r" % (e,)}


def translate_dispatch(fn, decls):
    """The dispatching switch of cat_service / unsolicited_events_service as a table."""
    if not decls:
        return None, {"status": "missing"}
    try:
        if len(decls) != 1:
            raise Unsupported("several definitions named %s" % fn)
        d = decls[0]
        field, coq_type = DISPATCH_FUNCTIONS[fn]
        tr = StatementTranslator(fn, d, {"lane": False, "wstate": False}, False)
        params = [c for c in d["inner"] if c.get("kind") == "ParmVarDecl"]
        body = [c for c in d["inner"] if c.get("kind") == "CompoundStmt"][0]
        if len(params) != 1 or not is_object_pointer(params[0]):
            refuse(d, "the only parameter is not `struct cat_object *self`")
        tr.self_id = params[0]["id"]
        switches = []
        for item in body.get("inner", []):
            if item.get("kind") == "SwitchStmt":
                m = strip_casts(item["inner"][0])
                if m.get("kind") == "MemberExpr" and tr.field_of(m) == field:
                    switches.append(item)
        if len(switches) != 1:
            refuse(d, "expected exactly one top-level switch over the state field, found %d" % len(switches))
        sw = switches[0]
        # Two styles.  (A) a status variable: `cat_status s [= S0]; .. switch { case X: s = f(self); break; .. }
        # .. return s;` (what stands between the switch and the return is not looked at here: for
        # cat_service it is the unit cat_service_bracket).  (B) the arms return: `case X: return f(self);`,
        # `case Y: g(self); break;` .. and the statements after the switch end with `return <enumerator>;`.
        # Every arm is EVALUATED symbolically (which handlers it calls, what the returned status is) and
        # then classified as an entry of the table; S0 is the status "unchanged", which the model fixes
        # per function (DISPATCH_S0).
        items_all = body.get("inner", [])
        last = (items_all or [{}])[-1] or {}
        ret = strip_casts(last["inner"][0]) if last.get("kind") == "ReturnStmt" and last.get("inner") else {}
        status_id, status_init = None, None
        if ret.get("kind") == "DeclRefExpr" and ret.get("referencedDecl", {}).get("kind") == "VarDecl":
            status_id = ret["referencedDecl"]["id"]
            for c in walk(body):
                if c.get("kind") == "VarDecl" and c.get("id") == status_id and c.get("inner"):
                    status_init = strip_casts(c["inner"][0]).get("referencedDecl", {}).get("name") or "?"
            after = [last]
        elif ret.get("kind") == "DeclRefExpr" and ret.get("referencedDecl", {}).get("kind") == "EnumConstantDecl":
            after = items_all[items_all.index(sw) + 1:]
        else:
            refuse(d, "the function does not end with `return <local variable>;` / `return <enumerator>;`")
        s0_name = DISPATCH_S0[fn]

        def is_status_var(n):
            n = strip_casts(n)
            return status_id is not None and n.get("kind") == "DeclRefExpr" \
                and n.get("referencedDecl", {}).get("id") == status_id

        def handler_call(n):
            """f(self[, FSM]) -> 'H_f' / '(H_f FSM)', or None."""
            n = strip(n)
            if n.get("kind") != "CallExpr":
                return None
            name, args = tr.callee_name(n), n["inner"][1:]
            if name not in DISPATCH_HANDLERS or not args or not tr.is_self(args[0]):
                refuse(n, "call of '%s', which is not a handler of the dispatch vocabulary" % name)
            if DISPATCH_HANDLERS[name]:
                if len(args) != 2:
                    refuse(n, "handler %s called without its fsm argument" % name)
                return "(H_%s %s)" % (name, tr.value(args[1], "fsm", "s", {}, []))
            if len(args) != 1:
                refuse(n, "handler %s called with extra arguments" % name)
            return "H_" + name

        def status_of(n, where):
            """the status an expression stands for: ('call', h) / ('enum', NAME) / ('var',)"""
            if is_status_var(n):
                return ("var",)
            m = strip_casts(n)
            if m.get("kind") == "CallExpr":
                return ("call", handler_call(m))
            name = m.get("referencedDecl", {}).get("name")
            if m.get("kind") == "DeclRefExpr" and m.get("referencedDecl", {}).get("kind") == "EnumConstantDecl":
                return ("enum", name)
            refuse(where, "a status that is neither a handler call, an enumerator nor the status variable")

        def run(stmts, calls, status, where, in_switch):
            """-> outcome: ('ret', calls, status) | ('ifne', outcome if events are queued, outcome if not)"""
            for n, st in enumerate(stmts):
                if st.get("kind") == "NullStmt" or is_assert(st):
                    continue
                if st.get("kind") == "CompoundStmt":
                    return run(st.get("inner", []) + stmts[n + 1:], calls, status, where, in_switch)
                if st.get("kind") == "BreakStmt":
                    if not in_switch:
                        refuse(st, "break outside the dispatching switch")
                    return run(after, calls, status, where, False)
                if st.get("kind") == "ReturnStmt" and st.get("inner"):
                    v = status_of(st["inner"][0], st)
                    if v[0] == "call":
                        return ("ret", calls + [v[1]], v)
                    return ("ret", calls, status if v == ("var",) else v)
                if st.get("kind") == "IfStmt" and len(st.get("inner", [])) in (2, 3) and not st.get("hasInit") \
                        and not st.get("hasVar"):
                    try:
                        c = tr.truth(st["inner"][0], "s", {}, [])
                    except Unsupported:
                        c = None
                    if c not in ("negb (ring_empty s)", "ring_empty s"):
                        refuse(st, "an arm of the dispatching switch tests something else than "
                                   "is_unsolicited_buffer_empty(self)")
                    then = run([st["inner"][1]] + stmts[n + 1:], calls, status, where, in_switch)
                    other = run((st["inner"][2:3]) + stmts[n + 1:], calls, status, where, in_switch)
                    return ("ifne", then, other) if c.startswith("negb") else ("ifne", other, then)
                e = strip(st)
                if e.get("kind") == "CallExpr":
                    calls = calls + [handler_call(e)]
                    continue
                if e.get("kind") == "BinaryOperator" and e.get("opcode") == "=" and is_status_var(e["inner"][0]):
                    v = status_of(e["inner"][1], st)
                    if v[0] == "call":
                        calls = calls + [v[1]]
                    status = status if v == ("var",) else v
                    continue
                refuse(st, "an arm of the dispatching switch has none of the supported shapes")
            refuse(where, "an arm of the dispatching switch does not end with break / return")

        def unchanged(status):
            """the status is S0, the value the model takes for `not assigned`"""
            if status == ("init",):
                if status_init != s0_name and DISPATCH_S0_NEEDS_INIT[fn]:
                    refuse(d, "the status variable is returned without having been assigned, and it is "
                              "not initialised with %s" % s0_name)
                return True
            return status == ("enum", s0_name)

        def classify(o, where):
            if o[0] == "ret":
                _, calls, status = o
                if len(calls) == 1 and status == ("call", calls[0]):
                    return "DAssign %s" % calls[0]
                if len(calls) == 1 and status == ("enum", "CAT_STATUS_BUSY"):
                    return "DBusy %s" % calls[0]
                if len(calls) == 1 and unchanged(status):
                    return "DCallOnly %s" % calls[0]
                if not calls and status == ("enum", "CAT_STATUS_ERROR_UNKNOWN_STATE"):
                    return "DUnknown"
                if not calls and unchanged(status):
                    return "DNothing"
            elif o[1][0] == "ret" and o[2][0] == "ret":
                (_, c1, s1), (_, c2, s2) = o[1], o[2]
                if len(c1) == 1 and s1 == ("enum", "CAT_STATUS_BUSY") and not c2 and unchanged(s2):
                    return "DIfEvents %s" % c1[0]
            refuse(where, "an arm of the dispatching switch has none of the supported shapes")

        def entry(stmts, where):
            return classify(run(stmts, [], ("init",), where, True), where)

        arms, cur = [], None
        for item in sw["inner"][1].get("inner", []):
            labels = []
            while item.get("kind") in ("CaseStmt", "DefaultStmt"):
                labels.append(item["inner"][0] if item["kind"] == "CaseStmt" else None)
                item = item["inner"][-1]
            if labels:
                cur = [labels, []]
                arms.append(cur)
            elif cur is None:
                refuse(item, "statement before the first case label")
            cur[1].append(item)
        lines, seen, default = [], set(), None
        for labels, stmts in arms:
            e = entry(stmts, labels[0] or sw)
            for lab in labels:
                if lab is None:
                    default = e
                    continue
                ex = tr.ex(lab, "s", {}, [])
                if ex.kind != coq_type or ex.term in seen:
                    refuse(lab, "case label of the wrong enumeration, or duplicated")
                seen.add(ex.term)
                lines.append("  | %s => %s" % (ex.term, e))
        if seen != set(CONSTRUCTORS[coq_type]):
            lines.append("  | _ => %s" % (default or "DNothing"))
        gname = "g_%s_dispatch" % fn
        first = node_line(sw)
        text = "(* cat.c:%s  the switch over %s of %s *)\nDefinition %s (x : %s) : dispatch :=\n  match x with\n%s\n  end.\n" % (
            first, "self->" + ("unsolicited_fsm." if field[0] == "uns" else "") + field[1], fn,
            gname, coq_type, "\n".join(lines))
        return text, {"status": "translated", "coq_name": gname, "lines": [first, first],
                      "mode": "dispatch", "const_status": None}
    except Unsupported as e:
        return None, {"status": "unsupported", "why": str(e)}
    except (KeyError, IndexError, TypeError, ValueError, AttributeError) as e:
        return None, {"status": "unsupported", "why": "unexpected AST shape: %r" % (e,)}


def translate(repo_src_dir, functions=None):
    """Translate the handler functions of <repo_src_dir>/cat.c.
    -> (coq_text, report); report[fn]['status'] in {'translated','unsupported','missing'}."""
    functions = HANDLER_FUNCTIONS + POST_CALL_FUNCTIONS + list(DISPATCH_FUNCTIONS) + [ENUM_VALUES] \
        + API_FUNCTIONS + [SERVICE_BRACKET, INIT_FUNCTION, BUFFER_REGIONS] if functions is None else functions
    src = os.path.join(repo_src_dir, "cat.c")
    header = GEN_HEADER % {"source": src, "lp": GEN_LOGICAL_PATH}
    reset_globals()
    defs, enums, err = load_translation_unit(repo_src_dir)
    if err:
        return header, {fn: {"status": "unsupported", "why": err} for fn in functions}
    defines_ok = read_defines(repo_src_dir)
    report, texts = {}, []
    aux = AuxRegistry(defs, defines_ok)
    for fn in functions:
        if fn == ENUM_VALUES:
            text, report[fn] = translate_enum_values(enums)
        elif fn == BUFFER_REGIONS:
            bad = [g for g in REGION_GETTERS if report.get(g, {}).get("status") != "translated"]
            if bad:
                text, report[fn] = None, {"status": "unsupported",
                                          "why": "the region lemma needs the translation of " + ", ".join(bad)}
            else:
                text = "(* %s: the region lemma is stated on g_%s (HandlerTie.v) *)\n" % (
                    fn, ", g_".join(REGION_GETTERS))
                report[fn] = {"status": "translated", "coq_name": None, "lines": [None, None],
                              "mode": "lemma", "const_status": None}
        elif fn == INIT_FUNCTION:
            text, report[fn] = translate_init(fn, defs.get(fn, []), defines_ok, frozenset(defs), aux)
        elif fn in DISPATCH_FUNCTIONS:
            text, report[fn] = translate_dispatch(fn, defs.get(fn, []))
        elif fn in API_FUNCTIONS or fn == SERVICE_BRACKET:
            text, report[fn] = translate_api("cat_service" if fn == SERVICE_BRACKET else fn,
                                             defs.get("cat_service" if fn == SERVICE_BRACKET else fn, []),
                                             defines_ok, frozenset(defs), aux, fn == SERVICE_BRACKET)
        else:
            text, report[fn] = translate_function(fn, defs.get(fn, []), defines_ok, frozenset(defs),
                                                  aux=aux)
        if text:
            for w in HANDLER_CALL_WRAPPERS:
                if re.search(r"\bg_%s\b" % w, text) and fn != w and \
                        report.get(w, {}).get("status") != "translated":
                    text, report[fn] = None, {
                        "status": "unsupported",
                        "why": "the handler is called through %s, which is not translated" % w}
                    break
        if text:
            texts.append(text)
            report[fn]["auxiliary"] = sorted(n for n in aux.coq_names()
                                             if re.search(r"\b%s\b" % n, text))
    aux_text = ""
    if aux.coq_names():
        aux_text = ("(* ---- helpers of cat.c that are not in the mapping table, translated on the "
                    "fly ---- *)\n" + "\n".join(aux.texts) +
                    "\n(* the tie tactic unfolds them *)\n"
                    "Ltac tie_unfold_gen ::= cbv delta [%s].\n\n" % " ".join(aux.coq_names()))
    return header + "\n" + aux_text + "\n".join(texts), report



# ======================================================================================
# 6. The tie: assemble HandlerTie.v from the template, compile, diagnose
# ======================================================================================

MARK = re.compile(r"^\(\*@ (BEGIN) (\w+) (CHECK|THEOREM)(?: ([\w=,]+))? @\*\)\s*$|^\(\*@ (END) @\*\)\s*$")


def parse_template(text):
    """Template = Coq text with marker lines (*@ BEGIN <fn> CHECK|THEOREM [<variant>] @*) ... (*@ END @*).
    -> list of segments (fn or None, kind or None, text, variant or None); text outside markers is
    common.  A block with a <variant> (e.g. loop=bool: the kinds of the locals the generated loop
    carries) is used only when the translation of <fn> reports that variant: a function whose loop is
    written in another accepted shape has a generated recursion with other parameters, hence a loop
    lemma with another statement."""
    segs, cur, owner = [], [], (None, None, None)
    for line in text.splitlines(keepends=True):
        m = MARK.match(line.rstrip("\n"))
        if not m:
            cur.append(line)
            continue
        segs.append((owner[0], owner[1], "".join(cur), owner[2]))
        cur = []
        owner = (m.group(2), m.group(3), m.group(4)) if m.group(1) else (None, None, None)
    segs.append((owner[0], owner[1], "".join(cur), owner[2]))
    return segs


def assemble(segs, fns, with_theorems=True, variants=None):
    """The template restricted to the functions `fns` (optionally without the theorems);
    variants[fn] = the variant reported by the translation of fn."""
    variants = variants or {}
    return "".join(t for fn, kind, t, var in segs
                   if fn is None or (fn in fns and (with_theorems or kind == "CHECK")
                                     and (var is None or var == variants.get(fn))))


def template_variants(segs):
    """fn -> the variants its THEOREM blocks are written for (only functions that have such blocks)."""
    out = {}
    for fn, kind, _, var in segs:
        if fn and kind == "THEOREM" and var is not None:
            out.setdefault(fn, set()).add(var)
    return out


def coqc(path, coq_dir, workdir):
    """Compile one file of the work directory. -> (ok, stdout, tail of the error output)."""
    cmd = ["timeout", str(COQC_TIMEOUT_S), "coqc", "-q", "-Q", coq_dir, "CatV",
           "-Q", workdir, GEN_LOGICAL_PATH, path]
    try:
        p = subprocess.run(cmd, capture_output=True, text=True, cwd=workdir)
    except OSError as e:
        return False, "", "could not run coqc: %r" % (e,)
    tail = (p.stderr.strip() or p.stdout.strip())[-700:]
    if p.returncode == 124:
        tail = "coqc timed out after %d s; %s" % (COQC_TIMEOUT_S, tail)
    return p.returncode == 0, p.stdout, tail


def write(path, text):
    with open(path, "w") as f:
        f.write(text)


def all_closed(stdout, text):
    """Every `Print Assumptions` of the compiled text answered 'Closed under the global context'."""
    n = len(re.findall(r"^\s*Print Assumptions\b", text, re.M))
    return n > 0 and stdout.count("Closed under the global context") == n \
        and "Axioms:" not in stdout


def find_witness(segs, fn, coq_dir, workdir, variants=None):
    """Evaluate wit_<fn> (CHECK block of the template) with vm_compute in a file of its own.
    -> dict describing the first differing input, or None (they agree on the whole family, or the
    evaluation itself failed)."""
    path = os.path.join(workdir, "HandlerDiag_%s.v" % fn)
    write(path, assemble(segs, [fn], with_theorems=False, variants=variants)
          + "\nFrom Coq Require Import String.\nLocal Open Scope string_scope.\n"
            "Eval vm_compute in wit_%s.\n" % fn)
    ok, out, _ = coqc(path, coq_dir, workdir)
    if not ok:
        return None
    m = re.search(r"=\s*Some\s*(\{\|.*\|\})\s*:\s*option", out, re.S)
    if not m:
        return None
    rec = re.sub(r"\s+", " ", m.group(1))
    w = {}
    for key, nxt in (("w_input", "w_generated"), ("w_generated", "w_model"),
                     ("w_model", "w_differ_in"), ("w_differ_in", None)):
        pat = r"%s := (.*?)%s" % (key, r";\s*%s :=" % nxt if nxt else r"\s*\|\}$")
        mm = re.search(pat, rec)
        w[key[2:]] = mm.group(1).strip() if mm else None
    if w.get("differ_in"):
        w["differ_in"] = re.findall(r'"([^"]*)"', w["differ_in"])
    w["note"] = ("as printed by Coq.  Handlers: input = ([extra argument or character,] (index of "
                 "the test descriptor in HandlerTieLib.tD, state)); tables: input = the key")
    return w


def run_handler_tie(repo_src_dir, workdir, coq_dir, template_path=None, tie_src_dir=None):
    """Regenerate HandlerGen.v from the C source, assemble HandlerTie.v, compile, diagnose.
    -> dict: translated / unsupported / missing / proved / failed / wall_s (see module doc)."""
    t0 = time.time()
    repo_src_dir, workdir, coq_dir = (os.path.abspath(p) for p in (repo_src_dir, workdir, coq_dir))
    tie_src_dir = os.path.abspath(tie_src_dir) if tie_src_dir else coq_dir
    template_path = template_path or os.path.join(tie_src_dir, TEMPLATE_NAME)
    os.makedirs(workdir, exist_ok=True)
    for name in os.listdir(workdir):                  # never reuse anything from an older run
        if re.match(r"\.?Handler(Gen|Tie|Diag|TieLib)", name) or name == ".lia.cache":
            os.remove(os.path.join(workdir, name))

    gen_text, report = translate(repo_src_dir)
    fns = list(report)
    translated = [f for f in fns if report[f]["status"] == "translated"]
    res = {
        "source": os.path.join(repo_src_dir, "cat.c"),
        "translated": translated,
        "unsupported": {f: report[f]["why"] for f in fns if report[f]["status"] == "unsupported"},
        "missing": [f for f in fns if report[f]["status"] == "missing"],
        "proved": [], "failed": {},
        "lines": {f: report[f]["lines"] for f in translated},
        # helpers whose correspondence with the model function of the same name is assumed
        "assumed_helpers": ASSUMED_HELPERS,
        # .. every one of which is tied by a sibling translator (helper -> the tool that ties it)
        "assumed_helpers_tied_elsewhere": {h: TIED_ELSEWHERE[h] for h in ASSUMED_HELPERS if h in TIED_ELSEWHERE},
        "assumed_helpers_untied": [h for h in ASSUMED_HELPERS if h not in TIED_ELSEWHERE],
        # helpers outside the mapping table that were translated on the fly, per caller
        "auxiliary": {f: report[f]["auxiliary"] for f in translated if report[f].get("auxiliary")},
        "files": {"generated": os.path.join(workdir, "HandlerGen.v"),
                  "tie": os.path.join(workdir, "HandlerTie.v")},
    }

    def done():
        res["wall_s"] = round(time.time() - t0, 2)
        return res

    def fail_all(todo, what, tail):
        for f in todo:
            res["failed"][f] = {"witness": None, "error": what, "coqc": tail}
        return done()

    write(res["files"]["generated"], gen_text)
    lib = os.path.join(workdir, LIB_NAME)
    shutil.copyfile(os.path.join(tie_src_dir, LIB_NAME), lib)
    with open(template_path) as f:
        segs = parse_template(f.read())
    known = {fn for fn, _, _, _ in segs if fn}
    for f in translated:
        if f not in known:
            res["failed"][f] = {"witness": None, "error": "no block for this function in " + template_path}
    # a loop written in a shape for which the template states no loop lemma: not a difference, and not
    # a broken proof either -- the function is outside the supported subset
    variants = {f: report[f].get("variant") for f in translated}
    other_shape = {f: have for f, have in template_variants(segs).items()
                   if f in translated and variants.get(f) not in have}
    todo = [f for f in translated if f in known and f not in other_shape]

    ok, _, tail = coqc(lib, coq_dir, workdir)
    if not ok:
        return fail_all(todo, LIB_NAME + " does not compile", tail)
    ok, _, tail = coqc(res["files"]["generated"], coq_dir, workdir)
    if not ok:                                        # a translator bug, not a difference
        return fail_all(todo, "generated HandlerGen.v does not compile", tail)

    # (.. unless the generated function and the model DIFFER on the test family: the witness search does
    # not depend on the shape of the loop, and a difference is a difference)
    for f, have in other_shape.items():
        w = find_witness(segs, f, coq_dir, workdir, variants)
        if w is not None:
            res["failed"][f] = {"witness": w, "coqc": "(no loop lemma for the shape %s; the witness was "
                                "found by evaluation)" % variants.get(f)}
            continue
        translated.remove(f)
        res["lines"].pop(f, None)
        res["auxiliary"].pop(f, None)
        res["unsupported"][f] = (
            "the function is translated (%s) and agrees with the model on the whole test family, but %s "
            "states its loop lemma only for: %s" % (
                "its loop carries %s: the kinds of the locals that go from one iteration to the next"
                % variants[f] if variants.get(f) else "without a loop of its own",
                TEMPLATE_NAME, ", ".join(sorted(have))))

    # HandlerTie.v = the template restricted to the translated functions (kept for the reader).  It is
    # COMPILED IN PARTS, in parallel: the functions are dealt into a few files HandlerTie_partK.v
    # (each with the common text); a part that is accepted proves all its functions.
    from concurrent.futures import ThreadPoolExecutor
    tie = res["files"]["tie"]
    write(tie, assemble(segs, todo, variants=variants))
    cpus = os.cpu_count() or 1
    weight = {"set_cmd_state": 8, "get_cmd_state": 2,          # the exhaustive sweeps
              "format_info_type": 6, "update_command": 3, "search_command": 2,
              "parse_write_args": 24, "print_cmd_list": 9, "parse_command_args": 4,
              "print_response_test": 3, "start_processing_format_test_args": 3,
              "start_processing_format_read_args": 2, "print_current_cmd_full_name": 2,
              "format_read_args": 3, "process_read_loop": 2, "process_test_loop": 2}
    nparts = max(1, min(8, cpus // 2, len(todo)))
    parts, load = [[] for _ in range(nparts)], [0] * nparts
    for f in sorted(todo, key=lambda f: -weight.get(f, 1)):
        k = load.index(min(load))
        parts[k].append(f)
        load[k] += weight.get(f, 1)
    parts = [sorted(p, key=todo.index) for p in parts if p]

    def check_part(k):
        path = os.path.join(workdir, "HandlerTie_part%d.v" % k)
        text1 = assemble(segs, parts[k], variants=variants)
        write(path, text1)
        ok1, out1, _ = coqc(path, coq_dir, workdir)
        return ok1 and all_closed(out1, text1)

    # A part that is refused: every function of it is checked on its own, to attribute the failure.
    def check_one(f):
        path = os.path.join(workdir, "HandlerTie_%s.v" % f)
        text1 = assemble(segs, [f], variants=variants)
        write(path, text1)
        ok1, out1, tail1 = coqc(path, coq_dir, workdir)
        if ok1 and all_closed(out1, text1):
            return f, None
        w = find_witness(segs, f, coq_dir, workdir, variants)
        return f, {"witness": w,
                   "coqc": tail1 if not ok1 else "Print Assumptions not closed: " + out1[-400:]}

    with ThreadPoolExecutor(max_workers=min(16, cpus)) as pool:
        accepted = list(pool.map(check_part, range(len(parts))))
        proved = {f for k, ok in enumerate(accepted) if ok for f in parts[k]}
        alone = [f for f in todo if f not in proved]
        for f, failure in pool.map(check_one, alone):
            if failure is None:
                proved.add(f)
            else:
                if failure["witness"] is None:
                    failure["error"] = ("tie theorem not accepted, but generated and model agree on "
                                        "the whole test family (or the diagnosis could not be run): "
                                        "the proof script no longer applies")
                res["failed"][f] = failure
    res["proved"] = [f for f in todo if f in proved]
    return done()


def main(argv):
    if len(argv) not in (4, 5):
        sys.stderr.write("usage: handler_translate.py <repo_src_dir> <workdir> <coq_dir> "
                         "[<dir of HandlerTieLib.v and HandlerTie.v.in, default coq_dir>]\n")
        return 2
    res = run_handler_tie(argv[1], argv[2], argv[3], tie_src_dir=argv[4] if len(argv) == 5 else None)
    print(json.dumps(res, indent=2))
    return 1 if any(v.get("witness") for v in res["failed"].values()) else 0


if __name__ == "__main__":
    sys.exit(main(sys.argv))
