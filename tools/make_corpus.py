#!/usr/bin/env python3
"""Writes the committed corpus of historical failing inputs (the five defects repaired by fix: commits)."""
import sys, os
sys.path.insert(0, os.path.join(os.path.dirname(os.path.abspath(__file__)), '..', 'harness'))
from catlib import *
OUT = os.path.join(os.path.dirname(os.path.abspath(__file__)), '..', 'corpus')
os.makedirs(OUT, exist_ok=True)

def save(name, props, sc, note):
    with open(os.path.join(OUT, name + '.scn'), 'w') as f:
        f.write('# properties: %s\n# %s\n' % (' '.join(props), note))
        f.write(sc.text())

# C01: ambiguous abbreviation followed by '=' and text that is itself a command
s = Scn('c01_ambiguous_eq', cap=1, buf_size=64)
s.add_group([Cmd('+TA', w=True, run=True), Cmd('+TB', w=True, run=True), Cmd('Z', run=True)])
s.feed('AT+T=ATZ\n'); s.drain(4000)
save('c01_ambiguous_eq', ['C01', 'C02', 'C20'], s, 'pinned tree: ERROR, then Z executed and OK')

# C04: accumulator wrap
s = Scn('c04_wrap', cap=1, buf_size=128)
s.add_group([Cmd('+SET', vars=[Var(UINT, 1, RW, init=b'\x07')]),
             Cmd('+HEX', vars=[Var(HEX, 4, RW, init=b'\x01\x02\x03\x04')]),
             Cmd('+INT', vars=[Var(INT, 4, RW, init=b'\x01\x02\x03\x04')])])
s.feed('AT+SET=18446744073709551621\n'); s.drain(4000)
s.feed('AT+HEX=0x10000000000000005\n'); s.drain(4000)
s.feed('AT+INT=18446744073709551621\n'); s.drain(4000)
s.feed('AT+INT=-9223372036854775809\n'); s.drain(4000)
save('c04_wrap', ['C04', 'C03'], s, 'pinned tree: 5 stored in uint8 / hex32; signed overflow')

# C15: capacity 2, event that fails at once then a good one
s = Scn('c15_ok_with_pending', cap=2, buf_size=64)
s.add_group([Cmd('+BAD'), Cmd('+GOOD', vars=[Var(UINT, 1, RW, init=b'\x05')])])
s.op('t 0 1'); s.op('t 1 1'); s.service(1); s.service(1); s.drain(4000)
save('c15_ok_with_pending', ['C15', 'C13'], s, 'pinned tree: cat_service returns OK with one event still queued')

# C18: busy query in the middle of an event line
s = Scn('c18_busy_event', cap=2, buf_size=64)
s.add_group([Cmd('+U', vars=[Var(UINT, 1, RW, init=b'\x05')])])
s.op('t 0 1')
for i in range(14):
    s.service(1); s.op('b')
s.drain(4000); s.op('b')
save('c18_busy_event', ['C18', 'C11'], s, 'pinned tree: cat_is_busy returns OK while the event line is partly written')

# C19: command of a disabled group listed
s = Scn('c19_group_disabled_list', cap=1, buf_size=128)
s.add_group([Cmd('+LIST', run=True)])
s.add_group([Cmd('+HID', run=True, r=True)])
s.script(2, 0, 0, [Res(RC['LIST'])])
s.op('dg 1 1')
s.feed('AT+LIST\n'); s.drain(4000)
s.feed('AT+HID\n'); s.drain(4000)
save('c19_group_disabled_list', ['C19', 'C09'], s, 'pinned tree: +HID listed although every form answers ERROR')
print('ok')
